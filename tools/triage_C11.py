#!/venv/bin/python
"""Plain replay (no framework, no taps) of the C11 witnesses on the working tree of /repo.

1. UNRESTRICTED_STORAGE_SERVICE, storage context without role proposal: acceptor holds (as_scu, as_scp) = (True, True),
   requestor holds (True, False) -> not complementary (same root cause as the C10 finding
   roles-differ|unrestricted|storage-like|rq=absent).
2. same with Modality Worklist FIND (classified as storage by negotiate_unrestricted).
3. build_role(uid, scu_role=False, scp_role=False) is admitted by AE.associate(ext_neg=...) but the A-ASSOCIATE-RQ
   cannot be encoded: ValueError in the requestor's DUL thread (AE-2), associate() returns after acse_timeout, aborted.
"""
import logging
import threading
import time

from pynetdicom import AE, _config, build_context, build_role, evt

logging.disable(logging.CRITICAL)
CT, MWL, VER = "1.2.840.10008.5.1.4.1.1.2", "1.2.840.10008.5.1.4.31", "1.2.840.10008.1.1"


def run(title, abstract, unrestricted, roles=None):
    seen = {}
    escaped = []
    threading.excepthook = lambda a: escaped.append("%s: %s" % (a.exc_type.__name__, a.exc_value))

    def on_est(event):
        seen["acceptor"] = [(c.context_id, c.as_scu, c.as_scp) for c in event.assoc.accepted_contexts]
    scp = AE("ACCEPTOR")
    scp.add_supported_context(VER)
    _config.UNRESTRICTED_STORAGE_SERVICE = unrestricted
    try:
        scp.start_server(("127.0.0.1", 0), block=False, evt_handlers=[(evt.EVT_ESTABLISHED, on_est)])
        port = scp._servers[0].server_address[1]
        scu = AE("REQUESTOR")
        scu.acse_timeout = 2
        t0 = time.time()
        assoc = scu.associate("127.0.0.1", port, contexts=[build_context(abstract, "1.2.840.10008.1.2")],
                              ext_neg=[build_role(abstract, *roles)] if roles else [])
        dt = time.time() - t0
        time.sleep(0.2)
        print(title)
        print("   requestor established=%s aborted=%s (%.1f s) accepted (id, as_scu, as_scp) = %r"
              % (assoc.is_established, assoc.is_aborted, dt, [(c.context_id, c.as_scu, c.as_scp) for c in assoc.accepted_contexts]))
        print("   acceptor  accepted (id, as_scu, as_scp) = %r" % (seen.get("acceptor"),))
        if escaped:
            print("   escaped exception in a thread: %s" % escaped[0])
        if assoc.is_established:
            assoc.release()
    finally:
        _config.UNRESTRICTED_STORAGE_SERVICE = False
        scp.shutdown()


run("1. unrestricted, CT Image Storage, no role proposal", CT, True)
run("2. unrestricted, Modality Worklist FIND, no role proposal", MWL, True)
run("3. role proposal SCU=0/SCP=0 through AE.associate(ext_neg=[build_role(uid, False, False)])", VER, False, (False, False))
