import sys, shutil, os
name = sys.argv[1]
dst = "/tmp/mut_C19_%s" % name
shutil.rmtree(dst, ignore_errors=True)
os.makedirs(dst)
shutil.copytree(os.environ.get("C19_BASE", "/repo") + "/pynetdicom", dst + "/pynetdicom")
p = dst + "/pynetdicom/association.py"
s = open(p).read()
serve_old = '''        try:
            context = self._accepted_cx[context_id]
        except KeyError:
            LOGGER.info(
                "Received DIMSE message with invalid or rejected "
                f"context ID: {context_id}"
            )
            LOGGER.debug(str(msg))
            self.abort()
            return
'''
assert s.count(serve_old) == 1
if name == "M1":   # fallback to the first accepted context
    new = '''        context = self._accepted_cx.get(context_id) or next(iter(self._accepted_cx.values()))
'''
    s = s.replace(serve_old, new)
elif name == "M2":  # no abort for ids that were proposed but rejected: use an accepted context with the SOP class
    new = serve_old.replace('''        except KeyError:
''', '''        except KeyError:
            if context_id in [cx.context_id for cx in self.rejected_contexts]:
                try:
                    context = self._get_valid_context(class_uid, "")
                    service_class.SCP(msg, context)
                except ValueError:
                    self.abort()
                return
''')
    s = s.replace(serve_old, new)
elif name == "M3":  # same lookup as _c_store_scp: _get_valid_context with the id as a hint
    new = '''        try:
            context = self._get_valid_context(class_uid, "", context_id=context_id)
        except ValueError:
            self.abort()
            return
'''
    s = s.replace(serve_old, new)
elif name == "M5":  # context id 0 treated as "unspecified": pick a matching accepted context
    new = serve_old.replace('''        try:
            context = self._accepted_cx[context_id]
''', '''        try:
            if context_id == 0:
                context_id = self._get_valid_context(class_uid, "").context_id
            context = self._accepted_cx[context_id]
''')
    s = s.replace(serve_old, new)
elif name == "M6":  # requestor side: only never-proposed ids abort, rejected ones fall back as before
    old = "        if req._context_id not in self._accepted_cx:\n"
    assert s.count(old) == 1
    s = s.replace(old, "        if req._context_id not in self._accepted_cx and req._context_id not in [\n            cx.context_id for cx in self.rejected_contexts\n        ]:\n")
elif name == "M7":  # even ids are mapped onto the odd id above them
    new = serve_old.replace("self._accepted_cx[context_id]", "self._accepted_cx[context_id | 1]")
    s = s.replace(serve_old, new)
elif name == "M8":  # N-EVENT-REPORT fast path in dimse.py bypasses _serve_request's check
    p2 = dst + "/pynetdicom/dimse.py"
    d = open(p2).read()
    old = "                    target=make_target(self.assoc._serve_request),\n                    args=(d_primitive, context_id),\n"
    assert d.count(old) == 1
    d = d.replace(old, "                    target=make_target(self.assoc._serve_request),\n                    args=(d_primitive, context_id if context_id in self.assoc._accepted_cx else self.assoc.accepted_contexts[0].context_id),\n")
    open(p2, "w").write(d)
else:
    raise SystemExit("unknown")
open(p, "w").write(s)
print(dst)
