#!/bin/sh
# tools/seed_confirm.sh <PID> [outdir]  -- confirm a seeded change independently and store it under seeded/<PID>/
# 1. fresh scratch worktree of /repo HEAD; 2. demo without patch (expect exit 0); 3. apply patch;
# 4. demo with patch (expect non-zero); 5. library test suite with patch (-n 8); 6. record; 7. remove worktrees.
PID="$1"; NAME="${3:-$PID}"; OUT="${2:-/tmp/wt/${PID}_out}"
DEST=/verif/seeded/$NAME
WT=/tmp/wt/confirm_$NAME
SRC_WT="${SRC_WT:-/tmp/wt/$PID}"
mkdir -p "$DEST"
cp "$OUT"/patch.diff "$DEST"/patch.diff
for f in "$OUT"/demo*.py; do cp "$f" "$DEST"/; done
cp "$OUT"/meta.json "$DEST"/meta.agent.json 2>/dev/null
DEMO=$(ls "$DEST"/demo*.py | head -1)
git -C /repo worktree remove --force "$WT" 2>/dev/null
git -C /repo worktree add -q --detach "$WT" "${BASE_REF:-HEAD}" || exit 3
cd "$WT" || exit 3
run_demo() { case "$DEMO" in *_test.py) PYTHONPATH=$WT timeout 300 /venv/bin/python -m pytest -q -p no:cacheprovider "$DEMO" >/tmp/wt/demo_$NAME.log 2>&1;; *) PYTHONPATH=$WT timeout 300 /venv/bin/python "$DEMO" >/tmp/wt/demo_$NAME.log 2>&1;; esac; echo $?; }
# demos written by agents may hard-code their own worktree path: rewrite to this one
sed -i "s#$SRC_WT\b#$WT#g" "$DEMO"
RC0=$(run_demo)
if ! git apply "$DEST"/patch.diff; then echo "PATCH DOES NOT APPLY"; RCA=applyfail; else RCA=ok; fi
RC1=$(run_demo)
TAIL1=$(tail -5 /tmp/wt/demo_$NAME.log | tr '\n' ' ' | cut -c1-400)
SUITE="skipped"
if [ "$RCA" = ok ] && [ -z "$SKIP_SUITE" ]; then
  PYTHONPATH=$WT timeout 3000 /venv/bin/python -m pytest -q -p no:cacheprovider -n 8 --timeout=600 pynetdicom/tests >/tmp/wt/suite_$NAME.log 2>&1
  SUITE=$(tail -1 /tmp/wt/suite_$NAME.log | cut -c1-200)
  FAILED=$(grep -E "^(FAILED|ERROR) pynetdicom" /tmp/wt/suite_$NAME.log | cut -c1-160 | head -8 | tr '\n' ';')
fi
sed -i "s#$WT#$SRC_WT#g" "$DEMO"
cd /verif
git -C /repo worktree remove --force "$WT"
python3 - "$DEST" "$PID" "$RC0" "$RC1" "$RCA" "$SUITE" "$FAILED" "$TAIL1" <<'PY'
import json, sys, os
dest, pid, rc0, rc1, rca, suite, failed, tail1 = sys.argv[1:9]
agent = {}
try: agent = json.load(open(os.path.join(dest, "meta.agent.json")))
except Exception: pass
meta = {"property": pid, "summary": agent.get("summary"), "needs_to_manifest": agent.get("needs_to_manifest"),
        "files_touched": agent.get("files_touched"),
        "confirmed_by_me": {"repo_head": os.popen("git -C /repo rev-parse --short HEAD").read().strip(),
                            "patch_applies": rca, "demo_exit_without_patch": rc0, "demo_exit_with_patch": rc1,
                            "demo_output_tail_with_patch": tail1,
                            "suite_with_patch": suite, "suite_failures": failed,
                            "commands": "fresh worktree of /repo HEAD; demo; git apply patch.diff; demo; pytest -n 8 pynetdicom/tests"}}
json.dump(meta, open(os.path.join(dest, "meta.json"), "w"), indent=1)
print(pid, "without:", rc0, "with:", rc1, "apply:", rca, "suite:", suite, failed)
PY
