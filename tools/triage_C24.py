# plain replay of the C24 witnesses against the real code (no check framework; the acceptor is a raw socket speaking
# through the reference codecs vlib.ps38 / vlib.cmdset, or a real pynetdicom SCP for W4)
import logging, os, struct, sys, threading, time
sys.path.insert(0, os.path.dirname(os.path.dirname(os.path.abspath(__file__))))
logging.disable(logging.CRITICAL)
from pydicom.dataset import Dataset
from pynetdicom import AE, evt
from vlib import cmdset, peer as vpeer

VER = "1.2.840.10008.1.1"; FIND = "1.2.840.10008.5.1.4.1.2.1.1"; MPPS = "1.2.840.10008.3.1.2.3.3"
IMP = "1.2.840.10008.1.2"


def el(g, e, v):
    return struct.pack("<HHI", g, e, len(v)) + v


def acceptor(lst, script, n_conn=1):
    """script(peer, request) sends the responses of the FIRST connection; every connection then serves echo/release."""
    def serve(p, first):
        vpeer.accept_association(p)
        if first:
            m = p.recv_dimse(5)
            script(p, m)
        t_end = time.time() + 8
        while time.time() < t_end:
            m = p.recv_dimse(0.2)
            if m is None:
                continue
            if m["type"] == "DIMSE" and m["cmd"]["CommandField"] == 0x0030:
                p.send_dimse(m["ctx"], cmdset.c_echo_rsp(m["cmd"]["MessageID"]))
            elif m["type"] == "RELRQ":
                p.send_pdu({"type": "RELRP"}); break
            elif m["type"] in ("ABORT", "EOF"):
                break
        p.close()

    def loop():
        for i in range(n_conn):
            p = lst.accept(6)
            if p is None:
                return
            threading.Thread(target=serve, args=(p, i == 0), daemon=True).start()
    threading.Thread(target=loop, daemon=True).start()


def new_ae():
    ae = AE()
    ae.acse_timeout = 3; ae.dimse_timeout = 1; ae.network_timeout = 5
    for u in (VER, FIND, MPPS):
        ae.add_requested_context(u, IMP)
    return ae


print("W1 C-FIND: Pending response whose identifier cannot be decoded (8 x 0xFF), then Pending(valid), then Success")
def w1(p, m):
    mid = m["cmd"]["MessageID"]
    def r(status, ds):
        return cmdset.make("C-FIND-RSP", AffectedSOPClassUID=FIND, MessageIDBeingRespondedTo=mid, Status=status,
                           CommandDataSetType=0x0101 if ds is None else 1)
    p.send_dimse(m["ctx"], r(0xFF00, b"x"), b"\xff" * 8)
    p.send_dimse(m["ctx"], r(0xFF00, b"x"), el(0x0010, 0x0020, b"P2"))
    p.send_dimse(m["ctx"], r(0x0000, None))
lst = vpeer.Listener(); acceptor(lst, w1, n_conn=3)
ae = new_ae(); assoc = ae.associate("127.0.0.1", lst.port)
q = Dataset(); q.QueryRetrieveLevel = "PATIENT"; q.PatientID = "*"
it = assoc.send_c_find(q, FIND)
n = 0
for status, ident in it:
    free = ae._lock.acquire(blocking=False) or ae._lock.acquire(timeout=0.3)   # tolerate short sections of other threads
    if free:
        ae._lock.release()
    print("   yield #%d: Status=0x%04X identifier=%s   ae._lock free while suspended: %s" % (
        n, status.Status, None if ident is None else dict((e.keyword, e.value) for e in ident), free))
    if not free:
        res = {}
        def second():
            a2 = ae.associate("127.0.0.1", lst.port)
            if a2.is_established:
                res["echo"] = a2.send_c_echo().get("Status"); a2.release()
        t = threading.Thread(target=second, daemon=True); t.start(); t.join(2.0)
        print("      second association of the same AE within 2 s while suspended:", "BLOCKED" if t.is_alive() else res)
    n += 1
print("   -> 3 responses sent, %d pairs yielded" % n)
assoc.release(); lst.close(); ae.shutdown()

print("W2 C-ECHO answered by a C-STORE-RSP(Status 0x0000)")
def w2(p, m):
    p.send_dimse(m["ctx"], cmdset.make("C-STORE-RSP", AffectedSOPClassUID=VER, AffectedSOPInstanceUID="1.2.3",
                                       MessageIDBeingRespondedTo=m["cmd"]["MessageID"], Status=0))
lst = vpeer.Listener(); acceptor(lst, w2)
ae = new_ae(); assoc = ae.associate("127.0.0.1", lst.port)
st = assoc.send_c_echo()
print("   send_c_echo() ->", dict((e.keyword, e.value) for e in st), " is_aborted:", assoc.is_aborted, "(docstring: invalid response -> empty Dataset)")
assoc.release(); lst.close(); ae.shutdown()

print("W3 N-GET answered by a C-STORE-RSP(Status 0x0000)")
lst = vpeer.Listener(); acceptor(lst, w2)
ae = new_ae(); assoc = ae.associate("127.0.0.1", lst.port)
try:
    print("   send_n_get() ->", assoc.send_n_get([0x00100010], MPPS, "1.2.3.4"))
except Exception as exc:
    print("   send_n_get() raised", type(exc).__name__, exc, " is_established:", assoc.is_established)
assoc.release(); lst.close(); ae.shutdown()

print("W4 back-to-back send_c_echo() against a real pynetdicom SCP with two pure scheduling delays: the reactor thread runs")
print("   30 ms late after its checkpoint wait() returned, the calling thread 60 ms late between send_msg() and get_msg()")
scp = AE(); scp.add_supported_context(VER)
srv = scp.start_server(("127.0.0.1", 0), block=False)
port = srv.socket.getsockname()[1]
from pynetdicom.association import Association
got = []
orig = Association._serve_request
def tap(self, msg, cx):
    if self.is_requestor:
        got.append(msg.__class__.__name__)
    return orig(self, msg, cx)
Association._serve_request = tap

class LateEvent(threading.Event):
    def wait(self, timeout=None):
        r = super().wait(timeout)
        time.sleep(0.03)          # the reactor thread is descheduled right after being woken
        return r

for late in (False, True):
    ae = AE(); ae.add_requested_context(VER); ae.dimse_timeout = 2; ae.acse_timeout = 3
    a = ae.associate("127.0.0.1", port)
    if late:
        ev = LateEvent(); ev.set(); a._reactor_checkpoint = ev
        time.sleep(0.1)           # let the reactor pick the new event up
        osend = a.dimse.send_msg
        def slow_send(*args, **kw):
            r = osend(*args, **kw)
            time.sleep(0.06)      # the calling thread is descheduled between send_msg() and get_msg()
            return r
        a.dimse.send_msg = slow_send
    del got[:]
    res = [("Status" in a.send_c_echo()) for _ in range(3) if a.is_established]
    print("   delays injected=%s: 3 x send_c_echo() got a status: %r; is_aborted=%s; messages consumed by the reactor: %r"
          % (late, res, a.is_aborted, got))
    if a.is_established:
        a.release()
srv.shutdown()
