"""Mutation self-test of props/C16.py: `python tools/C16_mutants.py <name>` writes a mutated copy of /repo/pynetdicom to
/tmp/mut_C16_<name>/pynetdicom (run the check with VERIF_REPO=/tmp/mut_C16_<name>, delete the copy afterwards).

M1  re-introduce the fixed defect: `if self.data_set:` (a BytesIO is always true) -> empty data set flagged as present
M2  CommandDataSetType stays 0x0101 although a data set is sent
M3  last-fragment bit missing on the last data-set fragment
M4  an empty data set is sent as a zero-length data fragment although the command set says "no data set"
M5  (equivalent mutant, must NOT be flagged) empty data sets are flagged 0x0001 AND sent as one zero-length last fragment
M6  chunked C-STORE from a file (`_dataset_path`): the flag is not set although the file's data set is sent
M7  last-fragment bit missing on the last command-set fragment
M8  the last data-set fragment of a multi-fragment data set is dropped
M9  N-service SCPs attach an empty Dataset() returned by the handler (`ds is not None`) combined with M1 (response path)
FIX candidate fix of the interleaving finding: a per-association lock around the fragment loop of send_msg
"""
import os
import shutil
import sys

name = sys.argv[1]
dst = "/tmp/mut_C16_%s" % name
shutil.rmtree(dst, ignore_errors=True)
os.makedirs(dst)
shutil.copytree("/repo/pynetdicom", dst + "/pynetdicom", ignore=shutil.ignore_patterns("tests", "__pycache__", "benchmarks"))


def edit(rel, old, new, count=1):
    p = dst + "/pynetdicom/" + rel
    s = open(p).read()
    assert s.count(old) == count, (rel, old, s.count(old))
    open(p, "w").write(s.replace(old, new))


FLAG_OLD = "            if self.data_set is not None and self.data_set.getvalue():\n"
if name in ("M1", "M9"):
    edit("dimse_messages.py", FLAG_OLD, "            if self.data_set:\n")
if name == "M2":
    edit("dimse_messages.py", FLAG_OLD + "                self.command_set.CommandDataSetType = 0x0001\n",
         FLAG_OLD + "                self.command_set.CommandDataSetType = 0x0101\n")
if name == "M3":
    edit("dimse_messages.py", '(context_id, b"\\x02" + next(ds_fragments))', '(context_id, b"\\x00" + next(ds_fragments))')
if name in ("M4", "M5"):
    edit("dimse_messages.py", "            if encoded_data_set:\n",
         "            if True:\n" if name == "M4" else "            if encoded_data_set or self.command_set.CommandDataSetType != 0x0101:\n")
    edit("dimse_messages.py", "                    nr_fragments = ceil(len(encoded_data_set) / (max_pdu_length - 6))\n",
         "                    nr_fragments = max(1, ceil(len(encoded_data_set) / (max_pdu_length - 6)))\n")
    edit("dimse_messages.py", '''                ds_fragments = self._generate_pdv_fragments(
                    encoded_data_set, max_pdu_length
                )
''', '''                ds_fragments = self._generate_pdv_fragments(
                    encoded_data_set, max_pdu_length
                ) if encoded_data_set else iter([b""])
''')
if name == "M5":
    edit("dimse_messages.py", FLAG_OLD, "            if self.data_set is not None:\n")
if name == "M6":
    edit("dimse_messages.py", "        if self._data_set_path:\n            self.command_set.CommandDataSetType = 0x0001\n",
         "        if self._data_set_path:\n            pass\n")
if name == "M7":
    edit("dimse_messages.py", '(context_id, b"\\x03" + next(cmd_fragments))', '(context_id, b"\\x01" + next(cmd_fragments))')
if name == "M8":
    edit("dimse_messages.py", '''                pdata.presentation_data_value_list.append(
                    (context_id, b"\\x02" + next(ds_fragments))
                )
                yield pdata
''', '''                pdata.presentation_data_value_list.append(
                    (context_id, b"\\x02" + next(ds_fragments))
                )
                if nr_fragments == 1:
                    yield pdata
''')
if name == "M9":
    edit("service_class.py", "        if status[0] in (STATUS_SUCCESS, STATUS_WARNING) and ds:\n",
         "        if status[0] in (STATUS_SUCCESS, STATUS_WARNING) and ds is not None:\n", count=4)
if name == "FIX":
    edit("dimse.py", "        self.msg_queue: \"queue.Queue[_QueueItem]\" = queue.Queue()\n",
         "        self.msg_queue: \"queue.Queue[_QueueItem]\" = queue.Queue()\n        self._send_lock = threading.Lock()\n")
    edit("dimse.py", '''        for pdata in dimse_msg.encode_msg(context_id, self.maximum_pdu_size):
            self.dul.send_pdu(pdata)
''', '''        with self._send_lock:
            for pdata in dimse_msg.encode_msg(context_id, self.maximum_pdu_size):
                self.dul.send_pdu(pdata)
''')
print(dst)
