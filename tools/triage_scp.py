#!/venv/bin/python
"""Run one C20/C21/C22 harness case (JSON on the command line or a preset name) and print the observation."""
import json, sys, os
sys.path.insert(0, os.path.dirname(os.path.dirname(os.path.abspath(__file__))))
if os.environ.get("VERIF_REPO"):
    sys.path.insert(0, os.environ["VERIF_REPO"])
from vlib import scp_harness as H

PRESETS = {
    "echo": {"svc": "echo", "h": {"kind": "ret", "s": {"t": "int", "v": 0}, "d": {"t": "none"}}},
    "find2": {"svc": "find-patient", "h": {"kind": "gen", "steps": [
        {"s": {"t": "int", "v": 0xFF00}, "d": {"t": "valid", "k": 1}},
        {"s": {"t": "int", "v": 0xFF00}, "d": {"t": "valid", "k": 2}}], "end": "stop"}},
    "find-warn": {"svc": "find-patient", "h": {"kind": "gen", "steps": [
        {"s": {"t": "int", "v": 0xB001}, "d": {"t": "none"}},
        {"s": {"t": "int", "v": 0xFF00}, "d": {"t": "valid", "k": 2}}], "end": "stop"}},
    "get2": {"svc": "get-patient", "subops": ["ok", "st:A700"], "h": {"kind": "gen", "steps": [
        {"count": 2}, {"s": {"t": "int", "v": 0xFF00}, "d": {"t": "inst", "k": 0}},
        {"s": {"t": "int", "v": 0xFF00}, "d": {"t": "inst", "k": 1}}], "end": "stop"}},
    "get-invalid": {"svc": "get-patient", "subops": ["ok", "ok"], "h": {"kind": "gen", "steps": [
        {"count": 2}, {"s": {"t": "int", "v": 0xFF00}, "d": {"t": "str"}},
        {"s": {"t": "int", "v": 0xFF00}, "d": {"t": "inst", "k": 1}},
        {"s": {"t": "int", "v": 0xFF00}, "d": {"t": "inst", "k": 2}}], "end": "stop"}},
    "move2": {"svc": "move-study", "subops": ["ok", "st:B000"], "dest": "scp", "h": {"kind": "gen", "steps": [
        {"dest": "scp"}, {"count": 2}, {"s": {"t": "int", "v": 0xFF00}, "d": {"t": "inst", "k": 0}},
        {"s": {"t": "int", "v": 0xFF00}, "d": {"t": "inst", "k": 1}}], "end": "stop"}},
    "nget": {"svc": "nget-printer", "h": {"kind": "ret", "s": {"t": "int", "v": 0}, "d": {"t": "valid", "k": 1}}},
}


def main():
    arg = sys.argv[1]
    case = PRESETS[arg] if arg in PRESETS else json.loads(open(arg).read() if os.path.exists(arg) else arg)
    if "case" in case:
        case = case["case"]
    case.setdefault("ts", "implicit"); case.setdefault("msg_id", 7); case.setdefault("cx", [1, 3, 5])
    case.setdefault("subops", []); case.setdefault("dest", "scp")
    for a in sys.argv[2:]:
        k, v = a.split("=", 1)
        case[k] = json.loads(v)
    H.setup_worker()
    obs = H.run_scenario(case)
    brief = "--full" not in sys.argv
    print("end:", obs["end"], "abort:", obs["abort"], "live:", obs["live"], "inconclusive:", obs["inconclusive"], "wall:", obs.get("wall"))
    for m in obs["msgs"]:
        print("  RSP", {k: v for k, v in m.items() if v not in (None, [], False) and k not in ("sop_class", "cdst", "data_len", "field")})
    for m in obs["subops"]:
        print("  SUB", {k: m[k] for k in ("t", "ctx", "mid", "sop_inst", "outcome", "index")})
    print("  hlog", obs["hlog"])
    print("  tap", [(r["cls"], r["acceptor"], r["status"] if r["status"] is None else hex(r["status"]), r["mid_rsp"], r["ctx"], r["exc"]) for r in obs["sent_tap"]])
    print("  excs", obs["excs"])


if __name__ == "__main__":
    main()
