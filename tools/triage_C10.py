# plain replay of the four C10 witnesses against the real code (no framework)
import logging, socket, time, threading
logging.disable(logging.CRITICAL)
from pynetdicom import AE, build_context, build_role, _config, evt
from pynetdicom.presentation import negotiate_unrestricted, negotiate_as_acceptor, PresentationContext
from pynetdicom.pdu_primitives import A_ASSOCIATE, MaximumLengthNotification, ImplementationClassUIDNotification
from pynetdicom.pdu import A_ASSOCIATE_RQ, A_ASSOCIATE_AC

CT = "1.2.840.10008.5.1.4.1.1.2"; VER = "1.2.840.10008.1.1"; MWL = "1.2.840.10008.5.1.4.31"
IMP = "1.2.840.10008.1.2"; EXP = "1.2.840.10008.1.2.1"
def cx(cid, ab, ts, scu=None, scp=None):
    c = build_context(ab, ts); c.context_id = cid; c.scu_role = scu; c.scp_role = scp; return c
def show(tag, out):
    r, roles = out
    print(tag, [(c.context_id, c.result, str(c.transfer_syntax[0]), c.as_scu, c.as_scp) for c in r],
          [(str(x.sop_class_uid), x.scu_role, x.scp_role) for x in roles])

print("F1 replies for normally-negotiated contexts are dropped in unrestricted mode")
sup = [cx(None, VER, [IMP], scu=False, scp=True)]
show("  normal      ", negotiate_as_acceptor([cx(1, VER, [IMP])], sup, {VER: (False, True)}))
show("  unrestricted", negotiate_unrestricted([cx(1, VER, [IMP])], sup, {VER: (False, True)}))

print("F2 storage context, no role proposal: acceptor takes SCU as well")
show("  unrestricted", negotiate_unrestricted([cx(1, CT, [IMP])], [], None))

print("F3 storage context, role proposal (0,0): accepted with no usable role")
show("  unrestricted", negotiate_unrestricted([cx(1, CT, [IMP])], [], {CT: (False, False)}))
show("  normal      ", negotiate_as_acceptor([cx(1, CT, [IMP])], [cx(None, CT, [IMP], True, True)], {CT: (False, False)}))

print("F4 Modality Worklist FIND (known non-storage) accepted with nothing supported")
show("  unrestricted", negotiate_unrestricted([cx(1, MWL, [IMP]), cx(3, VER, [IMP])], [], None))

# F3 end to end: real acceptor AE, raw requestor sending role item (0,0)
print("F3 end-to-end over a socket")
_config.UNRESTRICTED_STORAGE_SERVICE = True
ae = AE(); ae.add_supported_context(VER); ae.acse_timeout = 2; ae.network_timeout = 2; ae.dimse_timeout = 2
excs = []
threading.excepthook = lambda a: excs.append((a.thread.name, repr(a.exc_value)))
srv = ae.start_server(("127.0.0.1", 0), block=False)
port = srv.socket.getsockname()[1]
p = A_ASSOCIATE(); p.application_context_name = "1.2.840.10008.3.1.1.1"; p.calling_ae_title = "A"; p.called_ae_title = "B"
p.presentation_context_definition_list = [cx(1, CT, [IMP])]
ml = MaximumLengthNotification(); ml.maximum_length_received = 16382
ic = ImplementationClassUIDNotification(); ic.implementation_class_uid = "1.2.3.4"
p.user_information = [ml, ic, build_role(CT, scu_role=True, scp_role=True)]
pdu = A_ASSOCIATE_RQ(); pdu.from_primitive(p); raw = bytearray(pdu.encode())
i = raw.index(CT.encode() ) ; j = raw.index(CT.encode(), i + 1)   # second occurrence = role item
k = j + len(CT) + (len(CT) % 2 and 0)
assert raw[k:k+2] == b"\x01\x01", raw[k:k+2]
raw[k:k+2] = b"\x00\x00"
s = socket.create_connection(("127.0.0.1", port)); s.settimeout(4); s.sendall(bytes(raw))
try:
    data = s.recv(4096)
    print("  peer received:", data[:1].hex() if data else "connection closed, no PDU", len(data))
except Exception as e:
    print("  peer recv:", repr(e))
time.sleep(0.5)
print("  exceptions escaped from pynetdicom threads:", excs)
print("  acceptor associations still active:", len(ae.active_associations))
s.close(); srv.shutdown()
