#!/venv/bin/python
"""Mutation self-test of C20 / C21 / C22: applies one realistic property-breaking edit at a time to a scratch copy of
pynetdicom under /tmp (VERIF_REPO), runs the owning check and reports the violation keys that are new w.r.t. the
unchanged tree.  Usage: tools/selftest_C20_C22.py [mutation names...]   (VERIF_MAX_WORKERS honoured)"""
import os, shutil, subprocess, sys, re, json
MUTS = {
 "M1-drop-final-after-exception": ("C20", "service_class.py",
   "        self._rsp.Status = self.error_status\n        self._dimse.send_msg(self._rsp, self._cx_id)\n",
   "        self._rsp.Status = self.error_status\n"),
 "M2-final-sent-twice-find": ("C20", "service_class.py",
   "        LOGGER.info(f\"Find SCP Response {ii + 2}: 0x0000 (Success)\")\n        self.dimse.send_msg(rsp, cx_id)\n",
   "        LOGGER.info(f\"Find SCP Response {ii + 2}: 0x0000 (Success)\")\n        self.dimse.send_msg(rsp, cx_id)\n        self.dimse.send_msg(rsp, cx_id)\n"),
 "M3-msgid-hardcoded-1-nget": ("C20", "service_class.py",
   "        rsp = N_GET()\n        rsp.MessageIDBeingRespondedTo = req.MessageID\n",
   "        rsp = N_GET()\n        rsp.MessageIDBeingRespondedTo = 1\n"),
 "M3b-msgid-hardcoded-1-find": ("C20", "service_class.py",
   "        rsp = C_FIND()\n        rsp.MessageID = req.MessageID\n        rsp.MessageIDBeingRespondedTo = req.MessageID\n        rsp.AffectedSOPClassUID = req.AffectedSOPClassUID\n\n        # Decode and log Identifier\n        if _config.LOG_REQUEST_IDENTIFIERS:\n            try:\n                identifier = decode(\n                    cast(BytesIO, req.Identifier),\n                    transfer_syntax.is_implicit_VR,\n                    transfer_syntax.is_little_endian,\n                    transfer_syntax.is_deflated,\n                )\n                LOGGER.info(\"Find SCP Request Identifier:\")\n                LOGGER.info(\"\")\n                LOGGER.info(\"# DICOM Dataset\")",
   None),
 "M4-remaining-not-decremented-for-warning-get": ("C22", "service_class.py", None, None),
 "M4b-remaining-not-decremented-for-failure-move": ("C22", "service_class.py", None, None),
 "M5-nostatus-code-changed": ("C21", "service_class.py", "                rsp.Status = 0xC001\n", "                rsp.Status = 0xC000\n"),
 "M7-nget-dataset-dropped-on-warning": ("C21", "service_class.py",
   "        if status[0] in [STATUS_SUCCESS, STATUS_WARNING] and ds:\n", "        if status[0] in [STATUS_SUCCESS] and ds:\n"),
 "M8-store-exception-code": ("C21", "service_class.py", "            ctx.error_status = 0xC211\n", "            ctx.error_status = 0xC210\n"),
 "M9-move-all-failed-code-dropped": ("C22", "service_class.py", None, None),
 "M10-get-failed-instance-not-recorded": ("C22", "service_class.py", None, None),
 "M11-nset-wrong-context": ("C20", "service_class.py", None, None),
 "M12-find-identifier-altered": ("C21", "service_class.py", None, None),
 "M6-revert-warning-is-final-fix": ("C20", "service_class.py",
   "                ):\n                    continue\n\n                return\n", "                ):\n                    continue\n\n                continue\n"),
 "M13-revert-relpat-warning-fix": ("C20", "service_class.py",
   "        elif status[0] == STATUS_WARNING:\n            # A warning is a final response, rsp_identifier is None\n", "        elif False:\n"),
 "M14-cancel-final-dropped-get": ("C20", "service_class.py", None, None),
}

def apply(name, src):
    pid, fn, old, new = MUTS[name]
    if name == "M3b-msgid-hardcoded-1-find":
        old = "        rsp = C_FIND()\n        rsp.MessageID = req.MessageID\n        rsp.MessageIDBeingRespondedTo = req.MessageID\n"
        new = "        rsp = C_FIND()\n        rsp.MessageID = req.MessageID\n        rsp.MessageIDBeingRespondedTo = 1\n"
        assert src.count(old) == 2
        return src.replace(old, new, 1)
    if name.startswith("M4"):
        old = "                store_results[0] -= 1\n"
        assert src.count(old) == 2
        which = "STATUS_WARNING" if name.startswith("M4-") else "STATUS_FAILURE"
        new = "                if store_status[0] != %s:\n                    store_results[0] -= 1\n" % which
        if name.startswith("M4-"):
            return src.replace(old, new, 1)
        i = src.rindex(old)
        return src[:i] + new + src[i + len(old):]
    if name == "M14-cancel-final-dropped-get":
        old = "                rsp.Identifier = BytesIO(cast(bytes, bytestream))\n                self.dimse.send_msg(rsp, cx_id)\n                return\n"
        assert src.count(old) >= 1, src.count(old)
        return src.replace(old, "                rsp.Identifier = BytesIO(cast(bytes, bytestream))\n                return\n", 1)
    if name == "M9-move-all-failed-code-dropped":
        old = "                rsp.Status = 0xA702  # Unable to perform sub-ops\n"
        assert src.count(old) == 2
        i = src.rindex(old)
        return src[:i] + "                rsp.Status = 0xB000\n" + src[i+len(old):]
    if name == "M10-get-failed-instance-not-recorded":
        old = "                    _add_failed_instance(dataset)\n"
        assert src.count(old) == 2, src.count(old)
        return src.replace(old, "                    pass\n", 1)
    if name == "M11-nset-wrong-context":
        old = "                rsp.ModificationList"
        i = src.index("def _n_set_scp")
        j = src.index("def SCP", i)
        body = src[i:j]
        k = body.rindex("self.dimse.send_msg(rsp, cx_id)")
        body = body[:k] + "self.dimse.send_msg(rsp, 1)" + body[k+len("self.dimse.send_msg(rsp, cx_id)"):]
        return src[:i] + body + src[j:]
    if name == "M12-find-identifier-altered":
        old = "                dataset = cast(Dataset, dataset)\n                enc = encode(\n"
        assert src.count(old) == 1, src.count(old)
        return src.replace(old, "                dataset = cast(Dataset, dataset)\n                if 'PatientID' in dataset:\n                    dataset.PatientID = str(dataset.PatientID).strip() + ' '\n                    dataset.PatientID = dataset.PatientID.upper().lower()\n                    del dataset.PatientID\n                enc = encode(\n")
    assert src.count(old) >= 1, (name, src.count(old))
    return src.replace(old, new)

def run(pid, repo=None, seed=0):
    env = dict(os.environ); env["VERIF_SEED"] = str(seed); env["VERIF_MAX_WORKERS"] = os.environ.get("VERIF_MAX_WORKERS", "8")
    env["VERIF_NO_EVIDENCE"] = "1"
    if repo: env["VERIF_REPO"] = repo
    p = subprocess.run(["./check", pid], cwd="/verif", env=env, capture_output=True, text=True)
    keys = sorted(set(re.findall(r"^VIOLATION .*? key=(\S+)", p.stdout, re.M)))
    summ = [l for l in p.stdout.splitlines() if l.startswith(pid + " tier")]
    return p.returncode, keys, summ, p.stdout

if __name__ == "__main__":
    names = sys.argv[1:] or list(MUTS)
    base = {}
    out = {}
    for name in names:
        pid = MUTS[name][0]
        if pid not in base:
            base[pid] = run(pid)[1]
            print("baseline", pid, len(base[pid]), "keys", flush=True)
        d = "/tmp/mut_%s" % pid
        shutil.rmtree(d, ignore_errors=True)
        os.makedirs(d)
        shutil.copytree("/repo/pynetdicom", d + "/pynetdicom", ignore=shutil.ignore_patterns("tests", "__pycache__", "apps"))
        fn = d + "/pynetdicom/" + MUTS[name][1]
        src = open(fn).read()
        open(fn, "w").write(apply(name, src))
        rc, keys, summ, stdout = run(pid, d)
        new = [k for k in keys if k not in base[pid]]
        print("MUT", name, "->", pid, "exit", rc, "new keys:", new[:6], "(+%d more)" % max(0, len(new) - 6), flush=True)
        if not new:
            print("   MISSED; summary:", summ)
        shutil.rmtree(d, ignore_errors=True)
        out[name] = new
    json.dump(out, open("/tmp/selftest_C20_C22_results.json", "w"), indent=1)
