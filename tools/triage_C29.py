"""Triage helper for C29 (not part of the check): replays the minimal witness of every C29 mechanism against the real
qrscp code through a REAL association (AE + handlers bound like qrscp.py does); no verification framework involved.
Run: /venv/bin/python tools/triage_C29.py   (PYTHONPATH=<scratch copy> to try a repaired tree)"""
import logging, os, tempfile, warnings
warnings.simplefilter("ignore")
logging.disable(logging.CRITICAL)
from pydicom.dataset import Dataset, FileMetaDataset
from sqlalchemy.orm import sessionmaker
from pynetdicom import AE, evt
from pynetdicom.apps.qrscp import db
from pynetdicom.apps.qrscp.handlers import handle_find, handle_get, handle_move
from pynetdicom.sop_class import (PatientRootQueryRetrieveInformationModelFind as PF,
    StudyRootQueryRetrieveInformationModelFind as SF, StudyRootQueryRetrieveInformationModelMove as SM,
    StudyRootQueryRetrieveInformationModelGet as SG)

def make_db(instances):
    d = tempfile.mkdtemp()
    path = "sqlite:///" + os.path.join(d, "i.sqlite")
    eng = db.create(path); s = sessionmaker(bind=eng)()
    for inst in instances:
        ds = Dataset()
        for k, v in inst.items(): setattr(ds, k, v)
        ds.SOPClassUID = "1.2.840.10008.5.1.4.1.1.7"
        ds.file_meta = FileMetaDataset(); ds.file_meta.TransferSyntaxUID = "1.2.840.10008.1.2"
        db.add_instance(ds, s, "/nonexistent/" + inst["SOPInstanceUID"])
    s.close(); eng.dispose()
    return path

def I(pid, st, se, sop, **kw):
    d = dict(PatientID=pid, StudyInstanceUID=st, SeriesInstanceUID=se, SOPInstanceUID=sop); d.update(kw); return d

def find(path, model, **keys):
    log = logging.getLogger("t")
    ae = AE("QRSCP")
    for m in (PF, SF, SM, SG): ae.add_supported_context(m)
    scp = ae.start_server(("127.0.0.1", 0), block=False, evt_handlers=[
        (evt.EVT_C_FIND, handle_find, [path, None, log]),
        (evt.EVT_C_MOVE, handle_move, [{"DEST": ("127.0.0.1", 1)}, path, None, log])])
    port = scp.socket.getsockname()[1]
    scu = AE(); scu.add_requested_context(model)
    assoc = scu.associate("127.0.0.1", port)
    ds = Dataset()
    for k, v in keys.items(): setattr(ds, k, v)
    out = []
    if model is SM:
        gen = assoc.send_c_move(ds, "DEST", model)
    else:
        gen = assoc.send_c_find(ds, model)
    for status, ident in gen:
        st = "0x%04X" % status.Status if status else None
        out.append((st, None if ident is None else {e.keyword: str(e.value) for e in ident if e.keyword not in ("QueryRetrieveLevel", "RetrieveAETitle")}))
    assoc.release(); scp.shutdown()
    return out

def show(title, path, model, expect, **keys):
    print("---", title); print("   identifier:", keys); print("   PS3.4 expects:", expect)
    print("   qrscp answered:", find(path, model, **keys))

two = make_db([I("a", "1.2.1", "1.3.1", "1.4.1"), I("a", "1.2.1", "1.3.1", "1.4.2")])
show("per_instance_rows", two, PF, "1 pending (one patient) + success", QueryRetrieveLevel="PATIENT", PatientID="a")
one = make_db([I("aXb", "1.2.1", "1.3.1", "1.4.1", AccessionNumber="aXb")])
show("like_underscore", one, SF, "0 pending: '_' is a literal, stored value is 'aXb'", QueryRetrieveLevel="STUDY", AccessionNumber="a_b*")
show("like_percent", one, SF, "0 pending: '%' is a literal", QueryRetrieveLevel="STUDY", AccessionNumber="a%?")
show("like_case_insensitive", one, SF, "0 pending: SH wildcard matching is case-sensitive", QueryRetrieveLevel="STUDY", AccessionNumber="AX*")
show("   control: correct-case wildcard", one, SF, "1 pending", QueryRetrieveLevel="STUDY", AccessionNumber="aX*")
bare = make_db([I("a", "1.2.1", "1.3.1", "1.4.1")])
show("empty_text_not_universal", bare, PF, "1 pending (zero-length key = universal matching)", QueryRetrieveLevel="PATIENT", PatientID="")
show("   control: IS key zero length", bare, PF, "1 pending", QueryRetrieveLevel="SERIES", PatientID="a", StudyInstanceUID="1.2.1", SeriesNumber="")
show("like_null", bare, PF, "1 pending ('*' == universal; patient has no name stored)", QueryRetrieveLevel="PATIENT", PatientID="a", PatientName="*")
show("uid_list_error (FIND)", bare, SF, "1 pending for study 1.2.1", QueryRetrieveLevel="STUDY", StudyInstanceUID=["1.2.1", "1.2.2"])
show("uid_list_error (MOVE)", bare, SM, "1 sub-operation attempted (pending/warning/failed sub-op), not 0xC520", QueryRetrieveLevel="STUDY", StudyInstanceUID=["1.2.1", "1.2.2"])
show("reject_no_keys", bare, PF, "valid hierarchy -> 1 pending", QueryRetrieveLevel="PATIENT")
show("reject_no_keys (only unsupported optional key)", bare, PF, "valid hierarchy -> 1 pending", QueryRetrieveLevel="PATIENT", PatientBirthDate="")
emp = make_db([I("a", "1.2.1", "1.3.1", "1.4.1", StudyDate="")])
show("range_empty_value", emp, SF, "0 pending: the study has no date", QueryRetrieveLevel="STUDY", StudyDate="-20200101")
