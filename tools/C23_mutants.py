"""Mutation self-test helper for C23:  /venv/bin/python tools/C23_mutants.py <name>  ->  /tmp/mut_C23_<name>/pynetdicom
Base tree = $C23_BASE (default: /repo with tools/C23_candidate_fix.diff applied in /tmp/fix_C23, so that the two
genuine defects of the unchanged tree do not mask the mutant).  Then:  VERIF_REPO=/tmp/mut_C23_<name> ./check C23
Base:  mkdir -p /tmp/fix_C23 && cp -r /repo/pynetdicom /tmp/fix_C23/ && (cd /tmp/fix_C23 && patch -p0 < /verif/tools/C23_candidate_fix.diff)
"""
import os
import shutil
import sys

name = sys.argv[1]
base = os.environ.get("C23_BASE", "/tmp/fix_C23")
dst = "/tmp/mut_C23_%s" % name
shutil.rmtree(dst, ignore_errors=True)
os.makedirs(dst)
shutil.copytree(base + "/pynetdicom", dst + "/pynetdicom", ignore=shutil.ignore_patterns("__pycache__", "tests"))


def edit(rel, old, new, count=1):
    p = dst + "/pynetdicom/" + rel
    s = open(p).read()
    assert s.count(old) >= 1, (rel, old)
    open(p, "w").write(s.replace(old, new, count))


START_CLEAR = '''                # Clear out any C-CANCEL requests received beforehand
                self.dimse.cancel_req = {}
'''
END_CLEAR = '''                # Clear out any unacted upon requests received during
                self.dimse.cancel_req = {}
'''
if name == "M1":      # no reset when an operation starts: a cancel received between two operations is still pending
    edit("association.py", START_CLEAR, "")
elif name == "M2":    # no reset at all: cancels of the previous operation carry over
    edit("association.py", START_CLEAR, "")
    edit("association.py", END_CLEAR, "")
elif name == "M3":    # no reset when an operation ends (the reset at the next start still protects: expected EQUIVALENT)
    edit("association.py", END_CLEAR, "")
elif name == "M4":    # any pending cancel counts, whatever id it names
    edit("service_class.py", "        if msg_id in self.dimse.cancel_req:\n            del self.dimse.cancel_req[msg_id]\n",
         "        if self.dimse.cancel_req:\n            self.dimse.cancel_req.pop(msg_id, None)\n")
elif name == "M5":    # only the first cancel is kept (later ones are dropped)
    edit("dimse.py", "            if isinstance(d_primitive, C_CANCEL):\n                msg_id = cast(int, d_primitive.MessageIDBeingRespondedTo)\n                self.cancel_req[msg_id] = d_primitive\n",
         "            if isinstance(d_primitive, C_CANCEL):\n                msg_id = cast(int, d_primitive.MessageIDBeingRespondedTo)\n                if not self.cancel_req:\n                    self.cancel_req[msg_id] = d_primitive\n")
elif name == "M6":    # the handler's event compares against the id of the wrong message (off by one)
    edit("events.py", "return self._is_cancelled(cast(int, self.request.MessageID))",
         "return self._is_cancelled((cast(int, self.request.MessageID) + 1) % 65536)")
elif name == "M7":    # cancels are filed under the presentation context id instead of the message id
    edit("dimse.py", "                self.cancel_req[msg_id] = d_primitive\n", "                self.cancel_req[context_id] = d_primitive\n")
elif name == "M8":    # the reset at the start happens only for C-FIND (C-GET / C-MOVE forgotten)
    edit("association.py", START_CLEAR, START_CLEAR.replace("self.dimse.cancel_req = {}",
                                                              "if isinstance(msg, C_FIND):\n                    self.dimse.cancel_req = {}"))
elif name == "M9":    # re-introduce the N-EVENT-REPORT reset (the defect of the unchanged tree) on the fixed base
    edit("association.py", "own_thread = isinstance(msg, N_EVENT_REPORT)", "own_thread = False")
elif name == "M10":   # is_cancelled never forgets AND the pending set is only reset at the end of an operation
    edit("service_class.py", "            del self.dimse.cancel_req[msg_id]\n", "")
    edit("association.py", START_CLEAR, "")
elif name == "M11":   # a cancel is dropped while a sub-operation's C-STORE response is awaited (queue confusion):
    # cancels received while the reactor is paused AND a response is awaited are discarded
    edit("dimse.py", "                self.cancel_req[msg_id] = d_primitive\n",
         "                if not (self.assoc._is_paused and not self.assoc._reactor_checkpoint.is_set()):\n"
         "                    self.cancel_req[msg_id] = d_primitive\n")
else:
    raise SystemExit("unknown mutant " + name)
print(dst)
