#!/venv/bin/python
"""Plain-script triage of the C20 / C21 / C22 findings: pynetdicom's OWN requestor against pynetdicom's own acceptor,
no framework, no scripted peer.  Prints what the requestor sees."""
import logging
import sys

from pydicom.dataset import Dataset, FileMetaDataset
from pydicom.uid import ImplicitVRLittleEndian
from pynetdicom import AE, evt, build_role
from pynetdicom.sop_class import (Verification, CTImageStorage, PatientRootQueryRetrieveInformationModelFind as FIND,
                                  PatientRootQueryRetrieveInformationModelGet as GET, Printer,
                                  GeneralRelevantPatientInformationQuery as RELPAT)

logging.disable(logging.CRITICAL)


def run(event, handler, scu):
    ae = AE()
    for cx in (Verification, FIND, GET, Printer, RELPAT):
        ae.add_supported_context(cx)
    ae.add_supported_context(CTImageStorage, scu_role=True, scp_role=True)
    ae.dimse_timeout = ae.acse_timeout = ae.network_timeout = 3
    srv = ae.start_server(("127.0.0.1", 0), block=False, evt_handlers=[(event, handler)])
    seen = []

    def on_rsp(ev):
        m = ev.message
        cs = m.command_set
        if "MessageIDBeingRespondedTo" in cs:
            seen.append({kw: getattr(cs, kw) for kw in (
                "MessageIDBeingRespondedTo", "Status", "ErrorComment", "NumberOfRemainingSuboperations",
                "NumberOfCompletedSuboperations", "NumberOfFailedSuboperations", "NumberOfWarningSuboperations") if kw in cs})
            seen[-1]["data_set_bytes"] = len(m.data_set.getvalue()) if m.data_set else 0
    for cx in (Verification, FIND, GET, Printer, RELPAT, CTImageStorage):
        ae.add_requested_context(cx)
    assoc = ae.associate("127.0.0.1", srv.server_address[1], ext_neg=[build_role(CTImageStorage, scp_role=True)],
                         evt_handlers=[(evt.EVT_DIMSE_RECV, on_rsp), (evt.EVT_C_STORE, lambda e: 0x0000)])
    try:
        scu(assoc)
    finally:
        print("   responses seen by the requestor:", *seen, sep="\n      ")
        print("   association: established=%s aborted=%s" % (assoc.is_established, assoc.is_aborted))
        if assoc.is_established:
            assoc.release()
        srv.shutdown()


def ident():
    ds = Dataset(); ds.QueryRetrieveLevel = "PATIENT"; ds.PatientID = "*"
    return ds


def inst(k):
    ds = Dataset(); ds.file_meta = FileMetaDataset(); ds.file_meta.TransferSyntaxUID = ImplicitVRLittleEndian
    ds.SOPClassUID = CTImageStorage; ds.SOPInstanceUID = "1.2.3.%d" % k; ds.PatientID = "P"
    return ds


print("1. N-GET handler returns a bare int instead of (status, dataset): no N-GET-RSP, A-ABORT instead")
run(evt.EVT_N_GET, lambda e: 0x0000, lambda a: print("   send_n_get ->", a.send_n_get([], Printer, "1.2.3", msg_id=5)))

print("2. C-ECHO handler returns -1 (int outside 0..65535): no C-ECHO-RSP, A-ABORT instead")
run(evt.EVT_C_ECHO, lambda e: -1, lambda a: print("   send_c_echo ->", a.send_c_echo(msg_id=6)))

print("3. status Dataset carrying (0000,0120) MessageIDBeingRespondedTo: copied over the response's own value")


def h3(e):
    ds = Dataset(); ds.Status = 0x0000; ds.MessageIDBeingRespondedTo = 4242
    return ds


run(evt.EVT_C_ECHO, h3, lambda a: print("   send_c_echo(msg_id=7) ->", a.send_c_echo(msg_id=7)))

print("4. optional status elements of one yielded status leak into every later response of the request")


def h4(e):
    st = Dataset(); st.Status = 0xFF00; st.ErrorComment = "only for match 1"
    yield st, ident()
    yield 0xFF00, ident()


run(evt.EVT_C_FIND, h4, lambda a: list(a.send_c_find(ident(), FIND, msg_id=8)))

print("5. C-GET, N=2 announced, first result is not a Dataset: failed+1 but remaining stays -> Pending sum 3, final 2+1 > 2")


def h5(e):
    yield 2
    yield 0xFF00, "not a dataset"
    yield 0xFF00, inst(1)
    yield 0xFF00, inst(2)


run(evt.EVT_C_GET, h5, lambda a: list(a.send_c_get(ident(), GET, msg_id=9)))

print("6. Relevant Patient Information Query: the final Success response still carries the Identifier (and status elements) of the Pending one")


def h6(e):
    st = Dataset(); st.Status = 0xFF00; st.ErrorComment = "only for the match"
    yield st, ident()


run(evt.EVT_C_FIND, h6, lambda a: list(a.send_c_find(ident(), RELPAT, msg_id=10)))
