#!/usr/bin/env python3
"""Framework self-test (not a property check): vlib.refqr against hand-computed PS3.4 C.2.2.2 examples."""
import os, sys
sys.path.insert(0, os.path.dirname(os.path.dirname(os.path.abspath(__file__))))
from vlib import refqr as R

V = R.Variant()
def m(kw, q, stored, quirks=()):
    return R.value_matches(kw, q, stored, frozenset(quirks), V)

T = [
    # single value: exact and case-sensitive, metacharacters are literals
    (("PatientID", "ab", "ab"), True), (("PatientID", "ab", "AB"), False), (("PatientID", "a_", "ab"), False),
    (("PatientID", "a%", "ab"), False), (("PatientID", "ab", None), False), (("SeriesNumber", "5", 5), True),
    (("SeriesNumber", 5, "05"), True), (("SeriesNumber", 5, 6), False),
    # universal
    (("PatientID", "", "x"), True), (("PatientID", None, None), True), (("StudyInstanceUID", [], "1.2"), True),
    # UID list
    (("StudyInstanceUID", ["1.2", "1.3"], "1.3"), True), (("StudyInstanceUID", ["1.2", "1.3"], "1.30"), False),
    (("StudyInstanceUID", "1.2", "1.2"), True), (("StudyInstanceUID", "1.2", "1.20"), False),
    # wildcard
    (("PatientID", "a*", "a"), True), (("PatientID", "a*", "abc"), True), (("PatientID", "a?", "a"), False),
    (("PatientID", "a?", "ab"), True), (("PatientID", "a?", "abc"), False), (("PatientID", "*b*", "abc"), True),
    (("PatientID", "A*", "abc"), False), (("PatientID", "a_*", "aXb"), False), (("PatientID", "a_*", "a_b"), True),
    (("PatientID", "a%?", "aXb"), False), (("PatientID", "a%?", "a%b"), True), (("PatientID", "a.*", "aXb"), False),
    (("PatientID", "[ab]*", "a"), False), (("PatientID", "*", None), True), (("PatientID", "?*", None), False),
    (("PatientID", "*", ""), True), (("Modality", "C?", "CT"), True), (("Modality", "c?", "CT"), False),
    # range, inclusive bounds
    (("StudyDate", "20200101-20200131", "20200101"), True), (("StudyDate", "20200101-20200131", "20200131"), True),
    (("StudyDate", "20200101-20200131", "20200201"), False), (("StudyDate", "20200101-", "20191231"), False),
    (("StudyDate", "-20200101", "20191231"), True), (("StudyDate", "-20200101", None), False),
    (("StudyDate", "-20200101", ""), False), (("StudyTime", "090000-120000", "120000"), True),
    (("StudyTime", "090000-120000", "120000.5"), False), (("StudyTime", "120000.5-", "120000.5"), True),
    (("StudyDate", "20200101", "20200101"), True), (("StudyDate", "20200101", "20200102"), False),
]
bad = [(a, e) for a, e in T if m(*a) != e]
# PN may be either case-sensitive or not
assert R.value_matches("PatientName", "DOE*", "Doe^J", frozenset(), R.Variant(pn_wild_ci=True))
assert not R.value_matches("PatientName", "DOE*", "Doe^J", frozenset(), R.Variant(pn_wild_ci=False))
# quirk emulation
assert m("PatientID", "a_*", "aXb", ["like_underscore"]) and m("PatientID", "a%?", "aXb", ["like_percent"])
assert m("PatientID", "A*", "abc", ["like_case_insensitive"]) and not m("PatientID", "*", None, ["like_null"])
assert not m("PatientID", "", "x", ["empty_text_not_universal"]) and m("SeriesNumber", None, 3, ["empty_text_not_universal"])
# hierarchy
def val(op, root, level, kws):
    q = {"op": op, "root": root, "level": level, "keys": [[k, "x"] for k in kws]}
    return R.validity(q, R.effective_keys(q, V))
H = [(("FIND", "P", "PATIENT", ["PatientID"]), None), (("FIND", "S", "PATIENT", ["PatientID"]), "bad-level"),
     (("FIND", "P", None, ["PatientID"]), "no-level"), (("FIND", "P", "STUDY", ["StudyDate"]), "missing-unique-key"),
     (("FIND", "S", "STUDY", ["StudyDate", "PatientID"]), None), (("FIND", "P", "STUDY", ["PatientID", "Modality"]), "key-below-level"),
     (("FIND", "P", "IMAGE", ["PatientID", "StudyInstanceUID", "SOPInstanceUID"]), "missing-unique-key"),
     (("MOVE", "P", "STUDY", ["PatientID", "StudyInstanceUID", "Modality"]), None),   # required key ignored for MOVE
     (("FIND", "S", "SERIES", ["StudyInstanceUID", "Modality"]), None)]
bad += [(a, e) for a, e in H if val(*a) != e]
# entity semantics: one response per entity, sub-operations per instance
db = [dict(PatientID="p", StudyInstanceUID="1", SeriesInstanceUID="1.1", SOPInstanceUID="1.1.%d" % i, StudyDate="20200101") for i in range(3)]
db += [dict(PatientID="q", StudyInstanceUID="2", SeriesInstanceUID="2.1", SOPInstanceUID="2.1.1", StudyDate="20210101")]
r = R.evaluate(db, {"op": "FIND", "root": "S", "level": "STUDY", "keys": [["StudyDate", "20200101-20201231"]]})
assert r["entities"] == ["1"] and r["responses"] == ["1"] and len(r["instances"]) == 3, r
r = R.evaluate(db, {"op": "FIND", "root": "S", "level": "STUDY", "keys": [["StudyDate", ""]]}, ["per_instance_rows"])
assert r["responses"] == ["1", "1", "1", "2"], r
r = R.evaluate(db, {"op": "MOVE", "root": "P", "level": "PATIENT", "keys": [["PatientID", "p"]]})
assert r["instances"] == ["1.1.0", "1.1.1", "1.1.2"], r
print("refqr self-test:", "FAILED %r" % bad if bad else "ok (%d value cases, %d hierarchy cases)" % (len(T), len(H)))
sys.exit(1 if bad else 0)
