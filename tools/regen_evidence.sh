#!/bin/sh
# Runs every quick check from /verif against /repo's working tree (writes evidence/<id>.json) and validates the evidence files.
cd /verif
for p in C01 C02 C03 C04 C05 C06 C07 C08 C09 C10 C11 C12 C13 C14 C15 C16 C17 C18 C19 C20 C21 C22 C23 C24 C25 C26 C27 C28 C29 C30; do
  ./check $p --tier quick > /tmp/ev_$p.log 2>&1; rc=$?
  echo "$p exit=$rc $(grep -E "^C[0-9]+ tier" /tmp/ev_$p.log | cut -c1-160)"
  grep -E "^(VIOLATION|INCONCLUSIVE)" /tmp/ev_$p.log | cut -c1-200
done
python3-vt - <<'PY'
import json, jsonschema, glob
sch = json.load(open('/root/.vp/EVIDENCE.schema.json'))
bad = 0
for f in sorted(glob.glob('/verif/evidence/*.json')):
    try:
        jsonschema.validate(json.load(open(f)), sch)
    except Exception as e:
        bad += 1; print(f, 'INVALID', str(e)[:200])
print('evidence files valid:', bad == 0)
PY
