#!/bin/sh
# tools/seed_matrix.sh [names...]  -- run each seeded change against the check of its property (scratch worktree of /repo HEAD,
# VERIF_REPO) and append one line per seed to seeded/RESULTS.txt:  <seed> <check> exit=<rc> first VIOLATION key
cd /verif
[ $# -eq 0 ] && set -- $(ls seeded | grep -v RESULTS)
for NAME in "$@"; do
  PID=$(echo "$NAME" | cut -c1-3)
  OUT=$(tools/seed_run.sh "$NAME" "$PID" quick 2>&1 | grep -v conda)
  RC=$(echo "$OUT" | head -1 | sed 's/.*exit=//')
  KEY=$(echo "$OUT" | grep -m1 '^VIOLATION' | sed 's/.*key=//; s/ ::.*//' | cut -c1-160)
  echo "$NAME $PID exit=$RC head=$(git -C /repo rev-parse --short HEAD) ${KEY:-no-violation-line}"
done
