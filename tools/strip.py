#!/usr/bin/env python3
"""Print a python file without docstrings/comments-only lines, with original line numbers."""
import ast, sys
src = open(sys.argv[1]).read()
tree = ast.parse(src)
skip = set()
for node in ast.walk(tree):
    if isinstance(node, (ast.FunctionDef, ast.ClassDef, ast.AsyncFunctionDef, ast.Module)):
        b = node.body
        if b and isinstance(b[0], ast.Expr) and isinstance(getattr(b[0], 'value', None), ast.Constant) and isinstance(b[0].value.value, str):
            for l in range(b[0].lineno, b[0].end_lineno + 1):
                skip.add(l)
lo = int(sys.argv[2]) if len(sys.argv) > 2 else 1
hi = int(sys.argv[3]) if len(sys.argv) > 3 else 10**9
for i, line in enumerate(src.splitlines(), 1):
    if i in skip or not line.strip() or i < lo or i > hi: continue
    if line.strip().startswith('#'): continue
    print("%d\t%s" % (i, line))
