#!/bin/sh
# tools/seed_run.sh <seed-name> <PID> [tier] [inplace]
# Runs check <PID> against pynetdicom with seeded/<name>/patch.diff applied.
# default: scratch worktree of /repo HEAD + VERIF_REPO (does not disturb anything else using /repo)
# inplace: git -C /repo apply ...; run; git -C /repo checkout -- .   (the way the checks will be used)
NAME="$1"; PID="$2"; TIER="${3:-quick}"; MODE="${4:-scratch}"
cd /verif
if [ "$MODE" = inplace ]; then
  git -C /repo diff --quiet || { echo "/repo not clean"; exit 3; }
  git -C /repo apply seeded/$NAME/patch.diff || { echo "apply failed"; exit 3; }
  VERIF_NO_EVIDENCE=1 ./check $PID --tier $TIER > /tmp/seedrun_$NAME_$PID.log 2>&1; RC=$?
  git -C /repo checkout -- .
else
  WT=/tmp/wt/run_${NAME}_$PID
  git -C /repo worktree remove --force $WT 2>/dev/null
  git -C /repo worktree add -q --detach $WT ${BASE_REF:-HEAD} || exit 3
  git -C $WT apply /verif/seeded/$NAME/patch.diff || { echo "apply failed"; git -C /repo worktree remove --force $WT; exit 3; }
  VERIF_NO_EVIDENCE=1 VERIF_REPO=$WT ./check $PID --tier $TIER > /tmp/seedrun_${NAME}_$PID.log 2>&1; RC=$?
  git -C /repo worktree remove --force $WT
fi
echo "seed=$NAME check=$PID tier=$TIER exit=$RC"; grep -E "^(VIOLATION|KNOWN|INCONCLUSIVE)" /tmp/seedrun_${NAME}_$PID.log | cut -c1-250 | head -4
