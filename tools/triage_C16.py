#!/venv/bin/python
"""Plain-script triage of C16 `interleaved-fragments|n-event-report-during-c-find` (no framework, no sys.monitoring).

A raw-socket requestor (struct only) associates with a real pynetdicom acceptor, advertising a small maximum length, sends
one C-FIND-RQ whose handler yields many Pending identifiers, and - while those are being sent - fires N-EVENT-REPORT
requests (each is served on its own thread by DIMSEServiceProvider.receive_primitive).  Everything the acceptor sends
is demultiplexed per PS3.7 6.3.1 / PS3.8 Annex E: a PDV of another message inside an unfinished message = interleaving.

Natural preemption only: the fragment loop of send_msg must outlast the interpreter's 5 ms switch interval, hence the large
(1 MB) response data sets; the check's own scenario uses small messages plus seeded yields inside that loop instead.
Observed on the unchanged tree: 2 of 4 rounds with interleaved fragments (two N-EVENT-REPORT responses cut into each other).

usage: triage_C16.py [rounds=6] [maxlen=1024] [n_events=4] [dataset bytes=1000000]      exit 1 = interleaving observed
"""
import logging
import select
import socket
import struct
import sys
import time

logging.disable(logging.CRITICAL)

from pydicom.dataset import Dataset
from pynetdicom import AE, evt

FIND = "1.2.840.10008.5.1.4.1.2.1.1"
PRINTER = "1.2.840.10008.5.1.1.16"
IMPLICIT = "1.2.840.10008.1.2"


def item(t, body):
    return struct.pack(">BBH", t, 0, len(body)) + body


def associate_rq(maxlen):
    def pc(i, abstract):
        return item(0x20, bytes([i, 0, 0, 0]) + item(0x30, abstract.encode()) + item(0x40, IMPLICIT.encode()))
    ui = item(0x50, item(0x51, struct.pack(">I", maxlen)) + item(0x52, b"1.2.826.0.1.3680043.9.3811.9.9"))
    body = (struct.pack(">HH", 1, 0) + b"C16-SCP".ljust(16) + b"TRIAGE".ljust(16) + bytes(32)
            + item(0x10, b"1.2.840.10008.3.1.1.1") + pc(5, FIND) + pc(11, PRINTER) + ui)
    return struct.pack(">BBI", 1, 0, len(body)) + body


def el(g, e, v):
    if len(v) % 2:
        v += b" " if g else b"\0"
    return struct.pack("<HHI", g, e, len(v)) + v


def command(elements):
    body = b"".join(struct.pack("<HHI", 0, e, len(v)) + v for e, v in sorted(elements))
    return struct.pack("<HHII", 0, 0, 4, len(body)) + body


def uid(u):
    b = u.encode()
    return b + (b"\0" if len(b) % 2 else b"")


def us(v):
    return struct.pack("<H", v)


def pdata(ctx, cmd, data):
    out = b""
    for hdr, frag in ((3, cmd), (2, data)):
        if frag is None:
            continue
        pdv = struct.pack(">IB", len(frag) + 2, ctx) + bytes([hdr]) + frag
        out += struct.pack(">BBI", 4, 0, len(pdv)) + pdv
    return out


def read_pdus(sock, buf, timeout):
    """Return complete PDUs read within `timeout` of silence."""
    out = []
    while True:
        while len(buf[0]) >= 6:
            ln = struct.unpack(">I", buf[0][2:6])[0]
            if len(buf[0]) < 6 + ln:
                break
            out.append(buf[0][:6 + ln])
            buf[0] = buf[0][6 + ln:]
        r, _, _ = select.select([sock], [], [], timeout)
        if not r:
            return out
        d = sock.recv(65536)
        if not d:
            return out
        buf[0] += d


def demux(pdus):
    """-> (complete messages, interleaving events) judged per PS3.7 6.3.1."""
    open_msg = None      # dict(ctx, cmd bytes, cmd_done, expects_data)
    complete, interleaved = 0, []
    index = 0
    for p in pdus:
        if p[0] != 4:
            continue
        off = 6
        while off < len(p):
            ln = struct.unpack(">I", p[off:off + 4])[0]
            ctx, hdr, frag = p[off + 4], p[off + 5], p[off + 6:off + 4 + ln]
            off += 4 + ln
            index += 1
            if open_msg is not None and ctx != open_msg["ctx"]:
                interleaved.append("pdv %d (context %d, header %02x) inside the unfinished message of context %d" % (
                    index, ctx, hdr, open_msg["ctx"]))
                continue
            if open_msg is None:
                open_msg = {"ctx": ctx, "cmd": b"", "cmd_done": False, "expects": None}
            if hdr & 1:
                if open_msg["cmd_done"]:
                    interleaved.append("pdv %d: command fragment while a data set is due on context %d" % (index, ctx))
                    continue
                open_msg["cmd"] += frag
                if hdr & 2:
                    open_msg["cmd_done"] = True
                    i = open_msg["cmd"].find(struct.pack("<HHI", 0, 0x0800, 2))
                    cdst = struct.unpack("<H", open_msg["cmd"][i + 8:i + 10])[0] if i >= 0 else 0x0101
                    if cdst == 0x0101:
                        complete += 1
                        open_msg = None
            else:
                if not open_msg["cmd_done"]:
                    interleaved.append("pdv %d: data fragment before the end of the command set on context %d" % (index, ctx))
                    continue
                if hdr & 2:
                    complete += 1
                    open_msg = None
    return complete, interleaved


def main():
    rounds = int(sys.argv[1]) if len(sys.argv) > 1 else 6
    maxlen = int(sys.argv[2]) if len(sys.argv) > 2 else 1024
    n_events = int(sys.argv[3]) if len(sys.argv) > 3 else 4
    size = int(sys.argv[4]) if len(sys.argv) > 4 else 1000000

    def big(n):
        ds = Dataset()
        ds.PatientName = "TRIAGE^C16"
        ds.PatientID = "C16"
        ds.add_new(0x00091010, "OB", b"A" * n)      # private bulk attribute
        return ds

    def on_find(event):
        for _ in range(12):
            ds = big(size)
            ds.QueryRetrieveLevel = "PATIENT"
            yield 0xFF00, ds

    def on_event_report(event):
        return 0x0000, big(size)

    ae = AE("C16-SCP")
    ae.add_supported_context(FIND, IMPLICIT)
    ae.add_supported_context(PRINTER, IMPLICIT)
    ae.dimse_timeout = ae.acse_timeout = 5
    ae.network_timeout = 10
    srv = ae.start_server(("127.0.0.1", 0), block=False,
                          evt_handlers=[(evt.EVT_C_FIND, on_find), (evt.EVT_N_EVENT_REPORT, on_event_report)])
    port = srv.server_address[1]
    hits = 0
    try:
        for rnd in range(rounds):
            s = socket.create_connection(("127.0.0.1", port), timeout=5)
            s.setsockopt(socket.IPPROTO_TCP, socket.TCP_NODELAY, 1)
            buf = [b""]
            s.sendall(associate_rq(maxlen))
            ac = read_pdus(s, buf, 2.0)
            assert ac and ac[0][0] == 2, "association not accepted"
            ident = el(8, 0x52, b"PATIENT") + el(0x10, 0x20, b"*")
            find_cmd = command([(0x0002, uid(FIND)), (0x0100, us(0x0020)), (0x0110, us(1)), (0x0700, us(0)), (0x0800, us(1))])
            s.sendall(pdata(5, find_cmd, ident))
            first = []
            t0 = time.time()
            while not first and time.time() - t0 < 3.0:      # the first fragment of the first C-FIND response
                first = read_pdus(s, buf, 0.0)
            for k in range(n_events):
                ev_cmd = command([(0x0002, uid(PRINTER)), (0x0100, us(0x0100)), (0x0110, us(100 + k)), (0x0800, us(0x0101)),
                                  (0x1000, uid("1.2.826.0.1.3680043.9.3811.16.1")), (0x1002, us(1))])
                s.sendall(pdata(11, ev_cmd, None))
            pdus = first + read_pdus(s, buf, 1.5)
            complete, inter = demux(pdus)
            expected = 13 + n_events
            print("round %2d: %4d PDUs, %2d/%d complete messages, %d interleaving events%s" % (
                rnd, len(pdus), complete, expected, len(inter), ("; first: " + inter[0]) if inter else ""))
            hits += bool(inter)
            s.sendall(struct.pack(">BBIBBBB", 7, 0, 4, 0, 0, 0, 0))
            s.close()
            time.sleep(0.2)
    finally:
        srv.shutdown()
    print("rounds with interleaved fragments: %d of %d (maximum length %d, %d N-EVENT-REPORT requests per round, %d-byte data sets)" % (
        hits, rounds, maxlen, n_events, size))
    return 1 if hits else 0


if __name__ == "__main__":
    sys.exit(main())
