#!/usr/bin/env python3
"""Prints the prompt for a seeding sub-agent (property text only; nothing from /verif's machinery)."""
import json, sys
pid = sys.argv[1]
for l in open('/verif/properties.jsonl'):
    d = json.loads(l)
    if d['id'] == pid: break
base = sys.argv[2] if len(sys.argv) > 2 else "/tmp/wt"
wt = "%s/%s" % (base, pid)
out = "%s/%s_out" % (base, pid)
focus = ""
STEER = {
    "concurrency": "FOCUS: the break should only manifest when two things happen at the same time (two associations, two user threads, a peer "
                   "event racing a local call, a handler that is still running) - never for purely sequential use.\n\n",
    "config": "FOCUS: the break should only manifest under a non-default but documented configuration option or API usage pattern (a "
              "pynetdicom._config flag, an optional argument, re-assigning a setting at run time, an unusual-but-legal value) - never with the defaults.\n\n",
}
if len(sys.argv) > 3 and sys.argv[3] in STEER:
    focus = STEER[sys.argv[3]]
elif len(sys.argv) > 3:
    m = d['anchors']['mechanism'][int(sys.argv[3])]
    focus = ("FOCUS: of the mechanisms listed above, make your change in or directly around this one: %s (%s). "
             "Do not put the change anywhere else.\n\n" % (m['name'], m['where']))
print(f"""You are testing how robust a project's quality gates are. You work ONLY inside the scratch git worktree {wt} (a checkout of the pynetdicom repository: pure-Python DICOM networking library) and the output directory {out}. Never read or touch /repo, /verif or any other worktree under /tmp/wt.

Python: /venv/bin/python. IMPORTANT: /venv has pynetdicom installed from another location, so to import YOUR copy always run with `cd {wt} && PYTHONPATH={wt} /venv/bin/python ...` and verify once with `PYTHONPATH={wt} /venv/bin/python -c "import pynetdicom; print(pynetdicom.__file__)"` (must print a path under {wt}). No network is available.

Here is a semantic property that pynetdicom is supposed to satisfy:

TITLE: {d['title']}
STATEMENT: {d['statement']}
QUANTIFIED OVER: {d['quantifier']['text']}
WHERE IT LIVES: files {d['anchors']['files']}; mechanisms {json.dumps(d['anchors'].get('mechanism'))}

{focus}YOUR TASK: write a realistic source change (a plausible bug a developer could introduce: an off-by-one, a dropped guard, a swapped field, a stale flag, a missing lock, a wrong comparison, a mis-ordered pair of statements, ...) to the library code under {wt}/pynetdicom (NOT to tests) that BREAKS this property, while
  (a) the code still imports/compiles, and
  (b) the existing test suite still passes. Run the tests most relevant to the files you touched, e.g. `cd {wt} && PYTHONPATH={wt} /venv/bin/python -m pytest -q -p no:cacheprovider -x -n 4 --timeout=300 pynetdicom/tests/test_<x>.py`, and before finishing run the whole library suite once: `cd {wt} && PYTHONPATH={wt} /venv/bin/python -m pytest -q -p no:cacheprovider -n 6 --timeout=600 pynetdicom/tests 2>&1 | tail -15` (takes several minutes; tests under pynetdicom/apps/tests are known to fail in this offline sandbox irrespective of your change - ignore those; a handful of timing-flaky failures that also fail without your change are acceptable - confirm by re-running the failing test alone with your change reverse-applied (see below, never use `git stash`)).
  (c) The break must NOT be something ordinary use exposes at once. It should need something specific to manifest: a particular interleaving or timing, a fault/crash at a particular point, a multi-step sequence of operations, an unusual-but-legal input or boundary value, or two cooperating sites that each look fine alone. Prefer subtle over blatant. If your first idea makes existing tests fail, pick a different change rather than editing tests.

DELIVERABLES (write them into {out}/, create the directory):
  1. patch.diff  - output of `cd {wt} && git diff` (source change only).
  2. demo.py (or demo_test.py) - a small self-contained program that demonstrates the violation: run as `cd {wt} && PYTHONPATH={wt} /venv/bin/python {out}/demo.py` it must exit NON-ZERO (or fail) WITH your change applied and exit 0 WITHOUT it (check both; do NOT use `git stash` - the stash is shared between all worktrees of this repository and other people are working in sibling worktrees - instead use `git diff > {out}/patch.diff && git apply -R {out}/patch.diff` to remove your change and `git apply {out}/patch.diff` to put it back). It should finish in under 60 s and be deterministic (if it depends on timing, make it robust, e.g. retry loops or explicit synchronisation).
  3. meta.json - {{"property": "{pid}", "summary": "<what the change does>", "needs_to_manifest": "<the specific input / interleaving / sequence needed>", "files_touched": [...], "tests_run": "<commands you ran and their result summaries>", "demo_with_change": "<exit code/observed>", "demo_without_change": "<exit code/observed>"}}
Leave the worktree with your change applied (uncommitted). Do not commit. Keep the change small (ideally < 15 changed lines). In your final answer, summarise the change, what it needs to manifest, and the test results in a few lines.""")
