"""Plain-script triage of C25 key `store|chunked-recv|encoded_dataset-empty` (no verification framework involved).

    /venv/bin/python tools/triage_C25.py            # against /repo
    PYTHONPATH=/tmp/scratch /venv/bin/python tools/triage_C25.py   # against a scratch copy

Witness: one C-STORE of a 3-element CT dataset, Implicit VR Little Endian, default maximum PDU, with
_config.STORE_RECV_CHUNKED_DATASET = True.  In the EVT_C_STORE handler
    event.encoded_dataset(include_meta=False)   -> b''            (documented: "the encoded dataset as sent by the peer")
    event.encoded_dataset()                     -> preamble + DICM + file meta + NOTHING (a file without a data set)
while event.dataset (read from event.dataset_path) and the file at event.dataset_path do hold the data set.
With STORE_RECV_CHUNKED_DATASET = False the same calls return the sent bytes.
"""
import logging

from pydicom.dataset import Dataset, FileMetaDataset
from pydicom.uid import ImplicitVRLittleEndian

import pynetdicom
from pynetdicom import AE, _config, evt
from pynetdicom.dsutils import encode

logging.disable(logging.CRITICAL)
CT = "1.2.840.10008.5.1.4.1.1.2"


def once(chunked):
    seen = {}

    def handle(event):
        seen["encoded_dataset(False)"] = len(event.encoded_dataset(include_meta=False))
        seen["encoded_dataset(True)"] = len(event.encoded_dataset())
        seen["request.DataSet"] = len(event.request.DataSet.getvalue())
        try:
            with open(event.dataset_path, "rb") as f:
                seen["file at dataset_path"] = len(f.read())
        except (AttributeError, TypeError):
            seen["file at dataset_path"] = None
        seen["elements in event.dataset"] = len(event.dataset)
        return 0x0000

    old = _config.STORE_RECV_CHUNKED_DATASET
    _config.STORE_RECV_CHUNKED_DATASET = chunked
    scp = AE("SCP")
    scp.add_supported_context(CT, ImplicitVRLittleEndian)
    try:
        server = scp.start_server(("127.0.0.1", 0), block=False, evt_handlers=[(evt.EVT_C_STORE, handle)])
        ds = Dataset()
        ds.SOPClassUID = CT
        ds.SOPInstanceUID = "1.2.3.4"
        ds.PatientName = "Witness^C25"
        ds.file_meta = FileMetaDataset()
        ds.file_meta.TransferSyntaxUID = ImplicitVRLittleEndian
        sent = encode(ds, True, True)
        scu = AE("SCU")
        scu.add_requested_context(CT, ImplicitVRLittleEndian)
        assoc = scu.associate("127.0.0.1", server.server_address[1])
        status = assoc.send_c_store(ds)
        assoc.release()
    finally:
        scp.shutdown()
        _config.STORE_RECV_CHUNKED_DATASET = old
    print("STORE_RECV_CHUNKED_DATASET=%s: sent %d data-set bytes, status 0x%04X" % (chunked, len(sent), status.Status))
    for k, v in seen.items():
        print("    %-28s %s" % (k, v))
    return len(sent), seen


if __name__ == "__main__":
    print("pynetdicom", pynetdicom.__version__, "from", pynetdicom.__file__)
    n, plain = once(False)
    n2, chunked = once(True)
    bad = chunked["encoded_dataset(False)"] != n2
    print("DEFECT REPRODUCED: encoded_dataset() loses the data set in chunked-receive mode" if bad else "not reproduced")
    raise SystemExit(1 if bad else 0)
