#!/usr/bin/env python3
"""Regenerates /verif/MANIFEST.json from the table below (keeps it schema-valid)."""
import json, os
ROOT = os.path.dirname(os.path.dirname(os.path.abspath(__file__)))

# pid -> (level, technique, text, note, design_ref)
CLAIMED = {}
def claim(pid, level, technique, text, note, ref=None, thorough=True):
    CLAIMED[pid] = dict(level=level, technique=technique, text=text, note=note, ref=ref or ("DESIGN.md §2 " + pid), thorough=thorough)

exec(open(os.path.join(ROOT, "tools", "claims.py")).read())

ALL = ["C%02d" % i for i in range(1, 31)]
NOT_BUILT_REASON = {}
checks = []
for pid in ALL:
    if pid not in CLAIMED:
        continue
    c = CLAIMED[pid]
    d = {
        "property_id": pid,
        "quick_cmd": "./check %s --tier quick" % pid,
        "evidence_file": "evidence/%s.json" % pid,
        "replay_cmd_template": "./check %s --replay {path}" % pid,
        "engine": "vlib",
        "level_claimed": {"category": c["level"], "text": c["text"], "design_ref": c["ref"]},
        "level_note": c["note"],
        "technique": c["technique"],
    }
    if c["thorough"]:
        d["thorough_cmd"] = "./check %s --tier thorough" % pid
    checks.append(d)

na = [{"property_id": p, "reason": NA.get(p, "runtime monitor for this property is not built yet in this tree (see DESIGN.md §4b); not claimed")}
      for p in ALL if p not in CLAIMED]
m = {
    "version": 1,
    "setup_cmd": "./setup.sh",
    "hooks": {
        "guard": "PYNETDICOM_VERIF",
        "enable": "no source hooks: all instrumentation is installed at run time by vlib/taps.py (monkeypatch wrappers, sys.monitoring LINE gates, audit hooks) inside the check processes, which set PYNETDICOM_VERIF=1; /repo is imported from its working tree (editable install in /venv)",
        "baseline_off_cmd": "cd /repo && env -u PYNETDICOM_VERIF /venv/bin/python -m pytest -ra -q -p no:cacheprovider --timeout=900 --continue-on-collection-errors",
        "source_commits": [],
        "add_only": True,
    },
    "engines": [{"name": "vlib", "path": "vlib/", "serves_properties": sorted(CLAIMED),
                 "kind_free_text": "runtime monitors over executions of the real pynetdicom code: reference-model comparison, wire taps, FSM transition monitor, thread/socket liveness registry, sys.monitoring schedule gates; sharded over worker subprocesses"}],
    "checks": checks,
    "not_applicable": na,
    "notes": "Technique family: runtime monitoring. Verdicts are 'held on the executions observed'; exit 2 = inconclusive (deciding monitor not reached). Known findings: known_findings.json.",
}
json.dump(m, open(os.path.join(ROOT, "MANIFEST.json"), "w"), indent=1)
print("claimed:", len(checks), "not_applicable:", len(na))
