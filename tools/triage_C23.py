"""Plain-script triage for C23 (no check framework, no taps, no monkeypatching): a real pynetdicom acceptor with a
C-FIND generator handler that waits on a semaphore before each `event.is_cancelled` read, driven by the raw-socket
reference peer (vlib.peer / vlib.cmdset / vlib.ps38 only).

  scenario A (control)  : C-FIND id 7 ... C-CANCEL(7) ... release handler                    -> read must be True
  scenario B (witness)  : C-FIND id 7 ... C-CANCEL(7) ... N-EVENT-REPORT-RQ served (response seen by the peer)
                          ... release handler                                                -> read must be True
  scenario C (control)  : C-FIND id 7 ... N-EVENT-REPORT-RQ served ... C-CANCEL(7) ... release -> read must be True
  scenario D (cap)      : C-FIND id 7 ... C-CANCEL(100..109) (ten other ids) ... C-CANCEL(7) ... release -> True?
                          (the 11th cancel is put on the message queue; when the operation has ended the reactor hands
                          it to _serve_request: AttributeError escapes and ends the association thread)
  scenario E (side effect, outside C23): C-GET parked, N-EVENT-REPORT served (its thread sets _is_paused = False), then
                          the handler yields an instance: send_c_store() spins forever in `while not self._is_paused`

Run:  cd /verif && /venv/bin/python tools/triage_C23.py          (VERIF_REPO=<dir> to point at a scratch copy)
"""
import logging
import os
import sys
import threading
import time
import warnings

sys.path.insert(0, os.path.dirname(os.path.dirname(os.path.abspath(__file__))))
if os.environ.get("VERIF_REPO"):
    sys.path.insert(0, os.environ["VERIF_REPO"])
logging.disable(logging.CRITICAL)
warnings.simplefilter("ignore")

from pynetdicom import AE, evt  # noqa: E402
from vlib import cmdset, ps38  # noqa: E402
from vlib.peer import Peer  # noqa: E402

FIND = "1.2.840.10008.5.1.4.1.2.1.1"
SCPM = "1.2.840.10008.1.20.1"          # Storage Commitment Push Model (N-EVENT-REPORT capable)
ILE = "1.2.840.10008.1.2"
IDENT = bytes.fromhex("08005200" "08000000") + b"PATIENT "          # (0008,0052) QueryRetrieveLevel, implicit VR LE


def scenario(name, script):
    gate = threading.Semaphore(0)
    parked = threading.Event()
    reads = []

    def on_find(event):
        for _ in range(2):
            parked.set()
            gate.acquire(timeout=10)
            v = event.is_cancelled
            reads.append(v)
            if v:
                yield 0xFE00, None
                return
            yield 0xFF00, None      # nothing to send: Pending without identifier is skipped by the SCP
        return

    def on_ner(event):
        return 0x0000, None

    ae = AE("T-SCP")
    ae.dimse_timeout = ae.acse_timeout = ae.network_timeout = 5
    ae.add_supported_context(FIND, ILE)
    ae.add_supported_context(SCPM, ILE)
    srv = ae.start_server(("127.0.0.1", 0), block=False,
                          evt_handlers=[(evt.EVT_C_FIND, on_find), (evt.EVT_N_EVENT_REPORT, on_ner)])
    peer = Peer.connect(srv.server_address[1])
    out = []
    try:
        ac = peer.associate(ps38.make_rq(called="T-SCP", pcs=[{"id": 1, "abs": FIND, "ts": [ILE]},
                                                               {"id": 3, "abs": SCPM, "ts": [ILE]}]))
        assert ac["type"] == "AC" and set(peer.accepted) == {1, 3}, ac
        peer.send_dimse(1, cmdset.make("C-FIND-RQ", AffectedSOPClassUID=FIND, MessageID=7, Priority=0,
                                       CommandDataSetType=1), IDENT)
        assert parked.wait(5), "handler never entered"
        assoc = [a for a in ae.active_associations][0]
        for step in script:
            if step[0] == "cancel":
                peer.send_dimse(1, cmdset.make("C-CANCEL-RQ", MessageIDBeingRespondedTo=step[1]))
                time.sleep(0.3)     # plain script: generous settle time instead of a tap
                out.append("cancel(%d) sent; acceptor's pending cancels now %r" % (step[1], sorted(assoc.dimse.cancel_req)))
            elif step[0] == "ner":
                peer.send_dimse(3, cmdset.make("N-EVENT-REPORT-RQ", AffectedSOPClassUID=SCPM,
                                               AffectedSOPInstanceUID=SCPM + ".1", MessageID=99, EventTypeID=1))
                m = peer.recv_dimse(5)
                st = m and m.get("cmd", {}).get("Status")
                time.sleep(0.3)
                out.append("N-EVENT-REPORT-RQ served: response status %r; pending cancels now %r"
                           % (st, sorted(assoc.dimse.cancel_req)))
        gate.release()
        m = peer.recv_dimse(5)
        final = m and m.get("cmd", {}).get("Status")
        if final == 0xFF00 or final is None:
            gate.release()
            m = peer.recv_dimse(5)
            final = m and m.get("cmd", {}).get("Status")
        out.append("is_cancelled reads: %r; last C-FIND response status: %s" % (reads, final if final is None else hex(final)))
        peer.release(2)
    finally:
        for _ in range(4):
            gate.release()
        peer.close()
        ae.shutdown()
    print("== %s" % name)
    for ln in out:
        print("   " + ln)
    return reads


def scenario_e():
    """C-GET id 7 parked before its first yield; N-EVENT-REPORT served meanwhile; then the handler yields one instance:
    does the C-STORE sub-operation request ever reach the peer?  (side effect of the same shared-state reset:
    the N-EVENT-REPORT thread's _serve_request sets Association._is_paused = False)"""
    import traceback
    from pydicom.dataset import Dataset, FileMetaDataset
    GET = "1.2.840.10008.5.1.4.1.2.1.3"
    CT = "1.2.840.10008.5.1.4.1.1.2"
    gate = threading.Semaphore(0)
    parked = threading.Event()

    def on_get(event):
        yield 1
        parked.set()
        gate.acquire(timeout=10)
        ds = Dataset()
        ds.file_meta = FileMetaDataset()
        ds.file_meta.TransferSyntaxUID = ILE
        ds.SOPClassUID = CT
        ds.SOPInstanceUID = "1.2.3.4"
        ds.PatientID = "X"
        yield 0xFF00, ds

    ae = AE("T-SCP")
    ae.dimse_timeout = ae.acse_timeout = ae.network_timeout = 5
    ae.add_supported_context(GET, ILE)
    ae.add_supported_context(SCPM, ILE)
    ae.add_supported_context(CT, ILE, scu_role=True, scp_role=True)
    srv = ae.start_server(("127.0.0.1", 0), block=False,
                          evt_handlers=[(evt.EVT_C_GET, on_get), (evt.EVT_N_EVENT_REPORT, lambda e: (0x0000, None))])
    peer = Peer.connect(srv.server_address[1])
    print("== E side effect: N-EVENT-REPORT served while a C-GET handler is running, then a C-STORE sub-operation")
    try:
        ac = peer.associate(ps38.make_rq(called="T-SCP", pcs=[{"id": 1, "abs": GET, "ts": [ILE]}, {"id": 3, "abs": SCPM, "ts": [ILE]},
                                                               {"id": 5, "abs": CT, "ts": [ILE]}],
                                         extra_ui=[{"k": "role", "uid": CT, "scu": 1, "scp": 1}]))
        assert ac["type"] == "AC" and set(peer.accepted) == {1, 3, 5}, ac
        peer.send_dimse(1, cmdset.make("C-GET-RQ", AffectedSOPClassUID=GET, MessageID=7, Priority=0, CommandDataSetType=1), IDENT)
        assert parked.wait(5)
        peer.send_dimse(3, cmdset.make("N-EVENT-REPORT-RQ", AffectedSOPClassUID=SCPM, AffectedSOPInstanceUID=SCPM + ".1",
                                       MessageID=99, EventTypeID=1))
        m = peer.recv_dimse(5)
        print("   N-EVENT-REPORT response status: %r" % (m and m.get("cmd", {}).get("Status")))
        time.sleep(0.3)
        gate.release()
        m = peer.recv_dimse(4)
        name = m and cmdset.FIELD_NAME.get(m.get("cmd", {}).get("CommandField"))
        print("   next message seen by the peer within 4 s: %r (expected C-STORE-RQ)" % (name,))
        if m is None:
            for tid, fr in sys._current_frames().items():
                st = traceback.extract_stack(fr)
                if st[-1].name.startswith("send_c_") :
                    print("   acceptor thread is in %s line %d: %s" % (st[-1].name, st[-1].lineno, st[-1].line))
            for a in ae.active_associations:
                a._is_paused = True      # clean-up of the witness: let the thread leave the loop
    finally:
        peer.close()
        ae.shutdown()


if __name__ == "__main__":
    a = scenario("A control: cancel(7) then read", [("cancel", 7)])
    b = scenario("B witness: cancel(7), N-EVENT-REPORT served, then read", [("cancel", 7), ("ner",)])
    c = scenario("C control: N-EVENT-REPORT served, cancel(7), then read", [("ner",), ("cancel", 7)])
    d = scenario("D cap: ten cancels for other ids, cancel(7), then read",
                 [("cancel", i) for i in range(100, 110)] + [("cancel", 7)])
    print("verdict: A first read %s (expected True); B first read %s (expected True); C first read %s (expected True); "
          "D first read %s (expected True)" % (a[:1], b[:1], c[:1], d[:1]))
    scenario_e()
