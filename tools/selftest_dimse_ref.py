"""Framework self-test: vlib.dimse_ref vs the command sets captured in the repo's tests, the pydicom
dictionary, and its own fragmenter/reassembler.  Not a property check."""
import importlib.util
import os
import sys

sys.path.insert(0, os.path.dirname(os.path.dirname(os.path.abspath(__file__))))
from vlib import dimse_ref as R  # noqa: E402

REPO = os.environ.get("VERIF_REPO", "/repo")
ok = bad = 0
PREFIX = {"c_store": "C-STORE", "c_echo": "C-ECHO", "c_find": "C-FIND", "c_move": "C-MOVE", "c_get": "C-GET",
          "n_er": "N-EVENT-REPORT", "n_get": "N-GET", "n_set": "N-SET", "n_action": "N-ACTION",
          "n_create": "N-CREATE", "n_delete": "N-DELETE"}

bad_dict = R.selftest_dictionary()
print("dictionary mismatches:", bad_dict)
bad += len(bad_dict)

for fn in ("encoded_dimse_msg.py", "encoded_dimse_n_msg.py"):
    spec = importlib.util.spec_from_file_location("enc", os.path.join(REPO, "pynetdicom/tests", fn))
    m = importlib.util.module_from_spec(spec)
    spec.loader.exec_module(m)
    for name in sorted(dir(m)):
        b = getattr(m, name)
        if not isinstance(b, bytes) or "_cmd" not in name or b[0] != 3:
            continue
        probs = []
        d = R.parse_command_set(b[1:], probs)
        want = next(v for k, v in PREFIX.items() if name.startswith(k)) + ("-RQ" if "_rq_" in name else "-RSP")
        got = R.COMMAND_FIELDS.get(d.get("CommandField"))
        allowed = set(R.field_keywords(want)) | set(R.ALWAYS_PRESENT)
        if "with_dup" in name:           # deliberately non-conformant capture (duplicate values)
            continue
        if got != want or probs or not set(d) <= allowed:
            print("BAD", name, got, want, probs, sorted(set(d) - allowed))
            bad += 1
            continue
        re = R.encode_command_set(d)
        if re != b[1:]:
            # captured AE values are padded to 16: legal, not canonical.  Compare values instead.
            d2 = R.parse_command_set(re)
            strip = lambda x: {k: (v.strip() if isinstance(v, str) else v) for k, v in x.items() if k != "CommandGroupLength"}
            if strip(d2) != strip(d):
                print("DIFF", name, d, d2)
                bad += 1
                continue
        ok += 1

# fragmenter <-> reassembler
cmd = R.build_command_set("C-STORE-RQ", {"AffectedSOPClassUID": "1.2", "MessageID": 1, "Priority": 2,
                                         "AffectedSOPInstanceUID": "1.2.3"}, True)
cmd2 = R.build_command_set("C-ECHO-RSP", {"MessageIDBeingRespondedTo": 1, "Status": 0}, False)
for mx in (0, 7, 8, 16, 100):
    pdvs = R.fragment(1, cmd, b"x" * 33, mx) + R.fragment(3, cmd2, None, mx)
    ms = R.reassemble(pdvs)
    good = (not ms.problems and len(ms) == 2 and ms[0]["command_set_bytes"] == cmd and ms[0]["data_set_bytes"] == b"x" * 33
            and ms[1]["data_set_bytes"] is None and ms[1]["command"]["Status"] == 0 and all(x["complete"] for x in ms))
    ok += good
    bad += not good
a = R.fragment(1, cmd, b"x" * 33, 16)
b = R.fragment(3, cmd2, None, 16)
for label, pdvs, kind in [
    ("interleaved", a[:3] + b + a[3:], "interleaved-context"),
    ("data-first", [a[-1]] + a[:-1], "unexpected-data"),
    ("data-before-end", a[:1] + [a[-1]] + a[1:-1], "data-before-command-end"),
    ("no-last", a[:-1], "missing-last"),
    ("dataset-missing", [p for p in a if p[1] & 1] + R.fragment(1, cmd2, None, 16), "command-after-command-end"),
    ("dataset-missing-other-context", [p for p in a if p[1] & 1] + b, "missing-last"),
    ("reserved", [(1, 0x13, cmd2)], "reserved-bits"),
]:
    ms = R.reassemble(pdvs)
    good = kind in ms.kinds()
    if not good:
        print("BAD reassemble", label, ms.problems)
    ok += good
    bad += not good
print("ok", ok, "bad", bad)
sys.exit(1 if bad else 0)
