"""Mutation self-test of C25: builds a scratch copy of pynetdicom with ONE property-breaking edit.

    /venv/bin/python tools/C25_mutants.py M3          -> prints the scratch directory (/tmp/mut_C25_M3)
    VERIF_REPO=/tmp/mut_C25_M3 VERIF_NO_EVIDENCE=1 ./check C25 ; rm -rf /tmp/mut_C25_M3

C25_BASE=<dir containing pynetdicom/> selects the tree the edit is applied to (default /repo; the self-test log in the
builder's report used a copy of /repo with tools/C25_candidate_fix.diff applied so that the baseline is exit 0).
"""
import os
import shutil
import sys

name = sys.argv[1]
dst = "/tmp/mut_C25_%s" % name
shutil.rmtree(dst, ignore_errors=True)
os.makedirs(dst)
shutil.copytree(os.environ.get("C25_BASE", "/repo") + "/pynetdicom", dst + "/pynetdicom")


def edit(rel, old, new, count=1):
    p = os.path.join(dst, "pynetdicom", rel)
    s = open(p).read()
    assert s.count(old) == count, (rel, s.count(old), old)
    open(p, "w").write(s.replace(old, new))


if name == "M1":     # chunked send, unlimited max PDU: fragment size forgets the 6 header bytes -> last 6 bytes never read
    edit("dimse_messages.py", "                    max_pdu_length = length + 6\n", "                    max_pdu_length = length\n")
elif name == "M2":   # number of data-set fragments computed from the PDU size instead of the fragment size -> tail dropped
    edit("dimse_messages.py",
         "                    nr_fragments = ceil(len(encoded_data_set) / (max_pdu_length - 6))\n",
         "                    nr_fragments = ceil(len(encoded_data_set) / max_pdu_length)\n")
elif name == "M3":   # last fragment dropped when the data-set length is an exact multiple of the fragment size
    edit("dimse_messages.py",
         "                    nr_fragments = ceil(len(encoded_data_set) / (max_pdu_length - 6))\n",
         "                    nr_fragments = ceil(len(encoded_data_set) / (max_pdu_length - 6))\n"
         "                    if len(encoded_data_set) % (max_pdu_length - 6) == 0 and nr_fragments > 1:\n"
         "                        nr_fragments -= 1\n")
elif name == "M3b":  # same for the chunked send from a file
    edit("dimse_messages.py",
         "                    nr_fragments = ceil(length / (max_pdu_length - 6))\n",
         "                    nr_fragments = ceil(length / (max_pdu_length - 6))\n"
         "                    if length % (max_pdu_length - 6) == 0 and nr_fragments > 1:\n"
         "                        nr_fragments -= 1\n")
elif name == "M4":   # chunked receive: the last data-set fragment is not written to the temporary file
    edit("dimse_messages.py",
         "                if self._data_set_file:\n                    self._data_set_file.write(data[1:])\n",
         "                if self._data_set_file and not control_header_byte & 2:\n                    self._data_set_file.write(data[1:])\n")
elif name == "M5":   # handler-side decode ignores the byte order of the transfer syntax
    edit("events.py",
         "                    t_syntax.is_implicit_VR,\n                    t_syntax.is_little_endian,\n                    t_syntax.is_deflated,\n",
         "                    t_syntax.is_implicit_VR,\n                    True,\n                    t_syntax.is_deflated,\n")
elif name == "M6":   # N-SET request: Modification List never deflated
    p = os.path.join(dst, "pynetdicom", "association.py")
    s = open(p).read()
    i = s.index("    def send_n_set(")
    old = "            transfer_syntax.is_little_endian,\n            transfer_syntax.is_deflated,\n        )\n"
    j = s.index(old, i)
    s = s[:j] + "            transfer_syntax.is_little_endian,\n            False,\n        )\n" + s[j + len(old):]
    open(p, "w").write(s)
elif name in ("M7", "M7b"):
    # M7: C-FIND responses decoded by the requestor as implicit VR whatever was negotiated - EQUIVALENT mutant: pydicom's
    #     reader detects explicit VR by itself (the decoded identifiers are unchanged), kept for the record
    # M7b: ... as little endian whatever was negotiated
    p = os.path.join(dst, "pynetdicom", "association.py")
    s = open(p).read()
    i = s.index("    def _wrap_find_responses(")
    old = "transfer_syntax.is_implicit_VR," if name == "M7" else "transfer_syntax.is_little_endian,"
    j = s.index(old, i)
    s = s[:j] + "True," + s[j + len(old):]
    open(p, "w").write(s)
elif name == "M8":   # chunked receive: temporary file's meta always says Implicit VR Little Endian
    edit("dimse_messages.py", "                                transfer_syntax=cx.transfer_syntax[0],\n",
         "                                transfer_syntax=UID(\"1.2.840.10008.1.2\"),\n")
elif name == "M9":   # dsutils.decode does not rewind the stream (only the deflated path still works)
    edit("dsutils.py", "    # Rewind to the start of the stream\n    bytestring.seek(0)\n", "")
elif name == "M10":  # dsutils.encode: deflate uses a zlib header (wbits=15) while decode expects a raw stream
    edit("dsutils.py", "zlib.Z_DEFAULT_COMPRESSION, zlib.DEFLATED, -zlib.MAX_WBITS", "zlib.Z_DEFAULT_COMPRESSION, zlib.DEFLATED, zlib.MAX_WBITS")
elif name == "M11":  # Event.file_meta: Media Storage SOP Instance UID taken from the SOP Class
    edit("events.py", "        sop_instance = cast(UID, self.request.AffectedSOPInstanceUID)\n",
         "        sop_instance = cast(UID, self.request.AffectedSOPClassUID)\n")
elif name == "M13":  # C-FIND SCP encodes pending identifiers little endian whatever was negotiated
    p = os.path.join(dst, "pynetdicom", "service_class.py")
    s = open(p).read()
    i = s.index("    def _c_find_scp(")
    i = s.index("                enc = encode(", i)
    old = "transfer_syntax.is_little_endian,"
    j = s.index(old, i)
    s = s[:j] + "True," + s[j + len(old):]
    open(p, "w").write(s)
elif name == "M14":  # send_c_get encodes the Identifier with the FIRST accepted context's transfer syntax
    p = os.path.join(dst, "pynetdicom", "association.py")
    s = open(p).read()
    i = s.index("    def send_c_get(")
    old = "        transfer_syntax = context.transfer_syntax[0]\n"
    j = s.index(old, i)
    s = s[:j] + "        transfer_syntax = self.accepted_contexts[0].transfer_syntax[0]\n" + s[j + len(old):]
    open(p, "w").write(s)
elif name == "M15":  # received data-set fragments: a zero byte inside the first 2 bytes of a fragment is swallowed
    edit("dimse_messages.py", "                    cast(BytesIO, self.data_set).write(data[1:])\n",
         "                    cast(BytesIO, self.data_set).write(data[1:3].rstrip(b\"\\x00\") + data[3:])\n")
elif name == "M16":  # chunked send: data set read from offset + 2 (split_dataset off by the 'next tag' peek)
    edit("dsutils.py", "        return file_meta, fp.tell()\n", "        return file_meta, fp.tell() + 2\n")
elif name == "M17":  # encoded_dataset(): memory receive returns the stream from the current position instead of all of it
    edit("events.py", "            stream = cast(BytesIO, request.DataSet).getvalue()\n",
         "            stream = cast(BytesIO, request.DataSet).getvalue()[:-1]\n")
elif name == "M18":  # N-ACTION reply / N-* replies: SCP encodes the reply implicit VR whatever was negotiated
    p = os.path.join(dst, "pynetdicom", "service_class.py")
    s = open(p).read()
    i = s.index("    def _n_action_scp(")
    old = "transfer_syntax.is_implicit_VR,"
    j = s.index(old, i)
    s = s[:j] + "True," + s[j + len(old):]
    open(p, "w").write(s)
else:
    raise SystemExit("unknown mutant")
print(dst)
