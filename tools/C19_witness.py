# Plain script: no taps, no harness, no monkeypatching.  Real pynetdicom requestor vs. a raw-socket acceptor.
import sys, threading, struct
sys.path.insert(0, "/verif")
from vlib import ps38, cmdset, peer as vpeer          # independent codecs only (no pynetdicom inside)
from pydicom.dataset import Dataset
from pynetdicom import AE, evt, build_role
import logging; logging.disable(logging.CRITICAL)

GET = "1.2.840.10008.5.1.4.1.2.1.3"; CT = "1.2.840.10008.5.1.4.1.1.2"; MR = "1.2.840.10008.5.1.4.1.1.4"
def el(g, e, v, ui=False):
    if len(v) % 2: v += b"\0" if ui else b" "
    return struct.pack("<HHI", g, e, len(v)) + v

def run(target_id, sop):
    lst = vpeer.Listener(); seen = {"rsp": [], "end": None}
    def acceptor():
        p = lst.accept(5)
        rq = p.recv_pdu(5)
        ac = ps38.make_ac(rq, results={1: 0, 3: 0, 5: 4}, extra_ui=[{"k": "role", "uid": CT, "scu": 0, "scp": 1}])
        p.send_pdu(ac)
        m = p.recv_dimse(5)                                   # C-GET-RQ on id 1
        cmd = cmdset.make("C-STORE-RQ", AffectedSOPClassUID=sop, MessageID=77, Priority=0, CommandDataSetType=1,
                          AffectedSOPInstanceUID="1.2.3.4")
        ds = el(8, 0x16, sop.encode(), True) + el(8, 0x18, b"1.2.3.4", True) + el(0x10, 0x10, b"X^Y")
        p.send_dimse(target_id, cmd, ds)                      # <-- sub-operation on a context id that was NOT accepted
        r = p.recv_dimse(1.0)
        while r is not None and r.get("type") == "DIMSE":
            seen["rsp"].append((r["ctx"], hex(r["cmd"]["CommandField"]), r["cmd"].get("MessageIDBeingRespondedTo"), hex(r["cmd"]["Status"])))
            r = p.recv_dimse(0.2)
        if r is not None:
            seen["end"] = r["type"]; p.close(); return
        p.send_dimse(1, cmdset.make("C-GET-RSP", AffectedSOPClassUID=GET, MessageIDBeingRespondedTo=m["cmd"]["MessageID"], Status=0,
                                    NumberOfCompletedSuboperations=1, NumberOfFailedSuboperations=0, NumberOfWarningSuboperations=0))
        r = p.recv_pdu(5); seen["end"] = r["type"]
        if r["type"] == "RELRQ": p.send_pdu({"type": "RELRP"})
        p.wait_eof(2); p.close()
    th = threading.Thread(target=acceptor); th.start()
    calls = []
    def on_store(event):
        calls.append(("EVT_C_STORE", event.context.context_id, event.request.MessageID)); return 0
    ae = AE("SCU"); ae.acse_timeout = ae.dimse_timeout = ae.network_timeout = 5
    ae.add_requested_context(GET, ps38.IMPLICIT_LE)
    ae.add_requested_context(CT, ps38.IMPLICIT_LE)
    ae.add_requested_context(CT, ps38.EXPLICIT_LE)
    assoc = ae.associate("127.0.0.1", lst.port, ext_neg=[build_role(CT, scp_role=True)], evt_handlers=[(evt.EVT_C_STORE, on_store)])
    print(" accepted:", [(c.context_id, c.abstract_syntax.name) for c in assoc.accepted_contexts],
          "rejected:", [(c.context_id, c.result) for c in assoc.rejected_contexts])
    ident = Dataset(); ident.QueryRetrieveLevel = "PATIENT"; ident.PatientID = "1"
    st = [s.Status if "Status" in s else None for s, _ in assoc.send_c_get(ident, GET)]
    if assoc.is_established: assoc.release()
    th.join(10); lst.close()
    print(" C-STORE-RQ on id %-3d sop=%s -> handler calls %r ; P-DATA-TF written back %r ; then %s ; C-GET statuses %r" % (
        target_id, "CT" if sop == CT else "MR", calls, seen["rsp"], seen["end"], st))

for tid in (3, 5, 7, 0, 242, 255):
    run(tid, CT)
run(5, MR)
