#!/usr/bin/env python3
"""My own deliberate property-breaking edits (DESIGN §4.2): each is applied to a scratch worktree of /repo HEAD, the named
check is run against it (VERIF_REPO), the worktree is removed.  Usage: tools/own_mutants.py [name ...]"""
import os, subprocess, sys
MUTANTS = {
    # name: (check, file, old, new)
    "c13-calling-aet-case-insensitive": ("C13", "pynetdicom/acse.py",
        "            and assoc_rq.calling_ae_title not in authorised_aet",
        "            and assoc_rq.calling_ae_title.upper() not in [s.upper() for s in authorised_aet]"),
    "c18-convert-across-byte-order": ("C18", "pynetdicom/association.py",
        "                if tr_syntax.is_little_endian != cx_syntax.is_little_endian:",
        "                if False and tr_syntax.is_little_endian != cx_syntax.is_little_endian:"),
    "c28-failure-range-off-by-one": ("C28", "pynetdicom/status.py", "range(0xC000, 0xD000)", "range(0xC000, 0xCFFF)"),
    "c15-fragment-one-byte-too-long": ("C15", "pynetdicom/dimse_messages.py", "max_pdu_length - 6", "max_pdu_length - 5"),
    "c29-wildcard-case-insensitive": ("C29", "pynetdicom/apps/qrscp/db.py", ".like(value)", ".ilike(value)"),
    "c14-limit-off-by-one": ("C14", "pynetdicom/acse.py", "if len(active_acceptors) > self.assoc.ae.maximum_associations",
                             "if len(active_acceptors) > self.assoc.ae.maximum_associations + 1"),
    "c22-warning-counted-as-completed": ("C22", "pynetdicom/service_class.py", "store_results[3] += 1", "store_results[2] += 1"),
    "c03-recv-returns-after-first-chunk": ("C03", "pynetdicom/transport.py", "        while nr_read < nr_bytes:", "        while nr_read < min(nr_bytes, 1):"),
    "c12-even-context-ids": ("C12", "pynetdicom/ae.py", "2 * ii + 1", "2 * ii + 2"),
    "c19-n-services-skip-context-check": ("C19", "pynetdicom/association.py", "            context = self._accepted_cx[context_id]",
                                          "            context = self._accepted_cx.get(context_id) or list(self._accepted_cx.values())[0]"),
    "c11-requestor-ignores-role-reply": ("C11", "pynetdicom/presentation.py", "                ac_roles = roles[cast(UID, context.abstract_syntax)]", "                ac_roles = (None, None)"),
    "c07-reactor-skips-release-check-when-busy": ("C07", "pynetdicom/association.py", "            if self.is_established and self.acse.is_release_requested():",
                                                  "            if self.is_established and self.dimse.msg_queue.empty() and self.acse.is_release_requested():"),
    "c21-status-dataset-extras-dropped": ("C21", "pynetdicom/service_class.py", "                    setattr(rsp, elem.keyword, elem.value)", "                    pass"),
    "c20-final-success-missing-after-empty-find": ("C20", "pynetdicom/service_class.py", '            LOGGER.info("Find SCP Response: 0x0000 (Success)")\n            self.dimse.send_msg(rsp, cx_id)',
                                                   '            LOGGER.info("Find SCP Response: 0x0000 (Success)")'),
    "c16-empty-identifier-flagged-present": ("C16", "pynetdicom/dimse_messages.py", "            if self.data_set is not None and self.data_set.getvalue():", "            if self.data_set is not None:"),
    "c09-idle-timer-not-restarted-on-traffic": ("C09", "pynetdicom/dul.py", "                    self._idle_timer.restart()", "                    pass"),
    "c15-own-max-pdu-instead-of-peers": ("C15", "pynetdicom/dimse.py", "            return cast(int, self.assoc.acceptor.maximum_length)\n\n        return cast(int, self.assoc.requestor.maximum_length)",
                                         "            return cast(int, self.assoc.requestor.maximum_length)\n\n        return cast(int, self.assoc.acceptor.maximum_length)"),
    "c27-transition-event-reports-wrong-next-state": ("C27", "pynetdicom/fsm.py", '                    "next_state": next_state,', '                    "next_state": self.current_state,'),
    "c03-truncated-pdu-not-detected": ("C03", "pynetdicom/dul.py", "        if len(bytestream) != 6 + pdu_length:", "        if False and len(bytestream) != 6 + pdu_length:"),
    "c26-intervention-exception-swallowed": ("C26", "pynetdicom/events.py", "        if isinstance(event, InterventionEvent):\n            raise", "        if isinstance(event, InterventionEvent):\n            return None"),
    "c25-chunked-receive-loses-last-byte": ("C25", "pynetdicom/dimse_messages.py", "                    self._data_set_file.write(data[1:])", "                    self._data_set_file.write(data[1:-1] if data[0] & 2 and len(data) > 4000 else data[1:])"),
}
names = sys.argv[1:] or list(MUTANTS)
for name in names:
    check, path, old, new = MUTANTS[name]
    wt = "/tmp/wt/own_%s" % name
    subprocess.run(["git", "-C", "/repo", "worktree", "remove", "--force", wt], capture_output=True)
    subprocess.run(["git", "-C", "/repo", "worktree", "add", "-q", "--detach", wt, "HEAD"], check=True, capture_output=True)
    try:
        f = os.path.join(wt, path)
        s = open(f).read()
        n = s.count(old)
        if n == 0:
            print(name, "PATTERN NOT FOUND"); continue
        open(f, "w").write(s.replace(old, new))
        r = subprocess.run(["./check", check, "--tier", "quick"], cwd="/verif", capture_output=True, text=True,
                           env=dict(os.environ, VERIF_REPO=wt, VERIF_NO_EVIDENCE="1"))
        first = next((l for l in r.stdout.splitlines() if l.startswith("VIOLATION")), "")
        key = first.split("key=")[1].split(" ::")[0][:120] if "key=" in first else "-"
        print("%-40s %s exit=%d sites=%d %s" % (name, check, r.returncode, n, key))
    finally:
        subprocess.run(["git", "-C", "/repo", "worktree", "remove", "--force", wt], capture_output=True)
