#!/usr/bin/env python3
"""Re-check every seeded change against the CURRENT /repo HEAD in a scratch worktree: patch applies, demo 0 -> non-zero,
and the tests that failed in the loaded full-suite run (other than the two offline test_ae tests) pass when re-run alone
with the patch applied.  Updates seeded/<id>/meta.json ('rechecked')."""
import json, os, subprocess, sys, re
ROOT = "/verif/seeded"
ENV_FAILS = ("test_association_timeouts", "test_connection_timeout")
ids = sys.argv[1:] or sorted(os.listdir(ROOT))
head = subprocess.run(["git", "-C", "/repo", "rev-parse", "--short", "HEAD"], capture_output=True, text=True).stdout.strip()
for sid in ids:
    d = os.path.join(ROOT, sid)
    meta = json.load(open(os.path.join(d, "meta.json")))
    wt = "/tmp/wt/recheck_%s" % sid
    subprocess.run(["git", "-C", "/repo", "worktree", "remove", "--force", wt], capture_output=True)
    subprocess.run(["git", "-C", "/repo", "worktree", "add", "-q", "--detach", wt, "HEAD"], check=True)
    demo = [f for f in os.listdir(d) if f.startswith("demo") and f.endswith(".py")][0]
    src = re.sub(r"/tmp/wt/(r\d/)?%s\b" % meta["property"], wt, open(os.path.join(d, demo)).read())
    dpath = os.path.join(wt, "_demo_" + demo)
    open(dpath, "w").write(src)
    env = dict(os.environ, PYTHONPATH=wt)
    def run_demo():
        cmd = ["/venv/bin/python", "-m", "pytest", "-q", "-p", "no:cacheprovider", dpath] if demo.endswith("_test.py") else ["/venv/bin/python", dpath]
        try:
            return subprocess.run(cmd, cwd=wt, env=env, capture_output=True, text=True, timeout=300).returncode
        except subprocess.TimeoutExpired:
            return "timeout"
    rc0 = run_demo()
    ap = subprocess.run(["git", "-C", wt, "apply", os.path.join(d, "patch.diff")], capture_output=True, text=True)
    res = {"repo_head": head, "patch_applies": ap.returncode == 0, "demo_without": rc0}
    if ap.returncode == 0:
        res["demo_with"] = run_demo()
        fails = [f for f in (meta["confirmed_by_me"].get("suite_failures") or "").split(";") if f.startswith("FAILED")]
        tests = [f.split()[1] for f in fails if not any(e in f for e in ENV_FAILS)]
        rer = {}
        for t in tests:
            outs = []
            for _ in range(2):
                r = subprocess.run(["/venv/bin/python", "-m", "pytest", "-q", "-p", "no:cacheprovider", "--timeout=300", t], cwd=wt, env=env, capture_output=True, text=True)
                outs.append("pass" if r.returncode == 0 else "fail")
            rer[t] = outs
        res["loaded_run_failures_rerun_alone_with_patch"] = rer
    else:
        res["apply_error"] = ap.stderr[:300]
    meta["rechecked"] = res
    json.dump(meta, open(os.path.join(d, "meta.json"), "w"), indent=1)
    subprocess.run(["git", "-C", "/repo", "worktree", "remove", "--force", wt], capture_output=True)
    print(sid, res)
