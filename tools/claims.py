NA = {}
claim("C09", "exploration", "runtime monitor: elapsed-time reference timer vs real Timer under a virtual clock module",
      "The real Timer is driven through seeded start/stop/restart/timeout/advance/wall-step/read sequences with pynetdicom.timer.time replaced by a virtual clock; every read is compared with an elapsed-time reference. Held on the sequences observed (thousands per run, incl. wall steps of both signs while running and the exact-timeout boundary).",
      "Trusts the 20-line reference timer and that Timer reads time only via the `time` name in pynetdicom.timer.")
claim("C01", "exploration", "runtime monitor: independent PS3.8 reference codec (encoder, structural walker, decoder) vs the bytes/objects/primitives the real PDU classes produce",
      "Seeded abstract PDU values of all 7 types are built through the real primitives and PDU classes; their bytes must equal the reference encoder's, every length field is re-walked, decode(encode(x))==x, the reference decodes pynetdicom's bytes to the same value, and primitive->PDU->bytes->PDU->primitive preserves every parameter. Reference bytes (incl. multiplicities the setters cannot build) are also fed to the decoders. Held on the values observed.",
      "Trusts vlib/ps38.py (self-tested against the repo's captured PDUs); values the public setters refuse are skipped and counted.")
