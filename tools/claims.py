NA = {}
claim("C09", "exploration", "runtime monitor: elapsed-time reference timer vs real Timer under a virtual clock module",
      "The real Timer is driven through seeded start/stop/restart/timeout/advance/wall-step/read sequences with pynetdicom.timer.time replaced by a virtual clock; every read is compared with an elapsed-time reference. Held on the sequences observed (thousands per run, incl. wall steps of both signs while running and the exact-timeout boundary).",
      "Trusts the 20-line reference timer and that Timer reads time only via the `time` name in pynetdicom.timer.")
