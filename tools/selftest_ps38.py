"""Framework self-test: the reference codec vs the byte strings captured in the repo's tests."""
import sys, importlib.util
sys.path.insert(0, '/verif')
from vlib import ps38
spec = importlib.util.spec_from_file_location("enc", "/repo/pynetdicom/tests/encoded_pdu_items.py")
m = importlib.util.module_from_spec(spec); spec.loader.exec_module(m)
ok = bad = 0
for name in dir(m):
    b = getattr(m, name)
    if not isinstance(b, bytes) or len(b) < 6 or b[0] not in range(1, 8): continue
    import struct
    if struct.unpack(">I", b[2:6])[0] != len(b) - 6: continue
    w = ps38.Walk()
    try:
        v = ps38.decode(b, w)
        b2 = ps38.encode(v)
    except Exception as e:
        print("ERR", name, repr(e)); bad += 1; continue
    if b2 != b:
        print("DIFF", name, w.problems[:3]); bad += 1
        print(b.hex()); print(b2.hex())
    else:
        ok += 1
print("ok", ok, "bad", bad)
