"""Plain-script triage (no framework): raw socket acceptor, struct parsing only."""
import socket, struct, threading, logging, warnings
logging.disable(logging.CRITICAL); warnings.simplefilter("ignore")
from pynetdicom import AE, build_context, _config

def capture(configure, enforce=False):
    _config.ENFORCE_UID_CONFORMANCE = enforce
    srv = socket.socket(); srv.bind(("127.0.0.1", 0)); srv.listen(1); srv.settimeout(3)
    got = {}
    def run():
        try:
            c, _ = srv.accept()
        except OSError:
            return
        c.settimeout(3)
        buf = b""
        while len(buf) < 6 or len(buf) < 6 + struct.unpack(">I", buf[2:6])[0]:
            d = c.recv(65536)
            if not d: break
            buf += d
        got["rq"] = buf
        c.sendall(struct.pack(">BBIBBBB", 3, 0, 4, 0, 1, 1, 1))   # A-ASSOCIATE-RJ
        c.close()
    t = threading.Thread(target=run); t.start()
    ae = AE(); ae.acse_timeout = 2
    try:
        kw = configure(ae) or {}
        ae.associate("127.0.0.1", srv.getsockname()[1], **kw)
        err = None
    except Exception as e:
        err = repr(e)
    srv.close(); t.join()
    _config.ENFORCE_UID_CONFORMANCE = False
    return got.get("rq"), err

def contexts(rq):
    """[(id, [abstract syntaxes], [transfer syntaxes])] using struct only."""
    off = 74; out = []
    while off < len(rq):
        t, _, ln = struct.unpack(">BBH", rq[off:off+4]); body = rq[off+4:off+4+ln]; off += 4 + ln
        if t != 0x20: continue
        cid = body[0]; o = 4; a = []; ts = []
        while o < len(body):
            st, _, sl = struct.unpack(">BBH", body[o:o+4]); v = body[o+4:o+4+sl]; o += 4 + sl
            (a if st == 0x30 else ts).append(v)
        out.append((cid, a, ts))
    return out

V = "1.2.840.10008.1.1"; ILE = "1.2.840.10008.1.2"
for name, fn, enf in [
    ("A1 add_requested_context(V, [])", lambda ae: ae.add_requested_context(V, []), False),
    ("A2 contexts=[build_context(V, [])]", lambda ae: {"contexts": [build_context(V, [])]}, False),
    ("A3 requested_contexts=[build_context(V, [])], enforce on", lambda ae: setattr(ae, "requested_contexts", [build_context(V, [])]), True),
    ("B1 add_requested_context('', [ILE]) ENFORCE_UID_CONFORMANCE=True", lambda ae: ae.add_requested_context("", [ILE]), True),
    ("B2 contexts=[build_context('', ILE)] ENFORCE_UID_CONFORMANCE=True", lambda ae: {"contexts": [build_context("", ILE)]}, True),
    ("control: add_requested_context('1.02.3', [ILE]) ENFORCE True", lambda ae: ae.add_requested_context("1.02.3", [ILE]), True),
]:
    rq, err = capture(fn, enf)
    print(name, "->", "API raised " + err if err else "sent RQ with contexts %r" % contexts(rq))
