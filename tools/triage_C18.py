"""Plain-script triage of the C18 monitor hits (no framework, no taps): /venv/bin/python tools/triage_C18.py

W1  compressed-pixel-data-on-uncompressed-context|inconsistent-original-encoding
    dcmread(implicit VR LE file) + Dataset.compress(RLELossless) -> send_c_store() sends the RLE-encapsulated Pixel Data on
    the IMPLICIT VR LE context although an RLE Lossless context was accepted.
W2  role-missing|C-STORE-RQ|acceptor|unrestricted-storage
    _config.UNRESTRICTED_STORAGE_SERVICE acceptor sends the C-STORE sub-operation of a C-GET on a storage context for
    which no SCP/SCU role selection was negotiated (same root cause as C10 'roles-differ|unrestricted|storage-like|rq=absent').
W3  user-supplied-context-id|C-CANCEL-RQ|context-not-accepted  (and |role-missing)
    send_c_cancel(msg_id, context_id=N) does not check N against the accepted contexts.
"""
import logging, os, tempfile, warnings
logging.disable(logging.CRITICAL); warnings.simplefilter("ignore")
import pydicom
from pydicom.dataset import Dataset, FileMetaDataset
from pydicom.uid import ImplicitVRLittleEndian, RLELossless
from pynetdicom import AE, evt, _config
from pynetdicom.sop_class import (CTImageStorage, Verification,
                                  PatientRootQueryRetrieveInformationModelGet as PGET,
                                  PatientRootQueryRetrieveInformationModelFind as PFIND)


def image(ts=ImplicitVRLittleEndian):
    ds = Dataset(); ds.file_meta = FileMetaDataset(); ds.file_meta.TransferSyntaxUID = ts
    ds.file_meta.MediaStorageSOPClassUID = CTImageStorage; ds.file_meta.MediaStorageSOPInstanceUID = "1.2.3.4"
    ds.SOPClassUID = CTImageStorage; ds.SOPInstanceUID = "1.2.3.4"; ds.PatientName = "X"
    ds.Rows = 2; ds.Columns = 2; ds.BitsAllocated = 16; ds.BitsStored = 16; ds.HighBit = 15; ds.SamplesPerPixel = 1
    ds.PixelRepresentation = 0; ds.PhotometricInterpretation = "MONOCHROME2"
    ds.PixelData = b"\x01\x02\x03\x04\x05\x06\x07\x08"
    return ds


def w1():
    print("== W1 compress() after reading an implicit VR file")
    seen = []

    def h_store(e):
        px = e.dataset["PixelData"]
        seen.append((e.context.context_id, e.context.transfer_syntax.name, px.is_undefined_length))
        return 0
    scp = AE("SCP"); scp.add_supported_context(CTImageStorage, [ImplicitVRLittleEndian, RLELossless])
    srv = scp.start_server(("127.0.0.1", 0), block=False, evt_handlers=[(evt.EVT_C_STORE, h_store)])
    d = tempfile.mkdtemp(); p = os.path.join(d, "a.dcm"); image().save_as(p, enforce_file_format=True)
    ds = pydicom.dcmread(p)
    ds.compress(RLELossless)
    print("   dataset: file_meta ts = %s, original_encoding = %r, PixelData encapsulated = %s"
          % (ds.file_meta.TransferSyntaxUID.name, ds.original_encoding, ds["PixelData"].is_undefined_length))
    scu = AE("SCU")
    scu.add_requested_context(CTImageStorage, ImplicitVRLittleEndian); scu.add_requested_context(CTImageStorage, RLELossless)
    a = scu.associate("127.0.0.1", srv.server_address[1])
    print("   accepted:", [(c.context_id, c.transfer_syntax[0].name) for c in a.accepted_contexts])
    print("   status 0x%04X" % a.send_c_store(ds).Status)
    a.release(); scp.shutdown(); os.remove(p); os.rmdir(d)
    print("   SCP received on (ctx id, ts, PixelData encapsulated):", seen)
    print("   DEFECT" if seen and seen[0][2] and "RLE" not in seen[0][1] else "   ok")


def w2():
    print("== W2 unrestricted storage: C-GET sub-operation without SCU role")
    _config.UNRESTRICTED_STORAGE_SERVICE = True
    sent = []

    def h_get(e):
        yield 1
        yield 0xFF00, image()
    scp = AE("SCP"); scp.add_supported_context(PGET)
    srv = scp.start_server(("127.0.0.1", 0), block=False, evt_handlers=[
        (evt.EVT_C_GET, h_get), (evt.EVT_DIMSE_SENT, lambda e: sent.append((type(e.message).__name__, e.message.context_id)))])
    scu = AE("SCU"); scu.add_requested_context(PGET); scu.add_requested_context(CTImageStorage, ImplicitVRLittleEndian)
    a = scu.associate("127.0.0.1", srv.server_address[1], evt_handlers=[(evt.EVT_C_STORE, lambda e: 0)])  # no role items
    acc = srv.active_associations[0]
    print("   requestor view:", [(c.context_id, c.as_scu, c.as_scp) for c in a.accepted_contexts], "(id, as_scu, as_scp)")
    print("   acceptor view: ", [(c.context_id, c.as_scu, c.as_scp) for c in acc.accepted_contexts])
    q = Dataset(); q.QueryRetrieveLevel = "PATIENT"; q.PatientID = "1"
    for st, _ in a.send_c_get(q, PGET):
        print("   C-GET rsp 0x%04X failed=%s" % (st.Status, st.get("NumberOfFailedSuboperations")))
    a.release(); scp.shutdown()
    _config.UNRESTRICTED_STORAGE_SERVICE = False
    print("   acceptor sent:", sent)
    print("   DEFECT" if ("C_STORE_RQ", 3) in sent else "   ok")


def w3():
    print("== W3 send_c_cancel(msg_id, context_id=99)")
    sent = []
    scp = AE("SCP"); scp.add_supported_context(Verification); scp.add_supported_context(PFIND)
    srv = scp.start_server(("127.0.0.1", 0), block=False)
    scu = AE("SCU"); scu.add_requested_context(Verification); scu.add_requested_context(PFIND)
    a = scu.associate("127.0.0.1", srv.server_address[1],
                      evt_handlers=[(evt.EVT_DIMSE_SENT, lambda e: sent.append((type(e.message).__name__, e.message.context_id)))])
    print("   accepted ids:", [c.context_id for c in a.accepted_contexts])
    try:
        a.send_c_cancel(1, context_id=99)
        print("   no error")
    except Exception as exc:
        print("   refused:", repr(exc))
    a.send_c_echo()
    a.release(); scp.shutdown()
    print("   requestor sent:", sent)
    print("   DEFECT" if ("C_CANCEL_RQ", 99) in sent else "   ok")


if __name__ == "__main__":
    w1(); w2(); w3()
