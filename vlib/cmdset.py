"""Minimal independent DIMSE command-set codec (PS3.7 Annex E: group 0000, implicit VR little endian).
struct only; used by the scripted peer so that hostile/conformant DIMSE traffic is never produced by the code
under test."""
from __future__ import annotations

import struct

# keyword -> (element number in group 0000, VR)
ELEMS = {
    "CommandGroupLength": (0x0000, "UL"),
    "AffectedSOPClassUID": (0x0002, "UI"),
    "RequestedSOPClassUID": (0x0003, "UI"),
    "CommandField": (0x0100, "US"),
    "MessageID": (0x0110, "US"),
    "MessageIDBeingRespondedTo": (0x0120, "US"),
    "MoveDestination": (0x0600, "AE"),
    "Priority": (0x0700, "US"),
    "CommandDataSetType": (0x0800, "US"),
    "Status": (0x0900, "US"),
    "OffendingElement": (0x0901, "AT"),
    "ErrorComment": (0x0902, "LO"),
    "ErrorID": (0x0903, "US"),
    "AffectedSOPInstanceUID": (0x1000, "UI"),
    "RequestedSOPInstanceUID": (0x1001, "UI"),
    "EventTypeID": (0x1002, "US"),
    "AttributeIdentifierList": (0x1005, "AT"),
    "ActionTypeID": (0x1008, "US"),
    "NumberOfRemainingSuboperations": (0x1020, "US"),
    "NumberOfCompletedSuboperations": (0x1021, "US"),
    "NumberOfFailedSuboperations": (0x1022, "US"),
    "NumberOfWarningSuboperations": (0x1023, "US"),
    "MoveOriginatorApplicationEntityTitle": (0x1030, "AE"),
    "MoveOriginatorMessageID": (0x1031, "US"),
}
BY_ELEM = {v[0]: (k, v[1]) for k, v in ELEMS.items()}

# PS3.7 Table E.1-1 command field values
COMMAND_FIELD = {
    "C-STORE-RQ": 0x0001, "C-STORE-RSP": 0x8001, "C-GET-RQ": 0x0010, "C-GET-RSP": 0x8010,
    "C-FIND-RQ": 0x0020, "C-FIND-RSP": 0x8020, "C-MOVE-RQ": 0x0021, "C-MOVE-RSP": 0x8021,
    "C-ECHO-RQ": 0x0030, "C-ECHO-RSP": 0x8030, "N-EVENT-REPORT-RQ": 0x0100, "N-EVENT-REPORT-RSP": 0x8100,
    "N-GET-RQ": 0x0110, "N-GET-RSP": 0x8110, "N-SET-RQ": 0x0120, "N-SET-RSP": 0x8120,
    "N-ACTION-RQ": 0x0130, "N-ACTION-RSP": 0x8130, "N-CREATE-RQ": 0x0140, "N-CREATE-RSP": 0x8140,
    "N-DELETE-RQ": 0x0150, "N-DELETE-RSP": 0x8150, "C-CANCEL-RQ": 0x0FFF,
}
FIELD_NAME = {v: k for k, v in COMMAND_FIELD.items()}


def _enc_value(vr, v) -> bytes:
    if vr == "UL":
        return struct.pack("<I", v)
    if vr == "US":
        return struct.pack("<H", v)
    if vr == "AT":
        vals = v if isinstance(v, (list, tuple)) and v and isinstance(v[0], (list, tuple)) else ([v] if not isinstance(v, list) else v)
        out = b""
        for t in vals:
            if isinstance(t, int):
                t = (t >> 16, t & 0xFFFF)
            out += struct.pack("<HH", t[0], t[1])
        return out
    b = v if isinstance(v, bytes) else str(v).encode("ascii")
    if len(b) % 2:
        b += b"\0" if vr == "UI" else b" "
    return b


def encode(cmd: dict) -> bytes:
    """cmd: keyword -> value (CommandGroupLength is computed)."""
    body = b""
    for kw in sorted((k for k in cmd if k != "CommandGroupLength"), key=lambda k: ELEMS[k][0]):
        el, vr = ELEMS[kw]
        val = _enc_value(vr, cmd[kw])
        body += struct.pack("<HHI", 0, el, len(val)) + val
    return struct.pack("<HHII", 0, 0, 4, len(body)) + body


def decode(b: bytes) -> dict:
    out = {}
    off = 0
    while off + 8 <= len(b):
        g, el, ln = struct.unpack("<HHI", b[off:off + 8])
        val = b[off + 8:off + 8 + ln]
        off += 8 + ln
        if g != 0:
            out.setdefault("_non_group0", []).append((g, el))
            continue
        kw, vr = BY_ELEM.get(el, ("(0000,%04x)" % el, "UN"))
        if vr == "UL" and len(val) == 4:
            out[kw] = struct.unpack("<I", val)[0]
        elif vr == "US" and len(val) == 2:
            out[kw] = struct.unpack("<H", val)[0]
        elif vr == "AT":
            out[kw] = [struct.unpack("<HH", val[i:i + 4]) for i in range(0, len(val) - 3, 4)]
        elif vr in ("UI", "AE", "LO"):
            out[kw] = val.decode("latin-1").rstrip("\0 ")
        else:
            out[kw] = val.hex()
    if off != len(b):
        out["_trailing"] = len(b) - off
    return out


def make(kind: str, **kw) -> dict:
    d = {"CommandField": COMMAND_FIELD[kind]}
    d.update(kw)
    d.setdefault("CommandDataSetType", 0x0101)
    return d


def c_echo_rq(msg_id=1):
    return make("C-ECHO-RQ", AffectedSOPClassUID="1.2.840.10008.1.1", MessageID=msg_id)


def c_echo_rsp(msg_id=1, status=0):
    return make("C-ECHO-RSP", AffectedSOPClassUID="1.2.840.10008.1.1", MessageIDBeingRespondedTo=msg_id, Status=status)
