"""REFERENCE model of DICOM Query/Retrieve matching (PS3.4 Annex C), independent of pynetdicom.

Written from PS3.4 (C.2.2.2 attribute matching, C.4.1 / C.4.2 / C.4.3 hierarchical search method,
Tables C.6-1..C.6-5 key attributes of the Patient Root and Study Root models) for the keys that
pynetdicom's qrscp application documents as supported.  Plain Python, no pynetdicom / pydicom import.

Data:
    instance  = {keyword: value}   value: str | int | None (attribute absent) ; the 4 unique keys are always set
    query     = {"op": "FIND"|"GET"|"MOVE", "root": "P"|"S", "level": str|None, "keys": [[keyword, value], ...]}
                value: None or "" (zero length) | str | int | list[str] (UID list / multi value)

PS3.4 rules transcribed
    C.2.2.2.1 single value   non-zero length, no wildcard (text VRs) / no '-' (DA, TM): exact, case-sensitive match;
                             PN may be matched case-insensitively (both accepted, see `Variant`)
    C.2.2.2.2 list of UID    matches when the entity's UID equals any UID of the list
    C.2.2.2.3 universal      zero-length value: every entity matches (also entities without a value)
    C.2.2.2.4 wildcard       only for text VRs (here LO, PN, SH, CS): '*' = any sequence incl. empty, '?' = exactly one
                             character, every other character is literal; case-sensitive except PN; '*' alone is
                             equivalent to universal matching (so it also matches an absent value)
    C.2.2.2.5 range          DA/TM "a-b" (a <= v <= b), "a-" (v >= a), "-b" (v <= b), bounds inclusive, compared as
                             dates / times (not as text)
    C.4.1.3.1.1 hierarchical search: an entity at the Query/Retrieve level matches when all keys of its own level
                             match it and all keys of the higher levels match its ancestors
    C.4.1.1.3.1 / C.4.2.1.4 / C.4.3.1.3  identifier validity: Query/Retrieve Level present and one of the model's
                             levels; the unique key of every level above the Q/R level present; no key of a level below
                             the Q/R level
    C-FIND: one pending response per matching entity at the Q/R level.  C-GET / C-MOVE: the sub-operations are all
    the instances below the matching entities (each once).

Known-deviation emulation ("explain-by-quirk"): `evaluate(..., quirks=...)` can switch on named deviations so a
monitor can attribute a discrepancy to a mechanism.  The quirks describe *behaviour*, nothing is imported from the
implementation:
    per_instance_rows        C-FIND yields one response per stored instance below a matching entity
    like_underscore          in wildcard matching '_' in the pattern matches any single character
    like_percent             in wildcard matching '%' in the pattern matches any sequence of characters
    like_case_insensitive    wildcard matching of non-PN text keys ignores ASCII case
    like_null                a wildcard pattern never matches an entity that has no value for the key ('*' included)
    empty_text_not_universal a zero-length value of a text/UI/DA/TM key only matches entities whose stored value is
                             the empty string (instead of every entity)
    uid_list_error           a UID key holding more than one UID makes the query fail (processing error)
    reject_no_keys           a C-FIND identifier holding nothing but the Query/Retrieve Level is rejected as invalid
    reject_unsupported_only  a C-FIND identifier whose only keys are optional keys the SCP does not support is rejected
                             as invalid (PS3.4 C.2.2.1.3: such keys are ignored, i.e. every top-level entity matches)
    range_empty_value        a range without lower bound ("-b") also matches entities whose stored value is empty
"""
from __future__ import annotations

import itertools
import re

# keyword -> (level in the Patient Root model, U/R in the Patient Root model, VR)
ATTRS = {
    "PatientID": ("PATIENT", "U", "LO"),
    "PatientName": ("PATIENT", "R", "PN"),
    "StudyInstanceUID": ("STUDY", "U", "UI"),
    "StudyDate": ("STUDY", "R", "DA"),
    "StudyTime": ("STUDY", "R", "TM"),
    "AccessionNumber": ("STUDY", "R", "SH"),
    "StudyID": ("STUDY", "R", "SH"),
    "SeriesInstanceUID": ("SERIES", "U", "UI"),
    "Modality": ("SERIES", "R", "CS"),
    "SeriesNumber": ("SERIES", "R", "IS"),
    "SOPInstanceUID": ("IMAGE", "U", "UI"),
    "InstanceNumber": ("IMAGE", "R", "IS"),
}
LEVELS = {"P": ["PATIENT", "STUDY", "SERIES", "IMAGE"], "S": ["STUDY", "SERIES", "IMAGE"]}
UNIQUE = {"PATIENT": "PatientID", "STUDY": "StudyInstanceUID", "SERIES": "SeriesInstanceUID",
          "IMAGE": "SOPInstanceUID"}
TEXT_VR = ("LO", "PN", "SH", "CS")
QUIRKS = ("per_instance_rows", "like_underscore", "like_percent", "like_case_insensitive", "like_null",
          "empty_text_not_universal", "uid_list_error", "reject_no_keys", "reject_unsupported_only",
          "range_empty_value")


def key_level(root, kw):
    """Level a key belongs to in the given model (Study Root: patient attributes are study-level keys)."""
    lvl = ATTRS[kw][0]
    if root == "S" and lvl == "PATIENT":
        return "STUDY"
    return lvl


def key_class(root, kw):
    """'U' or 'R' in the given model (Table C.6-5: Patient ID is only a required key in Study Root)."""
    if root == "S" and kw == "PatientID":
        return "R"
    return ATTRS[kw][1]


def is_zero_length(value):
    return value is None or value == "" or value == []


def classify(kw, value):
    """Matching type PS3.4 C.2.2.2 prescribes for this key value."""
    vr = ATTRS[kw][2]
    if is_zero_length(value):
        return "universal"
    if isinstance(value, list):
        return "uidlist" if vr == "UI" else "multi"
    if vr == "UI":
        return "single"
    if vr in TEXT_VR and isinstance(value, str) and ("*" in value or "?" in value):
        return "wildcard"
    if vr in ("DA", "TM") and isinstance(value, str) and "-" in value:
        return "range"
    return "single"


class Variant:
    """Choices PS3.4 leaves to the SCP; a monitor accepts any of them.

    pn_single_ci / pn_wild_ci : PN single-value / wildcard matching case-insensitive (C.2.2.2.1, C.2.2.2.4 allow both)
    sr_pid_applied            : C-GET/C-MOVE in Study Root with a Patient ID key (not a unique key there, so it should
                                not have been sent): applied as a filter, or ignored like other required keys
    """
    __slots__ = ("pn_single_ci", "pn_wild_ci", "sr_pid_applied")

    def __init__(self, pn_single_ci=False, pn_wild_ci=False, sr_pid_applied=True):
        self.pn_single_ci = pn_single_ci
        self.pn_wild_ci = pn_wild_ci
        self.sr_pid_applied = sr_pid_applied

    def __repr__(self):
        return "Variant(pn_single_ci=%r, pn_wild_ci=%r, sr_pid_applied=%r)" % (
            self.pn_single_ci, self.pn_wild_ci, self.sr_pid_applied)


def all_variants(query):
    """Only the variants that can matter for this query."""
    kws = [kw for kw, _ in query["keys"]]
    pn = "PatientName" in kws
    sr = query["root"] == "S" and query["op"] != "FIND" and "PatientID" in kws
    out = []
    for a, b, c in itertools.product((False, True) if pn else (False,), (False, True) if pn else (False,),
                                     (True, False) if sr else (True,)):
        out.append(Variant(a, b, c))
    return out


# ------------------------------------------------------------------ value matching

def _ascii_lower(s):
    return "".join(chr(ord(c) + 32) if "A" <= c <= "Z" else c for c in s)


def wildcard_match(pattern, text, ci=False, underscore=False, percent=False):
    if ci:
        pattern, text = _ascii_lower(pattern), _ascii_lower(text)
    rx = []
    for ch in pattern:
        if ch == "*" or (percent and ch == "%"):
            rx.append(".*")
        elif ch == "?" or (underscore and ch == "_"):
            rx.append(".")
        else:
            rx.append(re.escape(ch))
    return re.fullmatch("".join(rx), text, re.DOTALL) is not None


def _da(v):
    if not re.fullmatch(r"\d{8}", v):
        raise ValueError("non-canonical DA %r" % (v,))
    return int(v)


def _tm(v):
    m = re.fullmatch(r"(\d\d)(\d\d)(\d\d)(?:\.(\d{1,6}))?", v)
    if not m:
        raise ValueError("non-canonical TM %r" % (v,))
    frac = int((m.group(4) or "0").ljust(6, "0"))
    return ((int(m.group(1)) * 60 + int(m.group(2))) * 60 + int(m.group(3))) * 1000000 + frac


def range_match(vr, spec, stored):
    conv = _da if vr == "DA" else _tm
    if spec.count("-") != 1:
        raise ValueError("malformed range")
    lo, hi = spec.split("-")
    if not lo and not hi:
        raise ValueError("malformed range")
    v = conv(stored)
    if lo and v < conv(lo):
        return False
    if hi and v > conv(hi):
        return False
    return True


def value_matches(kw, qv, stored, quirks, variant):
    """Does an entity whose attribute `kw` holds `stored` (None = no value) match the key value `qv`?"""
    vr = ATTRS[kw][2]
    mtype = classify(kw, qv)
    if mtype == "universal":
        if "empty_text_not_universal" in quirks and vr != "IS":
            return stored == ""
        return True
    if mtype == "uidlist":
        return stored is not None and str(stored) in [str(x) for x in qv]
    if mtype == "multi":
        raise ValueError("multi-valued non-UID key is outside the model")
    if mtype == "wildcard":
        if stored is None:
            if "like_null" in quirks:
                return False
            stored = ""
        if vr == "PN":
            ci = variant.pn_wild_ci
        else:
            ci = "like_case_insensitive" in quirks
        return wildcard_match(qv, stored, ci, "like_underscore" in quirks, "like_percent" in quirks)
    if stored is None:
        return False
    if mtype == "range":
        if stored == "":
            return "range_empty_value" in quirks and qv.startswith("-") and qv.count("-") == 1 and len(qv) > 1
        return range_match(vr, qv, stored)
    # single value
    if vr == "IS":
        return int(str(qv).strip()) == int(str(stored).strip())
    if vr == "PN" and variant.pn_single_ci:
        return _ascii_lower(str(qv)) == _ascii_lower(str(stored))
    return str(qv) == str(stored)


# ------------------------------------------------------------------ identifier handling

def effective_keys(query, variant):
    """Supported keys that take part in matching.  Keys the SCP does not support are ignored (C.2.2.1.3);
    required keys are not part of a C-GET / C-MOVE identifier and are ignored there (C.2.2.1.2)."""
    out = []
    for kw, val in query["keys"]:
        if kw not in ATTRS:
            continue
        if query["op"] != "FIND":
            cls = key_class(query["root"], kw)
            if kw == "PatientID" and query["root"] == "S":
                if not variant.sr_pid_applied:
                    continue
            elif cls == "R":
                continue
        out.append((kw, val))
    return out


def validity(query, keys, quirks=frozenset()):
    """None when the identifier's level hierarchy is valid, else the reason."""
    level = query.get("level")
    if level is None:
        return "no-level"
    levels = LEVELS[query["root"]]
    if level not in levels:
        return "bad-level"
    present = set(kw for kw, _ in keys)
    idx = levels.index(level)
    for kw in present:
        if levels.index(key_level(query["root"], kw)) > idx:
            return "key-below-level"
    for upper in levels[:idx]:
        if UNIQUE[upper] not in present:
            return "missing-unique-key"
    if not present:
        if "reject_no_keys" in quirks and not query["keys"]:
            return "no-keys"
        if "reject_unsupported_only" in quirks and query["keys"]:
            return "no-supported-keys"
    return None


def dont_care(query, variant=None):
    """Identifiers on which PS3.4 puts no obligation on the SCP that we could check: a C-GET/C-MOVE
    identifier that lacks the unique key of its own level (SCU non-conformance, C.4.2.2.1 / C.4.3.2.1)."""
    if query["op"] == "FIND":
        return None
    level = query.get("level")
    if level in LEVELS[query["root"]]:
        if UNIQUE[level] not in [kw for kw, _ in query["keys"]]:
            return "getmove-without-level-unique-key"
    return None


# ------------------------------------------------------------------ entities

def entity_key(root, level, inst):
    return str(inst[UNIQUE[level]])


def evaluate(instances, query, quirks=frozenset(), variant=None):
    """Expected outcome.

    Returns {"status": "invalid", "reason": ...} | {"status": "error"} |
            {"status": "ok", "entities": sorted entity keys at the level (each once),
             "responses": sorted entity keys, one per expected C-FIND pending response,
             "instances": sorted SOP Instance UIDs below the matching entities}
    """
    variant = variant or Variant()
    quirks = frozenset(quirks)
    root = query["root"]
    keys = effective_keys(query, variant)
    why = validity(query, keys, quirks)
    if why:
        return {"status": "invalid", "reason": why}
    level = query["level"]
    if "uid_list_error" in quirks:
        for kw, val in keys:
            if ATTRS[kw][2] == "UI" and isinstance(val, list) and len(val) > 1:
                return {"status": "error"}
    # entity tree: entity at `level` = set of instances sharing the level's unique key
    groups = {}
    for inst in instances:
        groups.setdefault(entity_key(root, level, inst), []).append(inst)
    matched = []
    for ek, members in groups.items():
        rep = members[0]  # hierarchy is consistent: attributes at/above the level are equal for all members
        ok = True
        for kw, val in keys:
            if not value_matches(kw, val, rep.get(kw), quirks, variant):
                ok = False
                break
        if ok:
            matched.append(ek)
    matched.sort()
    insts = sorted(str(i["SOPInstanceUID"]) for ek in matched for i in groups[ek])
    if "per_instance_rows" in quirks:
        responses = sorted(ek for ek in matched for _ in groups[ek])
    else:
        responses = list(matched)
    return {"status": "ok", "entities": matched, "responses": responses, "instances": insts}


def consistent(instances):
    """Is the data a proper hierarchy (every attribute at or above a level is the same for all instances of
    the entity)?  The reference is only defined for such data."""
    for root in ("P",):
        for level in LEVELS[root]:
            seen = {}
            idx = LEVELS[root].index(level)
            for inst in instances:
                proj = tuple((kw, inst.get(kw)) for kw in sorted(ATTRS)
                             if LEVELS[root].index(ATTRS[kw][0]) <= idx)
                k = inst[UNIQUE[level]]
                if seen.setdefault(k, proj) != proj:
                    return False
    return True


def subsets_by_size(names):
    names = sorted(names)
    for n in range(0, len(names) + 1):
        for comb in itertools.combinations(names, n):
            yield frozenset(comb)
