"""Shared harness of C20 / C21 / C22: one scripted DIMSE request against a REAL pynetdicom acceptor whose bound
handler behaves as the case description says; every message the acceptor sends for that request is recorded at
the scripted peer (vlib.peer / vlib.cmdset / vlib.ps38 only - never through the code under test).

    case = {"svc": <key of SERVICES>, "ts": "implicit|explicit|big|deflated", "msg_id": 0..65535,
            "cx": [echo_ctx_id, service_ctx_id, storage_ctx_id],
            "h": <handler behaviour>, "subops": [<outcome>...], "dest": "scp|none|closed|bad-...",
            "rq": {...request options...}}

Handler behaviour grammar (JSON):
    {"kind": "ret", "s": S, "d": D}            handler returns (S, D)   (C-ECHO / C-STORE / N-DELETE: returns S)
    {"kind": "ret-raw", "raw": R}              handler returns the raw object R (wrong arity / type)
    {"kind": "raise"}                          plain function raising
    {"kind": "abort"} / {"kind": "release"}    handler calls event.assoc.abort()/release(), then returns 0x0000
    {"kind": "gen", "steps": [STEP...], "end": "stop|raise"}     generator function
        STEP = {"s": S, "d": D} | {"raise": 1} | {"abort": 1} | {"release": 1} | {"raw": R}
               | {"count": V} | {"dest": V}      (C-GET: first step count; C-MOVE: dest then count)
    S = {"t":"int","v":n} | {"t":"intenum","v":n} (IntEnum member) | {"t":"ds","v":n,"x":{kw: value}} | {"t":"ds-nostatus"} | {"t":"none"} | {"t":"str"}
        | {"t":"float"} | {"t":"list"}
    D = {"t":"valid","k":n} | {"t":"none"} | {"t":"empty"} | {"t":"unenc"} | {"t":"str"} | {"t":"int"}
        | {"t":"inst","k":i} | {"t":"inst-nouid","k":i} | {"t":"inst-noclass","k":i} | {"t":"inst-nometa","k":i}
        | {"t":"faillist","uids":[..]}
    R = {"t":"none"} | {"t":"int","v":n} | {"t":"str"} | {"t":"tuple1"} | {"t":"tuple3"} | {"t":"list-pairs"} | {"t":"empty-list"}
Sub-operation outcomes: "ok" | "st:<hex>" (answer / return that status) | "abort" | "raise" (move destination only)
    | "silent" (C-GET peer does not answer).

The documented status tables below are transcribed from /repo/docs/service_classes/*.rst, docs/reference/status.rst
and the doc_handle_* docstrings in pynetdicom/_handlers.py (NOT from service_class.py / status.py).
"""
from __future__ import annotations

import io
import threading
import time
import warnings
import zlib

from . import cmdset, harness, ps38, taps
from .peer import Peer

# ----------------------------------------------------------------------------------------------- constants
VERIF = "1.2.840.10008.1.1"
CT = "1.2.840.10008.5.1.4.1.1.2"
MR = "1.2.840.10008.5.1.4.1.1.4"
REPOSITORY_QUERY = "1.2.840.10008.5.1.4.1.1.201.6"
TS = {"implicit": "1.2.840.10008.1.2", "explicit": "1.2.840.10008.1.2.1", "big": "1.2.840.10008.1.2.2",
      "deflated": "1.2.840.10008.1.2.1.99"}
INST_ROOT = "1.2.826.0.1.3680043.9.3811.20."

PENDING = (0xFF00, 0xFF01)     # PS3.7: the only Pending status codes


def category(code):
    """PS3.7 Annex C status classes (the standard's rule, independent of pynetdicom.status)."""
    if code == 0:
        return "success"
    if code in PENDING:
        return "pending"
    if code == 0xFE00:
        return "cancel"
    if code in (0x0001, 0x0107, 0x0116) or 0xB000 <= code <= 0xBFFF:
        return "warning"
    if 0xA000 <= code <= 0xAFFF or 0xC000 <= code <= 0xCFFF or 0x0100 <= code <= 0x02FF:
        return "failure"
    return "unknown"


# Documented statuses per service family (docs/service_classes/*.rst + doc_handle_*), representatives of ranges.
# exc = handler exception, nostatus = status Dataset without Status, badtype = status neither int nor Dataset,
# unenc = response data set cannot be encoded (docs/reference/status.rst: 0xC001/0xC002 are "non-service specific").
FAMILIES = {
    "verification": dict(success=[0x0000], failure=[0x0122, 0x0210, 0x0211, 0x0212], warning=[], cancel=[], pending=[],
                         exc=[0x0000], nostatus=[0x0000, 0xC001], badtype=[0x0000, 0xC002], unenc=[]),
    "storage": dict(success=[0x0000], warning=[0xB000, 0xB006, 0xB007],
                    failure=[0x0117, 0x0122, 0x0124, 0x0210, 0x0211, 0x0212, 0xA700, 0xA7FF, 0xA900, 0xA9FF, 0xC000,
                             0xC123, 0xCFFF], cancel=[], pending=[],
                    exc=[0xC211], nostatus=[0xC001], badtype=[0xC002], unenc=[]),
    "nonpatient": dict(success=[0x0000], warning=[],
                       failure=[0x0117, 0x0122, 0x0124, 0x0210, 0x0211, 0x0212, 0xA700, 0xA900, 0xC000], cancel=[],
                       pending=[], exc=[0xC211], nostatus=[0xC001], badtype=[0xC002], unenc=[]),
    "qr-find": dict(success=[0x0000], warning=[0xB001], failure=[0x0122, 0xA700, 0xA710, 0xA900, 0xC000, 0xC123, 0xCFFF],
                    cancel=[0xFE00], pending=[0xFF00, 0xFF01],
                    exc=[0xC311], nostatus=[0xC001], badtype=[0xC002], unenc=[0xC312]),
    "worklist": dict(success=[0x0000], warning=[], failure=[0x0122, 0xA700, 0xA900, 0xC000, 0xC5AB, 0xCFFF],
                     cancel=[0xFE00], pending=[0xFF00, 0xFF01],
                     exc=[0xC311], nostatus=[0xC001], badtype=[0xC002], unenc=[0xC312]),
    "relpat": dict(success=[0x0000], warning=[], failure=[0x0122, 0xA700, 0xA900, 0xC000, 0xC100, 0xC200],
                   cancel=[0xFE00], pending=[0xFF00],
                   exc=[0xC311], nostatus=[0xC001], badtype=[0xC002], unenc=[0xC312]),
    "substance": dict(success=[0x0000], warning=[], failure=[0x0122, 0xA700, 0xA900, 0xC000, 0xC777, 0xCFFF],
                      cancel=[0xFE00], pending=[0xFF00],
                      exc=[0xC311], nostatus=[0xC001], badtype=[0xC002], unenc=[0xC312]),
    "qrlike-find": dict(success=[0x0000], warning=[], failure=[0x0122, 0xA700, 0xA900, 0xC000, 0xC0FE, 0xCFFF],
                        cancel=[0xFE00], pending=[0xFF00, 0xFF01],
                        exc=[0xC311], nostatus=[0xC001], badtype=[0xC002], unenc=[0xC312]),
    "ups-find": dict(success=[0x0000], warning=[], failure=[0x0122, 0xA700, 0xA900, 0xC000, 0xC0FE, 0xCFFF],
                     cancel=[0xFE00], pending=[0xFF00, 0xFF01],
                     exc=[0xC311], nostatus=[0xC001], badtype=[0xC002], unenc=[0xC312]),
    "get": dict(success=[0x0000], warning=[0xB000],
                failure=[0x0122, 0x0124, 0x0210, 0x0212, 0xA701, 0xA702, 0xA900, 0xAA00, 0xAA01, 0xAA02, 0xAA03, 0xAA04,
                         0xC000, 0xC0AA, 0xCFFF], cancel=[0xFE00], pending=[0xFF00],
                exc=[0xC411], nostatus=[0xC001], badtype=[0xC002], unenc=[],
                badcount=[0xC413], toomany=[0xC416]),
    "move": dict(success=[0x0000], warning=[0xB000],
                 failure=[0x0122, 0x0124, 0x0210, 0x0211, 0x0212, 0xA701, 0xA702, 0xA801, 0xA900, 0xAA00, 0xAA01,
                          0xAA02, 0xAA03, 0xAA04, 0xC000, 0xC0AA, 0xCFFF], cancel=[0xFE00], pending=[0xFF00],
                 exc=[0xC511], nostatus=[0xC001], badtype=[0xC002], unenc=[],
                 badcount=[0xC513], toomany=[0xC516], nodest=[0xC514], baddest=[0xC515], unknowndest=[0xA801]),
    # DIMSE-N: general statuses of PS3.7 as listed in the N-* tables of the service documentation
    "n": dict(success=[0x0000], warning=[0x0107, 0x0116],
              failure=[0x0105, 0x0106, 0x0110, 0x0112, 0x0114, 0x0115, 0x0117, 0x0118, 0x0119, 0x0120, 0x0121, 0x0123,
                       0x0124, 0x0210, 0x0211, 0x0212, 0x0213], cancel=[], pending=[],
              exc=[0x0110], nostatus=[0xC001], badtype=[0xC002], unenc=[0x0110]),
}
# class specific N statuses from the docs (added to the "n" family per service)
N_SPECIFIC = {
    "print": dict(warning=[0xB600, 0xB601, 0xB602, 0xB603, 0xB604, 0xB609, 0xB60A], failure=[0xC600, 0xC601, 0xC602, 0xC603, 0xC613]),
    "mpps": dict(warning=[], failure=[]),
    "commit": dict(warning=[], failure=[]),
    "ups": dict(warning=[0x0001, 0xB300, 0xB301, 0xB304, 0xB305, 0xB306],
                failure=[0xC300, 0xC301, 0xC302, 0xC307, 0xC308, 0xC310, 0xC311, 0xC312, 0xC313, 0xC315]),
    "display": dict(warning=[], failure=[]),
    "ian": dict(warning=[], failure=[]),
    "media": dict(warning=[0x0001], failure=[0xA510, 0xC201, 0xC202, 0xC203]),
    "appevent": dict(warning=[0xB101, 0xB102, 0xB104], failure=[0xC101, 0xC102, 0xC103, 0xC104, 0xC10E, 0xC110, 0xC111]),
    "rt": dict(warning=[], failure=[0xC112, 0xC221, 0xC222, 0xC223, 0xC224, 0xC225, 0xC226, 0xC227]),
    "storagemgmt": dict(warning=[], failure=[]),
}

UNKNOWN_INTS = [0x0003, 0x1234, 0x0FFF, 0xD000, 0xFFFE, 0x00FF]
# Warning-class codes of PS3.7 / other services (not in every service's documented table)
FOREIGN_WARNINGS = [0x0001, 0x0107, 0x0116, 0xB000, 0xB001, 0xB006, 0xB300]
OUT_OF_RANGE_INTS = [-1, -0x8000, 0x10000, 70000, 2 ** 32]

_S = {}


def _svc(name, dimse, uid, family, sub=None):
    _S[name] = dict(name=name, dimse=dimse, uid=uid, family=family, sub=sub)


_svc("echo", "C-ECHO", VERIF, "verification")
_svc("store-ct", "C-STORE", CT, "storage")
_svc("store-mr", "C-STORE", MR, "storage")
_svc("store-hp", "C-STORE", "1.2.840.10008.5.1.4.38.1", "nonpatient")
_svc("store-cp", "C-STORE", "1.2.840.10008.5.1.4.39.1", "nonpatient")
for _n, _u in [("patient", "1.2.840.10008.5.1.4.1.2.1.1"), ("study", "1.2.840.10008.5.1.4.1.2.2.1"),
               ("pso", "1.2.840.10008.5.1.4.1.2.3.1"), ("repo", REPOSITORY_QUERY)]:
    _svc("find-" + _n, "C-FIND", _u, "qr-find")
_svc("find-mwl", "C-FIND", "1.2.840.10008.5.1.4.31", "worklist")
_svc("find-relpat", "C-FIND", "1.2.840.10008.5.1.4.37.1", "relpat")
_svc("find-relpat-breast", "C-FIND", "1.2.840.10008.5.1.4.37.2", "relpat")
_svc("find-subst-prod", "C-FIND", "1.2.840.10008.5.1.4.41", "substance")
_svc("find-subst-appr", "C-FIND", "1.2.840.10008.5.1.4.42", "substance")
for _n, _u in [("hp", "1.2.840.10008.5.1.4.38"), ("cp", "1.2.840.10008.5.1.4.39"), ("it", "1.2.840.10008.5.1.4.43"),
               ("iat", "1.2.840.10008.5.1.4.44"), ("itg", "1.2.840.10008.5.1.4.45")]:
    _svc("find-" + _n, "C-FIND", _u + ".2", "qrlike-find")
    _svc("move-" + _n, "C-MOVE", _u + ".3", "move")
    _svc("get-" + _n, "C-GET", _u + ".4", "get")
for _n, _u in [("dpp", "1.2.840.10008.5.1.4.20")]:
    _svc("find-" + _n, "C-FIND", _u + ".1", "qrlike-find")
    _svc("move-" + _n, "C-MOVE", _u + ".2", "move")
    _svc("get-" + _n, "C-GET", _u + ".3", "get")
for _n, _u, _o in [("pa", "1.2.840.10008.5.1.4.1.1.200", 4), ("inv", "1.2.840.10008.5.1.4.1.1.201", 2)]:
    _svc("find-" + _n, "C-FIND", "%s.%d" % (_u, _o), "qrlike-find")
    _svc("move-" + _n, "C-MOVE", "%s.%d" % (_u, _o + 1), "move")
    _svc("get-" + _n, "C-GET", "%s.%d" % (_u, _o + 2), "get")
for _n, _u in [("ups-pull", "1.2.840.10008.5.1.4.34.6.3"), ("ups-watch", "1.2.840.10008.5.1.4.34.6.2"),
               ("ups-query", "1.2.840.10008.5.1.4.34.6.5")]:
    _svc("find-" + _n, "C-FIND", _u, "ups-find")
for _n, _k in [("patient", 1), ("study", 2), ("pso", 3)]:
    _svc("move-" + _n, "C-MOVE", "1.2.840.10008.5.1.4.1.2.%d.2" % _k, "move")
    _svc("get-" + _n, "C-GET", "1.2.840.10008.5.1.4.1.2.%d.3" % _k, "get")
_svc("move-cir", "C-MOVE", "1.2.840.10008.5.1.4.1.2.4.2", "move")
_svc("get-cir", "C-GET", "1.2.840.10008.5.1.4.1.2.4.3", "get")
_svc("get-nobulk", "C-GET", "1.2.840.10008.5.1.4.1.2.5.3", "get")
_N = {
    "N-GET": [("printer", "1.2.840.10008.5.1.1.16", "print"), ("mpps-ret", "1.2.840.10008.3.1.2.3.4", "mpps"),
              ("display", "1.2.840.10008.5.1.1.40", "display"), ("media", "1.2.840.10008.5.1.1.33", "media"),
              ("ups", "1.2.840.10008.5.1.4.34.6.3", "ups"), ("rt", "1.2.840.10008.5.1.4.34.8", "rt")],
    "N-SET": [("filmsession", "1.2.840.10008.5.1.1.1", "print"), ("mpps", "1.2.840.10008.3.1.2.3.3", "mpps"),
              ("ups", "1.2.840.10008.5.1.4.34.6.3", "ups"), ("rt", "1.2.840.10008.5.1.4.34.8", "rt")],
    "N-ACTION": [("filmsession", "1.2.840.10008.5.1.1.1", "print"), ("commit", "1.2.840.10008.1.20.1", "commit"),
                 ("evtlog", "1.2.840.10008.1.40", "appevent"), ("media", "1.2.840.10008.5.1.1.33", "media"),
                 ("ups", "1.2.840.10008.5.1.4.34.6.1", "ups"), ("rt", "1.2.840.10008.5.1.4.34.8", "rt"),
                 ("invcreate", "1.2.840.10008.5.1.4.1.1.201.5", "storagemgmt")],
    "N-CREATE": [("filmsession", "1.2.840.10008.5.1.1.1", "print"), ("mpps", "1.2.840.10008.3.1.2.3.3", "mpps"),
                 ("ian", "1.2.840.10008.5.1.4.33", "ian"), ("media", "1.2.840.10008.5.1.1.33", "media"),
                 ("ups", "1.2.840.10008.5.1.4.34.6.1", "ups"), ("rt", "1.2.840.10008.5.1.4.34.8", "rt")],
    "N-DELETE": [("filmsession", "1.2.840.10008.5.1.1.1", "print"), ("rt", "1.2.840.10008.5.1.4.34.8", "rt")],
    "N-EVENT-REPORT": [("printer", "1.2.840.10008.5.1.1.16", "print"), ("mpps-notif", "1.2.840.10008.3.1.2.3.5", "mpps"),
                       ("commit", "1.2.840.10008.1.20.1", "commit"), ("ups", "1.2.840.10008.5.1.4.34.6.4", "ups"),
                       ("rt", "1.2.840.10008.5.1.4.34.8", "rt"),
                       ("invcreate", "1.2.840.10008.5.1.4.1.1.201.5", "storagemgmt")],
}
for _d, _lst in _N.items():
    for _n, _u, _sub in _lst:
        _svc("%s-%s" % (_d.lower().replace("-", ""), _n), _d, _u, "n", _sub)
SERVICES = _S
ALL_UIDS = sorted({s["uid"] for s in SERVICES.values()})
GEN_DIMSE = ("C-FIND", "C-GET", "C-MOVE")
RSP_FIELD = {d: cmdset.COMMAND_FIELD[d + "-RSP"] for d in
             ("C-ECHO", "C-STORE", "C-FIND", "C-GET", "C-MOVE", "N-GET", "N-SET", "N-ACTION", "N-CREATE", "N-DELETE",
              "N-EVENT-REPORT")}
EVT_NAME = {"C-ECHO": "EVT_C_ECHO", "C-STORE": "EVT_C_STORE", "C-FIND": "EVT_C_FIND", "C-GET": "EVT_C_GET",
            "C-MOVE": "EVT_C_MOVE", "N-GET": "EVT_N_GET", "N-SET": "EVT_N_SET", "N-ACTION": "EVT_N_ACTION",
            "N-CREATE": "EVT_N_CREATE", "N-DELETE": "EVT_N_DELETE", "N-EVENT-REPORT": "EVT_N_EVENT_REPORT"}
# optional status elements (PS3.7 Annex C) usable per response type
STATUS_EXTRAS = {"C-ECHO": ["ErrorComment"], "C-STORE": ["ErrorComment", "OffendingElement"],
                 "C-FIND": ["ErrorComment", "OffendingElement"], "C-GET": ["ErrorComment", "OffendingElement"],
                 "C-MOVE": ["ErrorComment", "OffendingElement"], "N-GET": ["ErrorComment", "ErrorID", "AttributeIdentifierList"],
                 "N-SET": ["ErrorComment", "ErrorID", "AttributeIdentifierList"], "N-ACTION": ["ErrorComment", "ErrorID"],
                 "N-CREATE": ["ErrorComment", "ErrorID"], "N-DELETE": ["ErrorComment", "ErrorID"],
                 "N-EVENT-REPORT": ["ErrorComment", "ErrorID"]}


def family_of(svc):
    s = SERVICES[svc]
    fam = {k: list(v) for k, v in FAMILIES[s["family"]].items()}
    if s["sub"]:
        for k, v in N_SPECIFIC[s["sub"]].items():
            fam[k] = fam[k] + v
    return fam


def is_final_status(svc, status):
    """What a conformant requestor treats as the final response (PS3.7 + the Repository Query exception that
    pynetdicom's own SCU implements)."""
    if status in PENDING:
        return False
    if status == 0xB001 and SERVICES[svc]["uid"] == REPOSITORY_QUERY:
        return False
    return True


class ScriptedError(Exception):
    pass

_ScriptedErrorClass = ScriptedError


# ----------------------------------------------------------------------------------------------- data sets

def inst_uid(k):
    return INST_ROOT + str(k + 1)


def canon(ds):
    """Canonical, JSON-able form of a pydicom Dataset: [[tag, VR, value], ...] in tag order."""
    out = []
    for elem in ds:
        if elem.VR == "SQ":
            val = [canon(item) for item in elem.value]
        else:
            v = elem.value
            if isinstance(v, (bytes, bytearray)):
                val = bytes(v).hex()
            elif isinstance(v, (list, tuple)) or type(v).__name__ == "MultiValue":
                val = [str(x) for x in v]
                if len(val) == 0:
                    val = ""
                elif len(val) == 1:
                    val = val[0]
            else:
                val = "" if v is None else str(v)
        out.append([int(elem.tag), elem.VR, val])
    return out


def build_dataset(spec, ts="implicit"):
    """-> (object handed to pynetdicom, canonical form or None when it is not a valid non-empty Dataset)."""
    from pydicom.dataset import Dataset
    t = spec["t"]
    if t == "none":
        return None, None
    if t == "empty":
        return Dataset(), None
    if t == "str":
        return "not a dataset", None
    if t == "int":
        return 1234, None
    if t == "unenc":
        ds = Dataset()
        ds.PatientID = "UNENC"
        with warnings.catch_warnings():
            warnings.simplefilter("ignore")
            ds.add_new(0x00280010, "US", "not a number")
        return ds, None
    if t == "valid":
        k = spec.get("k", 0)
        ds = Dataset()
        ds.QueryRetrieveLevel = "PATIENT"
        ds.PatientName = "Test^Pat%d" % k
        ds.PatientID = "ID" + "7" * (k % 5)
        ds.StudyInstanceUID = "1.2.3.%d" % (k + 1)
        ds.Rows = 100 + k
        ds.NumberOfPatientRelatedStudies = k
        if k % 2:
            it = Dataset()
            it.ReferencedSOPClassUID = CT
            it.ReferencedSOPInstanceUID = "1.2.3.4.%d" % k
            ds.ReferencedStudySequence = [it]
        if k % 3 == 2:
            ds.OtherPatientIDs = ["A%d" % k, "BB"]     # multi-valued LO
        return ds, canon(ds)
    if t in ("inst", "inst-nouid", "inst-noclass", "inst-nometa"):
        from pydicom.dataset import FileMetaDataset
        k = spec.get("k", 0)
        ds = Dataset()
        if t != "inst-nometa":
            ds.file_meta = FileMetaDataset()
            ds.file_meta.TransferSyntaxUID = TS[ts]
        ds.PatientName = "Inst^%d" % k
        ds.PatientID = "P%d" % k
        if t != "inst-noclass":
            ds.SOPClassUID = CT
        if t != "inst-nouid":
            ds.SOPInstanceUID = inst_uid(k)
        ds.Rows = 8 + k
        return ds, canon(ds)
    if t == "faillist":
        ds = Dataset()
        ds.FailedSOPInstanceUIDList = list(spec.get("uids", []))
        return ds, canon(ds)
    raise ValueError("unknown dataset spec %r" % (spec,))


def build_status(spec):
    from pydicom.dataset import Dataset
    t = spec["t"]
    if t == "int":
        return spec["v"]
    if t == "intenum":
        import enum
        return enum.IntEnum("HandlerStatus", {"VALUE": spec["v"]}).VALUE      # an int subclass, like pynetdicom.status.Status
    if t == "ds":
        ds = Dataset()
        ds.Status = spec["v"]
        for kw, v in (spec.get("x") or {}).items():
            if kw in ("OffendingElement", "AttributeIdentifierList"):
                setattr(ds, kw, [int(x) for x in v])
            else:
                setattr(ds, kw, v)
        return ds
    if t == "ds-nostatus":
        ds = Dataset()
        ds.ErrorComment = "no status here"
        return ds
    if t == "none":
        return None
    if t == "str":
        return "0x0000"
    if t == "float":
        return 0.0
    if t == "list":
        return [0]
    raise ValueError("unknown status spec %r" % (spec,))


def resolve_status(spec):
    """What the spec means, independent of pynetdicom: ('code', int, extras) | ('nostatus',) | ('badtype',)."""
    t = spec["t"]
    if t in ("int", "intenum"):
        return ("code", spec["v"], {})
    if t == "ds":
        return ("code", spec["v"], dict(spec.get("x") or {}))
    if t == "ds-nostatus":
        return ("nostatus",)
    return ("badtype",)


def build_raw(spec):
    t = spec["t"]
    if t == "none":
        return None
    if t == "int":
        return spec.get("v", 0)
    if t == "str":
        return "abc"
    if t == "tuple1":
        return (0x0000,)
    if t == "tuple3":
        return (0x0000, None, None)
    if t == "list-pairs":
        return [(0xFF00, build_dataset({"t": "valid", "k": 1})[0]), (0x0000, None)]
    if t == "empty-list":
        return []
    raise ValueError(spec)


def build_count(v):
    if isinstance(v, dict):
        return {"none": None, "str": "three", "numstr": "2", "float": 2.5, "list": [2], "big": 65536}[v["t"]]
    return v


def build_dest(v, port):
    if v == "scp":
        return ("127.0.0.1", port)
    if v == "scp-kwargs":
        return ("127.0.0.1", port, {})
    if v == "none":
        return (None, None)
    if v == "none3":
        return (None, None, None)
    if v == "closed":
        return ("127.0.0.1", port)          # caller passes a closed port
    if v == "bad-none":
        return None
    if v == "bad-str":
        return "127.0.0.1"
    if v == "bad-int":
        return 104
    if v == "bad-tuple1":
        return ("127.0.0.1",)
    if v == "bad-port":
        return ("127.0.0.1", "not-a-port")
    if v == "bad-addr":
        return (12, port)
    raise ValueError(v)


# ----------------------------------------------------------------------------------------------- handlers

class HLog:
    def __init__(self):
        self.lock = threading.Lock()
        self.events = []
        self.t0 = time.time()

    def add(self, *ev):
        with self.lock:
            self.events.append([round(time.time() - self.t0, 3)] + list(ev))


def make_handler(case, log, dest_port):
    """The scripted handler of the service under test (first invocation only; later invocations return Success)."""
    h = case["h"]
    dimse = SERVICES[case["svc"]]["dimse"]
    status_only = dimse in ("C-ECHO", "C-STORE", "N-DELETE")
    state = {"calls": 0}

    def first():
        state["calls"] += 1
        return state["calls"] == 1

    def fallback():
        if dimse in GEN_DIMSE:
            return iter([(0x0000, None)]) if dimse == "C-FIND" else iter([0])
        return 0x0000 if status_only else (0x0000, None)

    kind = h["kind"]
    # what a scripted "raise" raises: an ordinary Exception, or one of the BaseException-only classes a handler can end with
    # (sys.exit() in a handler, Ctrl-C delivered to it)
    exc_cls = {"SystemExit": SystemExit, "KeyboardInterrupt": KeyboardInterrupt}.get(case.get("exc_class"))

    def ScriptedError(msg):        # noqa: N802 - shadows the module-level class on purpose
        return exc_cls(msg) if exc_cls is not None else _ScriptedErrorClass(msg)
    if kind == "gen":
        def gen_handler(event):
            if not first():
                log.add("extra-call")
                yield from fallback()
                return
            log.add("call")
            for i, st in enumerate(h["steps"]):
                if "raise" in st:
                    log.add("raise", i)
                    raise ScriptedError("scripted exception at step %d" % i)
                if "abort" in st:
                    log.add("abort", i)
                    event.assoc.abort()
                    continue
                if "release" in st:
                    log.add("release", i)
                    event.assoc.release()
                    log.add("release-returned", i)
                    continue
                if "raw" in st:
                    log.add("yield", i)
                    yield build_raw(st["raw"])
                elif "count" in st:
                    log.add("yield", i)
                    yield build_count(st["count"])
                elif "dest" in st:
                    log.add("yield", i)
                    yield build_dest(st["dest"], dest_port)
                else:
                    s = build_status(st["s"])
                    d, _ = build_dataset(st["d"], "implicit" if dimse == "C-MOVE" else case["ts"])
                    if case.get("slow_yields"):
                        time.sleep(case["slow_yields"])
                    log.add("yield", i)
                    yield (s, d)
                log.add("resumed", i)
            if h.get("end") == "raise":
                log.add("raise", len(h["steps"]))
                raise ScriptedError("scripted exception after the last yield")
            log.add("exhausted")
        return gen_handler

    def handler(event):
        if not first():
            log.add("extra-call")
            return fallback()
        log.add("call")
        if kind == "raise":
            log.add("raise", 0)
            raise ScriptedError("scripted exception")
        if kind == "abort":
            log.add("abort", 0)
            event.assoc.abort()
            return fallback()
        if kind == "release":
            log.add("release", 0)
            event.assoc.release()
            log.add("release-returned", 0)
            return fallback()
        if case.get("file_action") and dimse == "C-STORE":
            # chunked-receive mode: what a storing handler does with the temporary file the data set was written to
            import os
            import shutil
            path = getattr(event, "dataset_path", None)
            act = case["file_action"]
            log.add("file-" + act, 1 if path and os.path.exists(str(path)) else 0)
            if path and os.path.exists(str(path)):
                if act == "delete":
                    os.unlink(str(path))
                elif act == "move":
                    shutil.move(str(path), str(path) + ".archived")
                    os.unlink(str(path) + ".archived")
                elif act == "read":
                    with open(str(path), "rb") as f_:
                        f_.read()
        if kind == "ret-raw":
            log.add("return")
            return build_raw(h["raw"])
        s = build_status(h["s"])
        log.add("return")
        if status_only:
            return s
        d, _ = build_dataset(h["d"])
        return (s, d)
    return handler


def make_dest_handler(outcomes, log):
    """C-STORE handler of the real move-destination SCP."""
    state = {"n": 0}

    def handler(event):
        i = state["n"]
        state["n"] += 1
        out = outcomes[i] if i < len(outcomes) else "ok"
        uid = None
        try:
            uid = str(event.request.AffectedSOPInstanceUID)
        except Exception:
            pass
        log.add("dest-store", i, uid, out)
        if out == "ok":
            return 0x0000
        if out.startswith("st:"):
            return int(out[3:], 16)
        if out == "raise":
            raise ScriptedError("destination handler raises")
        if out == "abort":
            event.assoc.abort()
            return 0x0000
        return 0x0000
    return handler


# ----------------------------------------------------------------------------------------------- send_msg tap
_TAP = {"installed": False, "log": [], "lock": threading.Lock()}


def install_send_tap():
    if _TAP["installed"]:
        return
    _TAP["installed"] = True
    from pynetdicom import dimse
    orig = dimse.DIMSEServiceProvider.send_msg

    def send_msg(self, primitive, context_id):
        rec = dict(acceptor=bool(self.assoc.is_acceptor), cls=type(primitive).__name__, ctx=context_id,
                   status=getattr(primitive, "Status", None),
                   mid_rsp=getattr(primitive, "MessageIDBeingRespondedTo", None), exc=None)
        try:
            return orig(self, primitive, context_id)
        except BaseException as e:
            rec["exc"] = "%s: %s" % (type(e).__name__, str(e)[:120])
            raise
        finally:
            with _TAP["lock"]:
                _TAP["log"].append(rec)

    dimse.DIMSEServiceProvider.send_msg = send_msg


def setup_worker():
    warnings.simplefilter("ignore")
    harness.quiet_logging()
    taps.install()
    install_send_tap()
    install_scp_tap()


# ----------------------------------------------------------------------------------------------- peer side codec

def enc_ds(ds, ts):
    from pydicom.filebase import DicomBytesIO
    from pydicom.filewriter import write_dataset
    fp = DicomBytesIO()
    fp.is_implicit_VR = ts == "implicit"
    fp.is_little_endian = ts != "big"
    write_dataset(fp, ds)
    b = fp.getvalue()
    if ts == "deflated":
        c = zlib.compressobj(zlib.Z_DEFAULT_COMPRESSION, zlib.DEFLATED, -zlib.MAX_WBITS)
        b = c.compress(b) + c.flush()
        if len(b) % 2:
            b += b"\0"
    return b


def dec_ds(b, ts):
    """Decode response data-set bytes with pydicom alone -> canonical form (raises on undecodable)."""
    from pydicom.filereader import read_dataset
    if ts == "deflated":
        b = zlib.decompress(b, -zlib.MAX_WBITS)
    ds = read_dataset(io.BytesIO(b), ts == "implicit", ts != "big")
    return canon(ds)


def request_identifier(k=0):
    from pydicom.dataset import Dataset
    ds = Dataset()
    ds.QueryRetrieveLevel = "PATIENT"
    ds.PatientID = "*"
    ds.PatientName = "Q%d" % k
    return ds


def build_request(case, ctx_uid):
    """-> (command dict, data-set bytes or None)"""
    s = SERVICES[case["svc"]]
    d = s["dimse"]
    mid = case["msg_id"]
    ts = case["ts"]
    rq = case.get("rq") or {}
    inst = "1.2.826.0.1.3680043.9.3811.30.1"
    ident = enc_ds(request_identifier(mid % 7), ts)
    if d == "C-ECHO":
        return cmdset.make("C-ECHO-RQ", AffectedSOPClassUID=ctx_uid, MessageID=mid), None
    if d == "C-STORE":
        ds, _ = build_dataset({"t": "inst", "k": 40})
        ds.SOPClassUID = ctx_uid
        return cmdset.make("C-STORE-RQ", AffectedSOPClassUID=ctx_uid, AffectedSOPInstanceUID=inst_uid(40), MessageID=mid,
                           Priority=rq.get("prio", 0), CommandDataSetType=1), enc_ds(ds, ts)
    if d in ("C-FIND", "C-GET"):
        return cmdset.make(d + "-RQ", AffectedSOPClassUID=ctx_uid, MessageID=mid, Priority=rq.get("prio", 0),
                           CommandDataSetType=1), ident
    if d == "C-MOVE":
        return cmdset.make("C-MOVE-RQ", AffectedSOPClassUID=ctx_uid, MessageID=mid, Priority=rq.get("prio", 0),
                           MoveDestination="DEST-SCP", CommandDataSetType=1), ident
    body = enc_ds(build_dataset({"t": "valid", "k": 3})[0], ts)
    if d == "N-GET":
        kw = {}
        if rq.get("ail"):
            kw["AttributeIdentifierList"] = [(0x0010, 0x0010), (0x0010, 0x0020)]
        return cmdset.make("N-GET-RQ", RequestedSOPClassUID=ctx_uid, RequestedSOPInstanceUID=inst, MessageID=mid, **kw), None
    if d == "N-SET":
        return cmdset.make("N-SET-RQ", RequestedSOPClassUID=ctx_uid, RequestedSOPInstanceUID=inst, MessageID=mid,
                           CommandDataSetType=1), body
    if d == "N-ACTION":
        with_ds = rq.get("with_ds", True)
        return cmdset.make("N-ACTION-RQ", RequestedSOPClassUID=ctx_uid, RequestedSOPInstanceUID=inst, MessageID=mid,
                           ActionTypeID=rq.get("type_id", 1), CommandDataSetType=1 if with_ds else 0x0101), (body if with_ds else None)
    if d == "N-CREATE":
        with_ds = rq.get("with_ds", True)
        return cmdset.make("N-CREATE-RQ", AffectedSOPClassUID=ctx_uid, AffectedSOPInstanceUID=inst, MessageID=mid,
                           CommandDataSetType=1 if with_ds else 0x0101), (body if with_ds else None)
    if d == "N-DELETE":
        return cmdset.make("N-DELETE-RQ", RequestedSOPClassUID=ctx_uid, RequestedSOPInstanceUID=inst, MessageID=mid), None
    if d == "N-EVENT-REPORT":
        with_ds = rq.get("with_ds", True)
        return cmdset.make("N-EVENT-REPORT-RQ", AffectedSOPClassUID=ctx_uid, AffectedSOPInstanceUID=inst, MessageID=mid,
                           EventTypeID=rq.get("type_id", 1), CommandDataSetType=1 if with_ds else 0x0101), (body if with_ds else None)
    raise ValueError(d)


# ----------------------------------------------------------------------------------------------- scenario
WAIT = 4.0          # seconds to wait for the next message while the request is unanswered
QUIET = 0.35        # silence after the final response that ends the observation
TIMEOUTS = (1.5, 1.5, 3.0, 1.5)   # acse, dimse, network, connection


def _free_closed_port():
    import socket
    s = socket.socket()
    s.bind(("127.0.0.1", 0))
    p = s.getsockname()[1]
    s.close()
    return p


def _record(m, t0, ts):
    cmd = m["cmd"] or {}
    rec = dict(t=round(time.time() - t0, 3), ctx=m["ctx"], field=cmd.get("CommandField"),
               name=cmdset.FIELD_NAME.get(cmd.get("CommandField"), "?"),
               status=cmd.get("Status"), mid_rsp=cmd.get("MessageIDBeingRespondedTo"), mid=cmd.get("MessageID"),
               rem=cmd.get("NumberOfRemainingSuboperations"), comp=cmd.get("NumberOfCompletedSuboperations"),
               fail=cmd.get("NumberOfFailedSuboperations"), warn=cmd.get("NumberOfWarningSuboperations"),
               ec=cmd.get("ErrorComment"), oe=[list(x) for x in cmd["OffendingElement"]] if cmd.get("OffendingElement") else None,
               eid=cmd.get("ErrorID"),
               ail=[list(x) for x in cmd["AttributeIdentifierList"]] if cmd.get("AttributeIdentifierList") else None,
               cdst=cmd.get("CommandDataSetType"), sop_inst=cmd.get("AffectedSOPInstanceUID"),
               sop_class=cmd.get("AffectedSOPClassUID"),
               has_data=m["data"] is not None, data_len=len(m["data"]) if m["data"] is not None else None,
               data=None, data_err=None, cmd_problems=[k for k in cmd if k.startswith("_")])
    if m["data"] is not None:
        try:
            rec["data"] = dec_ds(m["data"], ts)
        except Exception as e:
            rec["data_err"] = "%s: %s" % (type(e).__name__, str(e)[:100])
            rec["data_hex"] = m["data"][:64].hex()
    return rec


def run_scenario(case):
    """Execute one case; returns the observation dict (JSON-able)."""
    from pynetdicom import evt
    svc = SERVICES[case["svc"]]
    dimse = svc["dimse"]
    ts = case["ts"]
    taps.reset()
    with _TAP["lock"]:
        _TAP["log"] = []
    with _SCP_TAP["lock"]:
        _SCP_TAP["log"] = []
    log = HLog()
    from pynetdicom import _config
    prev_chunked, prev_ctxv = _config.STORE_RECV_CHUNKED_DATASET, _config.PASS_CONTEXTVARS
    _config.STORE_RECV_CHUNKED_DATASET = bool(case.get("recv_chunked"))
    _config.PASS_CONTEXTVARS = bool(case.get("contextvars"))       # read when the AE's threads are created
    try:
        return _run_scenario(case, svc, dimse, ts, log)
    finally:
        _config.STORE_RECV_CHUNKED_DATASET, _config.PASS_CONTEXTVARS = prev_chunked, prev_ctxv


def _run_scenario(case, svc, dimse, ts, log):
    from pynetdicom import evt
    obs = dict(msgs=[], subops=[], end=None, abort=None, live=None, hlog=None, inconclusive=None, accepted=None,
               release_rsp=None)
    all_ts = list(TS.values())
    dest_ae = None
    dest_port = 0
    dest_kind = case.get("dest", "scp")
    ae = None
    peer = None
    t0 = time.time()
    try:
        if dimse == "C-MOVE":
            if dest_kind in ("scp", "scp-kwargs"):
                dest_ae = harness.make_ae("DEST-SCP", timeouts=TIMEOUTS, supported=[(CT, all_ts)])
                _, dest_port = harness.start_server(
                    dest_ae, [(evt.EVT_C_STORE, make_dest_handler(case.get("subops") or [], log))])
            else:
                dest_port = _free_closed_port()
        supported = []
        for uid in ALL_UIDS:
            if uid == CT:
                supported.append(dict(abstract_syntax=uid, transfer_syntax=all_ts, scu_role=True, scp_role=True))
            else:
                supported.append((uid, all_ts))
        ae = harness.make_ae("VERIF-SCP", timeouts=TIMEOUTS, supported=supported, requested=[(CT, [TS["implicit"]])])
        handlers = [(getattr(evt, EVT_NAME[dimse]), make_handler(case, log, dest_port))]
        server, port = harness.start_server(ae, handlers)

        cx_echo, cx_svc, cx_store = case["cx"]
        pcs = [{"id": cx_echo, "abs": VERIF, "ts": [TS[ts]]}]
        if svc["uid"] == VERIF:
            cx_svc = cx_echo
        elif svc["uid"] == CT:
            cx_svc = cx_store
        else:
            pcs.append({"id": cx_svc, "abs": svc["uid"], "ts": [TS[ts]]})
        pcs.append({"id": cx_store, "abs": CT, "ts": [TS[ts]]})
        pcs.sort(key=lambda p: p["id"])
        rq = ps38.make_rq(called="VERIF-SCP", calling="PEER", pcs=pcs,
                          extra_ui=[{"k": "role", "uid": CT, "scu": 1, "scp": 1}])
        peer = Peer.connect(port)
        ac = peer.associate(rq)
        if not ac or ac.get("type") != "AC":
            obs["inconclusive"] = "association not accepted: %r" % (ac and ac.get("type"))
            return obs
        obs["accepted"] = {str(k): v for k, v in peer.accepted.items()}
        if cx_svc not in peer.accepted or cx_echo not in peer.accepted or cx_store not in peer.accepted:
            obs["inconclusive"] = "needed context not accepted: %r" % (obs["accepted"],)
            return obs

        cmd, data = build_request(case, svc["uid"])
        t0 = time.time()
        log.t0 = t0
        peer.send_dimse(cx_svc, cmd, data)
        outcomes = list(case.get("subops") or [])
        final_seen = False
        n_sub = 0
        while True:
            m = peer.recv_dimse(QUIET if final_seen else WAIT)
            if m is None:
                obs["end"] = "quiet" if final_seen else "timeout"
                break
            if m["type"] == "DIMSE":
                cf = (m["cmd"] or {}).get("CommandField")
                if cf == cmdset.COMMAND_FIELD["C-STORE-RQ"]:
                    out = outcomes[n_sub] if n_sub < len(outcomes) else "ok"
                    rec = _record(m, t0, ts)
                    rec["outcome"] = out
                    rec["index"] = n_sub
                    rec["after_final"] = final_seen
                    obs["subops"].append(rec)
                    n_sub += 1
                    if out == "abort":
                        peer.abort(0, 0)
                        obs["end"] = "peer-abort"
                        break
                    if out in ("silent", "raise"):
                        continue
                    st = 0 if out == "ok" else int(out[3:], 16)
                    peer.send_dimse(m["ctx"], cmdset.make(
                        "C-STORE-RSP", AffectedSOPClassUID=m["cmd"].get("AffectedSOPClassUID", CT),
                        AffectedSOPInstanceUID=m["cmd"].get("AffectedSOPInstanceUID", "1.2.3"),
                        MessageIDBeingRespondedTo=m["cmd"].get("MessageID", 0), Status=st))
                    continue
                rec = _record(m, t0, ts)
                rec["after_final"] = final_seen
                obs["msgs"].append(rec)
                if rec["status"] is not None and is_final_status(case["svc"], rec["status"]):
                    final_seen = True
                continue
            if m["type"] == "RELRQ":
                peer.send_pdu({"type": "RELRP"})
                obs["end"] = "released-by-acceptor"
                break
            if m["type"] == "ABORT":
                obs["end"] = "aborted-by-acceptor"
                obs["abort"] = {"source": m.get("source"), "reason": m.get("reason")}
                break
            if m["type"] == "EOF":
                obs["end"] = "eof"
                break
            obs["end"] = "unexpected-pdu:" + str(m["type"])
            break

        # liveness control: a following C-ECHO with another message id
        if obs["end"] in ("quiet", "timeout"):
            live_id = (case["msg_id"] + 7) % 65536
            live = dict(sent=True, status=None, others=0, end=None)
            peer.send_dimse(cx_echo, cmdset.c_echo_rq(live_id))
            t_end = time.time() + 3.0
            while time.time() < t_end:
                m = peer.recv_dimse(max(0.05, t_end - time.time()))
                if m is None:
                    live["end"] = "timeout"
                    break
                if m["type"] != "DIMSE":
                    live["end"] = m["type"]
                    if m["type"] == "RELRQ":
                        peer.send_pdu({"type": "RELRP"})
                    break
                rec = _record(m, t0, ts)
                if rec["field"] == cmdset.COMMAND_FIELD["C-ECHO-RSP"] and rec["mid_rsp"] == live_id and rec["ctx"] == cx_echo:
                    live["status"] = rec["status"]
                    live["end"] = "answered"
                    break
                rec["after_final"] = final_seen
                rec["during_liveness"] = True
                obs["msgs"].append(rec)
                live["others"] += 1
            obs["live"] = live
            if live["end"] == "answered":
                r = peer.release(2.0)
                obs["release_rsp"] = r.get("type") if r else None
    finally:
        obs["wall"] = round(time.time() - t0, 3)
        try:
            if peer is not None:
                peer.close()
        except Exception:
            pass
        # let the acceptor finish the handler before the AEs are torn down
        if ae is not None:
            harness.wait_for(lambda: not any(a.is_alive() for a in list(taps.State.assocs)), timeout=2.5)
            harness.stop_ae(ae, 3.0)
        if dest_ae is not None:
            harness.stop_ae(dest_ae, 3.0)
        with log.lock:
            obs["hlog"] = list(log.events)
        with _TAP["lock"]:
            obs["sent_tap"] = [r for r in _TAP["log"]]
        with _SCP_TAP["lock"]:
            obs["scp_excs"] = list(_SCP_TAP["log"])
        # harness self-check: every response the acceptor handed to send_msg without an exception reached the peer
        prim = dimse.replace("-", "_")
        sent = [r for r in obs["sent_tap"] if r["acceptor"] and r["cls"] == prim and r["mid_rsp"] is not None and not r["exc"]]
        if dimse == "C-ECHO":
            sent = [r for r in sent if r["mid_rsp"] != (case["msg_id"] + 7) % 65536 or
                    not (obs.get("live") or {}).get("end") == "answered"]
        got = [m for m in obs["msgs"] if m["field"] == RSP_FIELD[dimse]]
        obs["tap_sent"] = len(sent)
        if obs["end"] == "quiet" and (obs.get("live") or {}).get("end") == "answered" and len(sent) != len(got) \
                and not obs["inconclusive"]:
            obs["inconclusive"] = "harness: acceptor sent %d response(s), peer recorded %d" % (len(sent), len(got))
        obs["excs"] = [dict(type=e["type"], where=e["where"], text=e["text"][:120]) for e in taps.State.excs]
    return obs


# ----------------------------------------------------------------------------------------------- case generation

MSG_IDS = [0, 1, 2, 255, 256, 0x7FFF, 0x8000, 65534, 65535]


def _pick_status(rng, fam, dimse, weights=None):
    """A status spec drawn over the grammar's classes."""
    classes = ["success", "failure", "warning", "cancel", "pending", "unknown", "range", "ds", "ds-extra", "ds-nostatus", "bad"]
    w = weights or [3, 3, 2, 1, 4, 1, 1, 2, 2, 1, 1]
    c = rng.choices(classes, w)[0]
    r = rng.random()
    if r < 0.06:
        return {"t": "int", "v": rng.choice(FOREIGN_WARNINGS)}
    if r < 0.075:
        cat = rng.choice([k for k in ("success", "failure", "pending") if fam.get(k)])
        return {"t": "ds", "v": rng.choice(fam[cat]), "x": {"MessageIDBeingRespondedTo": rng.choice([1, 4242])}}

    def code_of(cat):
        pool = fam.get(cat) or []
        if not pool:
            pool = fam["failure"]
        return rng.choice(pool)
    if c in ("success", "failure", "warning", "cancel", "pending"):
        if not fam.get(c):
            c = "failure"
        return {"t": "intenum" if rng.random() < 0.12 else "int", "v": code_of(c)}
    if c == "unknown":
        return {"t": "int", "v": rng.choice(UNKNOWN_INTS)}
    if c == "range":
        return {"t": "int", "v": rng.choice(OUT_OF_RANGE_INTS)}
    if c == "ds":
        cat = rng.choice([k for k in ("success", "failure", "warning", "pending", "cancel") if fam.get(k)])
        return {"t": "ds", "v": code_of(cat)}
    if c == "ds-extra":
        cat = rng.choice([k for k in ("failure", "warning", "pending", "success") if fam.get(k)])
        x = {}
        for kw in STATUS_EXTRAS[dimse]:
            if rng.random() < 0.6:
                if kw == "ErrorComment":
                    x[kw] = rng.choice(["odd", "even", "A comment with spaces", "x" * 63, "y" * 64])
                elif kw == "ErrorID":
                    x[kw] = rng.choice([0, 1, 0x1234, 65535])
                else:
                    x[kw] = rng.choice([[0x00100010], [0x00100020, 0x0020000D], [0x7FE00010]])
        if not x:
            x["ErrorComment"] = "comment"
        return {"t": "ds", "v": code_of(cat), "x": x}
    if c == "ds-nostatus":
        return {"t": "ds-nostatus"}
    return {"t": rng.choice(["none", "str", "float", "list"])}


def _pick_ds(rng, k, for_pending=True):
    c = rng.choices(["valid", "none", "empty", "unenc", "str", "int"], [14, 2, 1, 1, 1, 1] if for_pending else [3, 6, 1, 1, 1, 0])[0]
    if c == "valid":
        return {"t": "valid", "k": k}
    return {"t": c}


def _pick_inst(rng, k):
    c = rng.choices(["inst", "inst-nouid", "inst-noclass", "inst-nometa", "none", "empty", "str", "int"],
                    [24, 4, 2, 1, 2, 2, 4, 2])[0]
    if c.startswith("inst"):
        return {"t": c, "k": k}
    return {"t": c}


def _gen_find_handler(rng, fam, dimse):
    r = rng.random()
    if r < 0.04:
        return {"kind": "raise"}
    if r < 0.08:
        return {"kind": "ret-raw", "raw": {"t": rng.choice(["none", "empty-list", "list-pairs", "int", "str"])}}
    n = rng.choice([0, 1, 1, 2, 2, 3, 3, 4, 5, 6])
    steps = []
    for i in range(n):
        q = rng.random()
        if q < 0.07:
            steps.append({"raise": 1})
            if rng.random() < 0.7:
                break
        elif q < 0.10:
            steps.append({"abort": 1})
        elif q < 0.12:
            steps.append({"release": 1})
        elif q < 0.16:
            steps.append({"raw": {"t": rng.choice(["none", "int", "str", "tuple1", "tuple3"])}})
        else:
            # mostly pending in the middle, anything at the end
            if i < n - 1 and rng.random() < 0.75:
                s = {"t": "intenum" if rng.random() < 0.08 else "int", "v": rng.choice(fam["pending"])}
            else:
                s = _pick_status(rng, fam, dimse)
            kind = resolve_status(s)
            pend = kind[0] == "code" and kind[1] in PENDING
            steps.append({"s": s, "d": _pick_ds(rng, i, for_pending=pend)})
    return {"kind": "gen", "steps": steps, "end": "raise" if rng.random() < 0.08 else "stop"}


SUBOP_OUTCOMES = ["ok", "ok", "ok", "st:B000", "st:B006", "st:B007", "st:A700", "st:C000", "st:0122", "st:1234"]


def _gen_retrieve_handler(rng, fam, dimse, focus):
    """-> (handler, subops, dest)"""
    r = rng.random()
    dest = "scp"
    f = 0.3 if focus == "retrieve" else 1.0     # C22 spends fewer cases on requests that never announce a count
    if r < 0.03 * f:
        return {"kind": "raise"}, [], dest
    if r < 0.06 * f:
        return {"kind": "ret-raw", "raw": {"t": rng.choice(["none", "empty-list", "int", "str"])}}, [], dest
    steps = []
    if dimse == "C-MOVE":
        q = rng.random()
        if q < 1 - 0.30 * f:
            dest = rng.choice(["scp", "scp", "scp", "scp-kwargs"])
        else:
            q2 = rng.random()
            if q2 < 0.27:
                dest = rng.choice(["none", "none3"])
            elif q2 < 0.47:
                dest = "closed"
            else:
                dest = rng.choice(["bad-none", "bad-str", "bad-int", "bad-tuple1", "bad-port", "bad-addr"])
        q = rng.random()
        if q < 0.04 * f:
            steps.append({"raise": 1})
            return {"kind": "gen", "steps": steps, "end": "stop"}, [], dest
        if q < 0.07 * f:
            return {"kind": "gen", "steps": [], "end": "stop"}, [], dest
        steps.append({"dest": dest})
    q = rng.random()
    if q < 0.03 * f:
        steps.append({"raise": 1})
        return {"kind": "gen", "steps": steps, "end": "stop"}, [], dest
    if q < 0.05 * f:
        return {"kind": "gen", "steps": steps, "end": "stop"}, [], dest
    if q < 0.13 * f:
        cnt = rng.choice([{"t": "none"}, {"t": "str"}, -1, -5, {"t": "list"}, {"t": "big"}])
    else:
        cnt = rng.choice([0, 1, 1, 2, 2, 3, 3, 4, 5])
    steps.append({"count": cnt})
    n_announced = cnt if isinstance(cnt, int) else 2
    # number of (status, dataset) steps: fewer / exactly / more than announced
    n = max(0, n_announced + rng.choice([-2, -1, 0, 0, 0, 0, 1, 2]))
    n = min(n, 6)
    subops = []
    for i in range(n):
        q = rng.random()
        if q < 0.05:
            steps.append({"raise": 1})
            if rng.random() < 0.7:
                break
        elif q < 0.07:
            steps.append({"abort": 1})
        elif q < 0.085:
            steps.append({"release": 1})
        elif q < 0.11:
            steps.append({"raw": {"t": rng.choice(["none", "int", "str", "tuple1", "tuple3"])}})
        elif q < 0.80:
            s = {"t": "int", "v": 0xFF00} if rng.random() < 0.85 else {"t": "ds", "v": 0xFF00, "x": {"ErrorComment": "pending note"}}
            steps.append({"s": s, "d": _pick_inst(rng, i)})
        else:
            s = _pick_status(rng, fam, dimse, [3, 4, 3, 4, 0, 1, 1, 2, 2, 1, 1])
            if rng.random() < 0.5:
                d = {"t": "faillist", "uids": [inst_uid(j) for j in range(rng.choice([0, 1, 2]))]}
            else:
                d = rng.choice([{"t": "none"}, {"t": "none"}, {"t": "empty"}, {"t": "str"}, {"t": "valid", "k": i}])
            steps.append({"s": s, "d": d})
    for i in range(8):
        o = rng.choice(SUBOP_OUTCOMES)
        if rng.random() < 0.04:
            o = "abort"
        elif dimse == "C-MOVE" and rng.random() < 0.05:
            o = "raise"
        elif dimse == "C-GET" and rng.random() < 0.015:
            o = "silent"
        subops.append(o)
    return {"kind": "gen", "steps": steps, "end": "raise" if rng.random() < 0.06 else "stop"}, subops, dest


def _gen_ret_handler(rng, fam, dimse):
    r = rng.random()
    if r < 0.08:
        return {"kind": "raise"}
    if r < 0.11:
        return {"kind": "abort"}
    if r < 0.13:
        return {"kind": "release"}
    status_only = dimse in ("C-ECHO", "C-STORE", "N-DELETE")
    if r < 0.19:
        raws = ["none", "str", "tuple1", "tuple3"] if not status_only else ["tuple1", "tuple3"]
        if not status_only:
            raws.append("int")
        return {"kind": "ret-raw", "raw": {"t": rng.choice(raws)}}
    s = _pick_status(rng, fam, dimse, [5, 4, 3, 0, 0, 1, 1, 2, 3, 1, 2])
    if status_only:
        return {"kind": "ret", "s": s, "d": {"t": "none"}}
    kind = resolve_status(s)
    wants = kind[0] == "code" and category(kind[1]) in ("success", "warning")
    return {"kind": "ret", "s": s, "d": _pick_ds(rng, rng.randrange(6), for_pending=wants)}


def gen_case(rng, svc_name, focus=None):
    svc = SERVICES[svc_name]
    dimse = svc["dimse"]
    fam = family_of(svc_name)
    case = {"svc": svc_name, "ts": rng.choices(["implicit", "explicit", "big", "deflated"], [4, 4, 1, 1])[0],
            "msg_id": rng.choice(MSG_IDS) if rng.random() < 0.7 else rng.randrange(65536)}
    ids = rng.sample(range(1, 256, 2), 3)
    case["cx"] = ids
    case["subops"] = []
    case["dest"] = "scp"
    if dimse == "C-FIND":
        case["h"] = _gen_find_handler(rng, fam, dimse)
    elif dimse in ("C-GET", "C-MOVE"):
        case["h"], case["subops"], case["dest"] = _gen_retrieve_handler(rng, fam, dimse, focus)
    else:
        case["h"] = _gen_ret_handler(rng, fam, dimse)
        case["rq"] = {"with_ds": rng.random() < 0.7, "type_id": rng.choice([1, 2, 3]), "ail": rng.random() < 0.5,
                      "prio": rng.choice([0, 1, 2])}
    return case


def service_names(dimse_types=None):
    return [n for n, s in SERVICES.items() if dimse_types is None or s["dimse"] in dimse_types]


def _P(svc, h, msg_id=7, ts="implicit", cx=(1, 3, 5), subops=(), dest="scp"):
    return {"svc": svc, "ts": ts, "msg_id": msg_id, "cx": list(cx), "h": h, "subops": list(subops), "dest": dest,
            "pinned": True}


def _pend(k, x=None):
    return {"s": {"t": "ds", "v": 0xFF00, "x": x} if x else {"t": "int", "v": 0xFF00}, "d": {"t": "valid", "k": k}}


def _pinst(k):
    return {"s": {"t": "int", "v": 0xFF00}, "d": {"t": "inst", "k": k}}


# Seed-independent witnesses run first in every tier: minimal witnesses of the defects found with these monitors
# (so that a listed finding reproduces in every run) and regression guards for the ones already repaired in /repo.
PINNED = [
    # Warning status of the service's table must be final (was: non-final in _c_find_scp) / Repository Query exception
    _P("find-patient", {"kind": "gen", "steps": [{"s": {"t": "int", "v": 0xB001}, "d": {"t": "none"}}, _pend(1)], "end": "stop"}, 0),
    _P("find-ups-pull", {"kind": "gen", "steps": [_pend(0), {"s": {"t": "int", "v": 0x0001}, "d": {"t": "none"}}, _pend(1)], "end": "stop"}, 65535, "explicit", (201, 203, 9)),
    _P("find-repo", {"kind": "gen", "steps": [_pend(0), {"s": {"t": "int", "v": 0xB001}, "d": {"t": "none"}}], "end": "stop"}, 256),
    # Relevant Patient Information Query SCP must answer a Warning status (was: no response at all)
    _P("find-relpat", {"kind": "gen", "steps": [{"s": {"t": "int", "v": 0x0107}, "d": {"t": "none"}}], "end": "stop"}),
    # Relevant Patient Information Query: the final Success must not carry the Pending response's Identifier / elements
    _P("find-relpat", {"kind": "gen", "steps": [_pend(0, {"ErrorComment": "only for the match"})], "end": "stop"}, 10, "explicit"),
    # wrong-shaped handler results / status outside 0..65535: no final response (A-ABORT)
    _P("nget-printer", {"kind": "ret-raw", "raw": {"t": "int", "v": 0}}),
    _P("find-study", {"kind": "gen", "steps": [_pend(0), {"raw": {"t": "tuple1"}}], "end": "stop"}),
    _P("echo", {"kind": "ret", "s": {"t": "int", "v": -1}, "d": {"t": "none"}}),
    # status data set elements that are not status elements overwrite the response's own fields
    _P("echo", {"kind": "ret", "s": {"t": "ds", "v": 0, "x": {"MessageIDBeingRespondedTo": 4242}}, "d": {"t": "none"}}),
    # optional status elements leak into later responses
    _P("find-study", {"kind": "gen", "steps": [_pend(0, {"ErrorComment": "only for match 1"}), _pend(1)], "end": "stop"}, 8, "explicit"),
    # documented failure codes
    _P("store-ct", {"kind": "raise"}, 65535),
    _P("find-mwl", {"kind": "gen", "steps": [_pend(2), {"raise": 1}], "end": "stop"}, 0, "big"),
    _P("nset-mpps", {"kind": "ret", "s": {"t": "ds-nostatus"}, "d": {"t": "none"}}),
    # an int subclass (IntEnum, like the documented pynetdicom.status.Status constants) is an integer status
    _P("store-mr", {"kind": "ret", "s": {"t": "intenum", "v": 0xB000}, "d": {"t": "none"}}, 11),
    _P("find-pso", {"kind": "gen", "steps": [{"s": {"t": "intenum", "v": 0xFF00}, "d": {"t": "valid", "k": 1}},
                                             {"s": {"t": "intenum", "v": 0xFE00}, "d": {"t": "none"}}], "end": "stop"}, 12),
]
PINNED_RETRIEVE = [
    # an object that is no Dataset must consume one of the N announced sub-operations
    _P("get-patient", {"kind": "gen", "steps": [{"count": 2}, {"s": {"t": "int", "v": 0xFF00}, "d": {"t": "str"}}, _pinst(1), _pinst(2)], "end": "stop"}, 9),
    _P("move-study", {"kind": "gen", "steps": [{"dest": "scp"}, {"count": 2}, _pinst(0), {"s": {"t": "int", "v": 0xFF00}, "d": {"t": "int"}}, _pinst(2)], "end": "stop"}, 65535),
    # all N failed -> 0xA702 with both instances listed; mixed -> 0xB000; none -> 0x0000
    _P("get-study", {"kind": "gen", "steps": [{"count": 2}, _pinst(0), _pinst(1)], "end": "stop"}, 0, "explicit", (1, 3, 5), ["st:A700", "st:C000"]),
    _P("move-patient", {"kind": "gen", "steps": [{"dest": "scp"}, {"count": 3}, _pinst(0), _pinst(1), _pinst(2)], "end": "stop"}, 1, "implicit", (7, 9, 11), ["ok", "st:B000", "raise"]),
    _P("get-cir", {"kind": "gen", "steps": [{"count": 2}, _pinst(0), _pinst(1), _pinst(2)], "end": "stop"}, 2),
    # handler-supplied Cancel / Failure finals (with the handler's own FailedSOPInstanceUIDList)
    _P("get-pso", {"kind": "gen", "steps": [{"count": 3}, _pinst(0), {"s": {"t": "int", "v": 0xFE00}, "d": {"t": "none"}}, _pinst(2)], "end": "stop"}, 3),
    _P("move-cir", {"kind": "gen", "steps": [{"dest": "scp"}, {"count": 3}, _pinst(0), {"s": {"t": "int", "v": 0xFE00}, "d": {"t": "none"}}], "end": "stop"}, 4),
    _P("move-hp", {"kind": "gen", "steps": [{"dest": "scp"}, {"count": 2}, _pinst(0), {"s": {"t": "int", "v": 0xA702}, "d": {"t": "faillist", "uids": [INST_ROOT + "2"]}}], "end": "stop"}, 5, "implicit", (1, 3, 5), ["st:A700"]),
    _P("get-hp", {"kind": "gen", "steps": [{"count": 2}, _pinst(0), {"s": {"t": "int", "v": 0xB000}, "d": {"t": "none"}}], "end": "stop"}, 6, "explicit", (1, 3, 5), ["st:C000"]),
]


def _has_scripted_raise(h):
    return h.get("kind") == "raise" or (h.get("kind") == "gen" and (h.get("end") == "raise" or any("raise" in st for st in h.get("steps", []))))


def _assign_exception_classes(cases, seed, pid, tier):
    """A third of the handlers that raise do so with a BaseException-only class (what sys.exit() / Ctrl-C in a handler give)."""
    from .common import rng_for
    rng = rng_for(seed, pid, "exc-class", tier)
    for c in cases:
        if _has_scripted_raise(c["h"]) and rng.random() < 0.34:
            c["exc_class"] = rng.choice(["SystemExit", "KeyboardInterrupt"])
    return cases


def _assign_chunked_receive(cases, seed, pid, tier):
    """Half of the C-STORE requests are received in chunked mode, with a handler that leaves / reads / moves / deletes the file."""
    from .common import rng_for
    rng = rng_for(seed, pid, "recv-chunked", tier)
    for c in cases:
        if SERVICES[c["svc"]]["dimse"] == "C-STORE" and rng.random() < 0.5:
            c["recv_chunked"] = True
            c["file_action"] = rng.choice(["leave", "read", "move", "delete"])
    return cases


def _assign_early_destination_abort(cases, seed, pid, tier):
    """A quarter of the C-MOVE handlers that yield three or more instances lose their move destination during the first or second
    sub-operation (it aborts), so that further results are yielded while the store association is already gone."""
    from .common import rng_for
    rng = rng_for(seed, pid, "dest-abort", tier)
    for c in cases:
        h = c["h"]
        if SERVICES[c["svc"]]["dimse"] != "C-MOVE" or h.get("kind") != "gen" or not c.get("subops"):
            continue
        n_inst = sum(1 for st in h["steps"] if isinstance(st.get("d"), dict) and str(st["d"].get("t", "")).startswith("inst"))
        if n_inst >= 3 and rng.random() < 0.25:
            c["subops"] = list(c["subops"])
            c["subops"][rng.choice([0, 1])] = "abort"
            c["slow_yields"] = 0.08        # the handler takes a moment per result: the lost association has been noticed by then
    return cases


def _assign_contextvars(cases, seed, pid, tier):
    """A fifth of the cases (half of the N-EVENT-REPORT ones, which are served in a thread of their own) run with
    _config.PASS_CONTEXTVARS = True."""
    from .common import rng_for
    rng = rng_for(seed, pid, "contextvars", tier)
    for c in cases:
        p_ = 0.5 if SERVICES[c["svc"]]["dimse"] == "N-EVENT-REPORT" else 0.2
        if rng.random() < p_:
            c["contextvars"] = True
    return cases


def gen_cases(tier, seed, pid, focus=None):
    return _assign_contextvars(_gen_cases_b(tier, seed, pid, focus), seed, pid, tier)


def _gen_cases_b(tier, seed, pid, focus=None):
    return _assign_early_destination_abort(_assign_chunked_receive_and_exc(tier, seed, pid, focus), seed, pid, tier)


def _assign_chunked_receive_and_exc(tier, seed, pid, focus=None):
    return _assign_chunked_receive(_assign_exception_classes(_gen_cases(tier, seed, pid, focus), seed, pid, tier), seed, pid, tier)


def _gen_cases(tier, seed, pid, focus=None):
    """Shared design.  focus None: all services (weighted towards the generator services); 'retrieve': C-GET/C-MOVE."""
    from .common import rng_for
    import copy
    rng = rng_for(seed, pid, "cases", tier)
    n = 500 if tier == "quick" else 6000
    names_all = service_names()
    finds = service_names(("C-FIND",))
    retr = service_names(("C-GET", "C-MOVE"))
    rest = [x for x in names_all if x not in finds and x not in retr]
    cases = copy.deepcopy(PINNED_RETRIEVE if focus == "retrieve" else PINNED + PINNED_RETRIEVE)
    if focus == "retrieve":
        i = 0
        while len(cases) < n:
            cases.append(gen_case(rng, retr[i % len(retr)] if i < 2 * len(retr) else rng.choice(retr), focus))
            i += 1
        return cases
    # every service at least twice, then weighted random
    for nm in names_all:
        for _ in range(2):
            cases.append(gen_case(rng, nm, focus))
    rest_types = sorted({SERVICES[x]["dimse"] for x in rest})
    while len(cases) < n:
        r = rng.random()
        if r < 0.40:
            pool = finds
        elif r < 0.68:
            pool = retr
        else:
            t = rng.choice(rest_types)          # C-ECHO, C-STORE and each DIMSE-N service equally often
            pool = [x for x in rest if SERVICES[x]["dimse"] == t]
        cases.append(gen_case(rng, rng.choice(pool), focus))
    return cases


# ----------------------------------------------------------------------------------------------- SCP exception tap
_SCP_TAP = {"installed": False, "log": [], "lock": threading.Lock()}


def install_scp_tap():
    """Observe exceptions leaving ServiceClass.SCP (association.py catches them, logs and aborts)."""
    if _SCP_TAP["installed"]:
        return
    _SCP_TAP["installed"] = True
    import traceback
    from pynetdicom import service_class, service_class_n

    def wrap(cls):
        orig = cls.__dict__["SCP"]

        def SCP(self, req, context):
            try:
                return orig(self, req, context)
            except BaseException as e:
                where = "?"
                for fr in reversed(traceback.extract_tb(e.__traceback__)):
                    if "pynetdicom" in fr.filename and "/verif/" not in fr.filename:
                        where = fr.name
                        break
                with _SCP_TAP["lock"]:
                    _SCP_TAP["log"].append(dict(type=type(e).__name__, where=where, text=str(e)[:160]))
                raise
        SCP.__wrapped__ = orig
        cls.SCP = SCP

    seen = set()
    for mod in (service_class, service_class_n):
        for name in dir(mod):
            c = getattr(mod, name)
            if isinstance(c, type) and issubclass(c, service_class.ServiceClass) and "SCP" in c.__dict__ and c not in seen:
                seen.add(c)
                wrap(c)


# ----------------------------------------------------------------------------------------------- reference model
# What the documentation promises for a handler behaviour (pure function of the case; never imports pynetdicom).
# Each expected response: dict(kind pending|nonfinal|final, status=set|None, cls=label, extras=dict|None,
#   data=None (must be absent) | "any" | canonical list, counters=(rem, comp, fail, warn)|None, failed=[uids]|None,
#   computed=bool (final status derived from the counters), built_list=bool (pynetdicom builds the failed list))

# Named quirks the reference walk can emulate (explain-by-quirk classification of C22 discrepancies):
#   invalid-object-keeps-remaining: a yielded (Pending, <object that is no Dataset>) increments *failed* but does not
#     consume one of the N announced sub-operations (remaining stays), so counters overshoot N, results beyond N are
#     still processed, and the state "all N failed while remaining > 0" becomes reachable (there a handler-supplied
#     Success gives 0xB000, end of results gives 0xA702 - both accepted under the quirk).
QUIRKS = ("invalid-object-keeps-remaining",)


def storage_outcome_class(out):
    """PS3.4 B.2.3 classes of a C-STORE response status."""
    if out == "ok":
        return "success"
    if out in ("raise", "abort", "silent"):
        return "failure"
    code = int(out[3:], 16)
    if code == 0:
        return "success"
    if code in (0xB000, 0xB006, 0xB007):
        return "warning"
    return "failure"


def _status_expect(fam, st):
    """-> (status set, label, extras, code or None) for one resolved status."""
    if st[0] == "nostatus":
        return set(fam["nostatus"]), "ds-without-status", {}, None
    if st[0] == "badtype":
        return set(fam["badtype"]), "bad-status-type", {}, None
    code = st[1]
    known = any(code in fam.get(c, []) for c in ("success", "warning", "failure", "cancel", "pending"))
    lab = ("int" if not st[2] else "ds-extras") + ("-known" if known else "-unknown")
    return {code}, lab, dict(st[2]), code


def model(case, quirks=frozenset()):
    svc = SERVICES[case["svc"]]
    dimse = svc["dimse"]
    fam = family_of(case["svc"])
    h = case["h"]
    out = dict(skip=None, exp=[], disturbed=False, open=False, n=None, note=None, subs=[], classes=set())
    exp = out["exp"]
    kind = h["kind"]

    def final(status, cls, extras=None, data=None, **kw):
        exp.append(dict(kind="final", status=set(status) if status is not None else None, cls=cls,
                        extras={} if extras is None else extras, data=data, counters=kw.get("counters"),
                        failed=kw.get("failed"), computed=kw.get("computed", False), built_list=kw.get("built_list", False)))

    if kind in ("abort", "release"):
        out["disturbed"] = True
        return out

    # ------------------------------------------------------------------ single-response services
    if dimse not in GEN_DIMSE:
        status_only = dimse in ("C-ECHO", "C-STORE", "N-DELETE")
        if kind == "raise":
            final(fam["exc"], "handler-exception")
            return out
        if kind == "ret-raw":
            if status_only:
                final(fam["badtype"], "bad-status-type")
            else:
                out["open"] = True
                out["note"] = "undocumented-return-shape"
            return out
        st = resolve_status(h["s"])
        sset, lab, extras, code = _status_expect(fam, st)
        if code is not None and not 0 <= code <= 0xFFFF:
            out["open"] = True
            out["note"] = "status-out-of-range"
            return out
        if status_only:
            final(sset, lab, extras)
            return out
        d = h["d"]
        documented_ok = code is not None and (code in fam["success"] or code in fam["warning"])
        if code is None or not documented_ok:
            # failure / unknown status (or C001/C002): no data set promised; if one is sent it must be the handler's
            dcanon = build_dataset(d)[1] if d["t"] == "valid" else None
            if code is not None and category(code) in ("success", "warning") and d["t"] in ("unenc", "str", "int"):
                sset = sset | set(fam["unenc"])     # Warning-class code not listed for the service: either reading
                extras = None
            final(sset, lab, extras, data=("any-or", dcanon))
            if extras is None:
                exp[-1]["extras"] = None
            return out
        if d["t"] == "valid":
            final(sset, lab, extras, data=build_dataset(d)[1])
        elif d["t"] in ("none", "empty"):
            final(sset, lab, extras, data=None)
        else:
            final(fam["unenc"], "unencodable-dataset", None, data=None)
            exp[-1]["extras"] = None
        return out

    # ------------------------------------------------------------------ generator services
    if kind == "raise":
        final(fam["exc"], "handler-exception")
        return out
    if kind == "ret-raw":
        t = h["raw"]["t"]
        if dimse == "C-FIND" and t == "empty-list":
            final({0x0000}, "exhausted", computed=True)
        elif dimse == "C-FIND" and t == "list-pairs" and svc["family"] != "relpat":
            exp.append(dict(kind="pending", status={0xFF00}, cls="int-known", extras={},
                            data=build_dataset({"t": "valid", "k": 1})[1], counters=None, failed=None))
            final({0x0000}, "int-known")
        else:
            out["open"] = True
            out["note"] = "undocumented-return-shape"
        return out
    steps = list(h["steps"])
    end_raise = h.get("end") == "raise"

    if dimse == "C-FIND":
        relpat = svc["family"] == "relpat"
        repo = svc["uid"] == REPOSITORY_QUERY
        for st_ in steps:
            if "raise" in st_:
                final(fam["exc"], "handler-exception")
                return out
            if "abort" in st_ or "release" in st_:
                out["disturbed"] = True
                return out
            if "raw" in st_ or "count" in st_ or "dest" in st_:
                out["open"] = True
                out["note"] = "undocumented-yield-shape"
                return out
            st = resolve_status(st_["s"])
            sset, lab, extras, code = _status_expect(fam, st)
            if code is None:
                final(sset, lab)
                return out
            if not 0 <= code <= 0xFFFF:
                out["open"] = True
                out["note"] = "status-out-of-range"
                return out
            if code in PENDING:
                d = st_["d"]
                if d["t"] == "valid":
                    exp.append(dict(kind="pending", status=sset, cls=lab, extras=extras, data=build_dataset(d)[1],
                                    counters=None, failed=None))
                    if relpat:
                        final({0x0000}, "relpat-single-match", computed=True)
                        return out
                    continue
                if d["t"] == "empty":
                    # an empty Dataset is a Dataset: delivered as such or refused as not encodable - both documented
                    exp.append(dict(kind="pending", status=sset | set(fam["unenc"]), cls="empty-dataset", extras=None,
                                    data="any", counters=None, failed=None))
                    out["open"] = True
                    out["note"] = "empty-identifier"
                    return out
                final(fam["unenc"], "unencodable-dataset")
                exp[-1]["extras"] = None
                return out
            if code == 0xB001 and repo:
                exp.append(dict(kind="nonfinal", status=sset, cls=lab, extras=extras, data="any", counters=None, failed=None))
                continue
            final(sset, lab, extras, data="any" if st_["d"]["t"] not in ("none",) else None)
            return out
        if end_raise:
            final(fam["exc"], "handler-exception")
        else:
            final({0x0000}, "exhausted", computed=True)
        return out

    # ------------------------------------------------------------------ C-GET / C-MOVE
    is_move = dimse == "C-MOVE"
    pos = 0
    subops = list(case.get("subops") or [])
    if is_move:
        if pos >= len(steps):
            final(set(fam["nodest"]) | (set(fam["exc"]) if end_raise else set()), "no-destination")
            return out
        st_ = steps[pos]
        pos += 1
        if "raise" in st_:
            final(set(fam["nodest"]) | set(fam["exc"]), "no-destination")
            return out
        if "dest" not in st_:
            out["open"] = True
            out["note"] = "undocumented-yield-shape"
            return out
        dest = st_["dest"]
        if dest in ("none", "none3"):
            final(fam["unknowndest"], "unknown-destination")
            return out
    else:
        dest = None
    # count
    if pos >= len(steps):
        s = set(fam["badcount"]) | (set(fam["exc"]) if end_raise else set())
        if is_move:
            s |= set(fam["nodest"])
            if dest.startswith("bad-"):
                s |= set(fam["baddest"])
        final(s, "no-count")
        return out
    st_ = steps[pos]
    pos += 1
    if "raise" in st_:
        s = set(fam["badcount"]) | set(fam["exc"])
        if is_move:
            s |= set(fam["nodest"])
            if dest.startswith("bad-"):
                s |= set(fam["baddest"])
        final(s, "no-count")
        return out
    if "count" not in st_:
        out["open"] = True
        out["note"] = "undocumented-yield-shape"
        return out
    cnt = st_["count"]
    bad_dest = is_move and dest.startswith("bad-")
    if isinstance(cnt, dict):
        if cnt["t"] in ("numstr", "float"):
            out["open"] = True
            out["note"] = "ambiguous-count"
            return out
        s = set(fam["toomany"]) if cnt["t"] == "big" else set(fam["badcount"])
        if bad_dest:
            s |= set(fam["baddest"])
        final(s, "too-many" if cnt["t"] == "big" else "bad-count")
        return out
    if cnt < 0:
        s = set(fam["badcount"]) | {0x0000}
        if bad_dest:
            s |= set(fam["baddest"])
        final(s, "negative-count")
        return out
    n = cnt
    out["n"] = n
    if bad_dest:
        final(set(fam["baddest"]) | ({0x0000} if n == 0 else set()), "bad-destination")
        return out
    if n == 0:
        final({0x0000}, "zero-count", counters=(None, 0, 0, 0), computed=True)
        return out
    if is_move and dest == "closed":
        final(fam["unknowndest"], "unreachable-destination")
        return out

    rem, comp, fail, warn = n, 0, 0, 0
    failed = []
    n_sub = 0
    dest_dead = False

    def computed_final(cls, explicit_success=False, extras=None):
        if fail == 0 and warn == 0:
            s = {0x0000}
        elif fail >= n:
            s = {0xA702}
            if "invalid-object-keeps-remaining" in quirks and (explicit_success or fail > n):
                s = {0xA702, 0xB000}
        else:
            s = {0xB000}
        final(s, cls, extras, counters=(None, comp, fail, warn), failed=list(failed), computed=True,
              built_list=bool(fail or warn), data=None if not (fail or warn) else "faillist")

    for st_ in steps[pos:]:
        if "abort" in st_ or "release" in st_:
            out["disturbed"] = True
            return out
        if "raw" in st_ or "count" in st_ or "dest" in st_:
            out["open"] = True
            out["note"] = "undocumented-yield-shape"
            return out
        if rem <= 0:
            out["classes"].add("more-than-announced")
            continue            # further results are ignored once the sub-operations are complete
        if "raise" in st_:
            final(fam["exc"], "handler-exception", counters=None, failed=list(failed), built_list=True, data="faillist")
            return out
        st = resolve_status(st_["s"])
        sset, lab, extras, code = _status_expect(fam, st)
        d = st_["d"]
        if code is None:
            final(sset, lab, counters=None, failed=list(failed), built_list=d["t"] != "faillist",
                  data=build_dataset(d)[1] if d["t"] == "faillist" else "faillist")
            return out
        if not 0 <= code <= 0xFFFF:
            out["open"] = True
            out["note"] = "status-out-of-range"
            return out
        if code in PENDING:
            t = d["t"]
            if t in ("none", "empty"):
                continue        # nothing to send: assumed to be skipped silently
            if t == "inst":
                if dest_dead:
                    cls_ = "failure"
                else:
                    o = subops[n_sub] if n_sub < len(subops) else "ok"
                    n_sub += 1
                    out["subs"].append(inst_uid(d.get("k", 0)))
                    out["classes"].add("subop-" + (o if o in ("ok", "abort", "raise", "silent") else storage_outcome_class(o)))
                    cls_ = storage_outcome_class(o)
                    if o == "abort":
                        if is_move:
                            dest_dead = True
                        else:
                            out["disturbed"] = True
                            return out
                    if o == "silent" and not is_move:
                        out["disturbed"] = True
                        return out
                if cls_ == "success":
                    comp += 1
                elif cls_ == "warning":
                    warn += 1
                else:
                    fail += 1
                    failed.append(inst_uid(d.get("k", 0)))
                rem -= 1
            elif t in ("inst-nouid", "inst-noclass", "inst-nometa", "faillist", "valid", "unenc"):
                # a Dataset that cannot be sent as a C-STORE sub-operation: that sub-operation failed
                out["classes"].add("unsendable-instance")
                fail += 1
                if t in ("inst-noclass", "inst-nometa"):
                    failed.append(inst_uid(d.get("k", 0)))
                rem -= 1
            else:               # not a Dataset at all
                out["classes"].add("invalid-object")
                fail += 1
                if "invalid-object-keeps-remaining" not in quirks:
                    rem -= 1
            exp.append(dict(kind="pending", status=sset, cls=lab, extras=extras, data=None,
                            counters=(rem, comp, fail, warn), failed=None))
            continue
        if code == 0x0000:
            computed_final("explicit-success", explicit_success=True, extras=extras)
            return out
        # failure / warning / cancel / unknown status supplied by the handler: final with that status; its own
        # FailedSOPInstanceUIDList data set is promised to arrive only with a status documented for the service
        documented = any(code in fam.get(c_, []) for c_ in ("failure", "warning", "cancel"))
        final(sset, lab, extras, counters=None, failed=list(failed), built_list=d["t"] != "faillist",
              data=(build_dataset(d)[1] if documented else "any") if d["t"] == "faillist" else "faillist")
        return out
    if end_raise and rem > 0:
        final(fam["exc"], "handler-exception", counters=None, failed=list(failed), built_list=True, data="faillist")
        return out
    if rem > 0:
        out["classes"].add("fewer-than-announced")
    computed_final("exhausted")
    return out


def last_result_class(case, obs):
    """Semantic class of the handler result the SCP was processing last (for mechanism keys; never an input value)."""
    h = case["h"]

    def sclass(sp):
        st = resolve_status(sp)
        if st[0] == "code" and not 0 <= st[1] <= 0xFFFF:
            return "status-out-of-range"
        return None
    if h["kind"] == "ret-raw":
        return "undocumented-return-shape"
    if h["kind"] == "ret":
        return sclass(h["s"]) or "documented-behaviour"
    if h["kind"] != "gen":
        return "documented-behaviour"
    last = None
    for e in obs.get("hlog") or []:
        if len(e) > 2 and e[1] == "yield":
            last = e[2]
    if last is None or last >= len(h["steps"]):
        return "documented-behaviour"
    st = h["steps"][last]
    if "raw" in st:
        return "undocumented-yield-shape"
    if "s" in st:
        return sclass(st["s"]) or "documented-behaviour"
    return "documented-behaviour"


def responses_of(obs):
    """The recorded response messages (everything that is not a C-STORE sub-operation request)."""
    return obs["msgs"]


def hlog_has(obs, what):
    return any(len(e) > 1 and e[1] == what for e in obs.get("hlog") or [])


def disturbed_by_handler_or_peer(obs):
    """The handler or the scripted peer aborted / released the association (observed, not assumed)."""
    if hlog_has(obs, "abort") or hlog_has(obs, "release"):
        return "handler"
    if obs.get("end") == "peer-abort":
        return "peer"
    if any(s.get("outcome") == "silent" for s in obs.get("subops") or []):
        return "peer"
    return None
