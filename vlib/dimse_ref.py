"""REFERENCE model of the DIMSE message layer (PS3.7), independent of pynetdicom.

Written from DICOM PS3.7 2024: section 6.3.1 (message = command set [+ data set], command set
encoded Implicit VR Little Endian, group 0000 only, ascending tags, CommandGroupLength = number of
bytes following it), sections 9.3.x / 10.3.x (fields of the 23 DIMSE-C / DIMSE-N messages and the
CommandField values), Annex C (status-related fields), Annex E (command dictionary), and PS3.8
Annex E (PDV message control header: bit0 = command(1)/data(0), bit1 = last fragment).

This module must never import pynetdicom.  It uses `struct` for the byte layout and pydicom for
decoding element values (`parse_command_set`), so an encoder/decoder pair in the code under test
that is wrong in a symmetric way still disagrees with this module.

Public API
    MESSAGE_TYPES             name -> MsgType (command_field, direction, service, fields, dataset parameter)
    COMMAND_FIELDS            CommandField value -> name
    ELEMENTS                  keyword -> (tag, VR, VM)
    NO_DATA_SET = 0x0101
    encode_command_set(values)                 keyword->value  ->  bytes (CommandGroupLength computed)
    walk_command_set(data)                     -> ([(tag, raw value bytes)], problems)   struct only
    parse_command_set(data, problems=None)     -> dict keyword->value                     pydicom only
    reassemble(pdv_list)                       -> Messages (list of dicts, `.problems`)
    fragment(context_id, cmd, ds, max_pdu)     -> pdv_list (reference fragmenter, used by self tests / peers)
"""
from __future__ import annotations

import struct
from collections import namedtuple
from io import BytesIO

NO_DATA_SET = 0x0101

# --------------------------------------------------------------------------- PS3.7 Annex E
# keyword -> (tag, VR, VM)
ELEMENTS = {
    "CommandGroupLength": (0x00000000, "UL", "1"),
    "AffectedSOPClassUID": (0x00000002, "UI", "1"),
    "RequestedSOPClassUID": (0x00000003, "UI", "1"),
    "CommandField": (0x00000100, "US", "1"),
    "MessageID": (0x00000110, "US", "1"),
    "MessageIDBeingRespondedTo": (0x00000120, "US", "1"),
    "MoveDestination": (0x00000600, "AE", "1"),
    "Priority": (0x00000700, "US", "1"),
    "CommandDataSetType": (0x00000800, "US", "1"),
    "Status": (0x00000900, "US", "1"),
    "OffendingElement": (0x00000901, "AT", "1-n"),
    "ErrorComment": (0x00000902, "LO", "1"),
    "ErrorID": (0x00000903, "US", "1"),
    "AffectedSOPInstanceUID": (0x00001000, "UI", "1"),
    "RequestedSOPInstanceUID": (0x00001001, "UI", "1"),
    "EventTypeID": (0x00001002, "US", "1"),
    "AttributeIdentifierList": (0x00001005, "AT", "1-n"),
    "ActionTypeID": (0x00001008, "US", "1"),
    "NumberOfRemainingSuboperations": (0x00001020, "US", "1"),
    "NumberOfCompletedSuboperations": (0x00001021, "US", "1"),
    "NumberOfFailedSuboperations": (0x00001022, "US", "1"),
    "NumberOfWarningSuboperations": (0x00001023, "US", "1"),
    "MoveOriginatorApplicationEntityTitle": (0x00001030, "AE", "1"),
    "MoveOriginatorMessageID": (0x00001031, "US", "1"),
}
TAG_TO_KEYWORD = {t: k for k, (t, _, _) in ELEMENTS.items()}
ALWAYS_PRESENT = ("CommandGroupLength", "CommandField", "CommandDataSetType")

# --------------------------------------------------------------------------- PS3.7 9.3 / 10.3
# usage: M mandatory, U user option, C conditional, S status-related (Annex C)
MsgType = namedtuple("MsgType", "name command_field direction service fields dataset dataset_usage")


def _mt(name, cf, fields, dataset=None, usage=None):
    direction = "RSP" if name.endswith("-RSP") else "RQ"
    service = name[: name.rfind("-")]
    flds = tuple((f.split(":")[0], f.split(":")[1]) for f in fields.split())
    return MsgType(name, cf, direction, service, flds, dataset, usage)


_SUBOPS = ("NumberOfRemainingSuboperations:C NumberOfCompletedSuboperations:C "
           "NumberOfFailedSuboperations:C NumberOfWarningSuboperations:C ")

_TABLE = [
    # ---- DIMSE-C (PS3.7 9.3.1 - 9.3.5)
    _mt("C-STORE-RQ", 0x0001,
        "AffectedSOPClassUID:M MessageID:M Priority:M AffectedSOPInstanceUID:M "
        "MoveOriginatorApplicationEntityTitle:U MoveOriginatorMessageID:U", "DataSet", "M"),
    _mt("C-STORE-RSP", 0x8001,
        "AffectedSOPClassUID:U MessageIDBeingRespondedTo:M Status:M AffectedSOPInstanceUID:U "
        "OffendingElement:S ErrorComment:S"),
    _mt("C-FIND-RQ", 0x0020, "AffectedSOPClassUID:M MessageID:M Priority:M", "Identifier", "M"),
    _mt("C-FIND-RSP", 0x8020,
        "AffectedSOPClassUID:U MessageIDBeingRespondedTo:M Status:M OffendingElement:S ErrorComment:S",
        "Identifier", "C"),
    _mt("C-GET-RQ", 0x0010, "AffectedSOPClassUID:M MessageID:M Priority:M", "Identifier", "M"),
    _mt("C-GET-RSP", 0x8010,
        "AffectedSOPClassUID:U MessageIDBeingRespondedTo:M Status:M " + _SUBOPS +
        "OffendingElement:S ErrorComment:S", "Identifier", "C"),
    _mt("C-MOVE-RQ", 0x0021, "AffectedSOPClassUID:M MessageID:M Priority:M MoveDestination:M",
        "Identifier", "M"),
    _mt("C-MOVE-RSP", 0x8021,
        "AffectedSOPClassUID:U MessageIDBeingRespondedTo:M Status:M " + _SUBOPS +
        "OffendingElement:S ErrorComment:S", "Identifier", "C"),
    _mt("C-ECHO-RQ", 0x0030, "AffectedSOPClassUID:M MessageID:M"),
    _mt("C-ECHO-RSP", 0x8030, "AffectedSOPClassUID:U MessageIDBeingRespondedTo:M Status:M ErrorComment:S"),
    _mt("C-CANCEL-RQ", 0x0FFF, "MessageIDBeingRespondedTo:M"),
    # ---- DIMSE-N (PS3.7 10.3.1 - 10.3.6)
    _mt("N-EVENT-REPORT-RQ", 0x0100,
        "AffectedSOPClassUID:M MessageID:M AffectedSOPInstanceUID:M EventTypeID:M", "EventInformation", "U"),
    _mt("N-EVENT-REPORT-RSP", 0x8100,
        "AffectedSOPClassUID:U MessageIDBeingRespondedTo:M Status:M AffectedSOPInstanceUID:U EventTypeID:C "
        "ErrorComment:S ErrorID:S", "EventReply", "C"),
    _mt("N-GET-RQ", 0x0110,
        "RequestedSOPClassUID:M MessageID:M RequestedSOPInstanceUID:M AttributeIdentifierList:U"),
    _mt("N-GET-RSP", 0x8110,
        "AffectedSOPClassUID:U MessageIDBeingRespondedTo:M Status:M AffectedSOPInstanceUID:U "
        "AttributeIdentifierList:S ErrorComment:S ErrorID:S", "AttributeList", "C"),
    _mt("N-SET-RQ", 0x0120, "RequestedSOPClassUID:M MessageID:M RequestedSOPInstanceUID:M",
        "ModificationList", "M"),
    _mt("N-SET-RSP", 0x8120,
        "AffectedSOPClassUID:U MessageIDBeingRespondedTo:M Status:M AffectedSOPInstanceUID:U "
        "AttributeIdentifierList:S ErrorComment:S ErrorID:S", "AttributeList", "U"),
    _mt("N-ACTION-RQ", 0x0130,
        "RequestedSOPClassUID:M MessageID:M RequestedSOPInstanceUID:M ActionTypeID:M", "ActionInformation", "U"),
    _mt("N-ACTION-RSP", 0x8130,
        "AffectedSOPClassUID:U MessageIDBeingRespondedTo:M Status:M AffectedSOPInstanceUID:U ActionTypeID:C "
        "ErrorComment:S ErrorID:S", "ActionReply", "C"),
    _mt("N-CREATE-RQ", 0x0140, "AffectedSOPClassUID:M MessageID:M AffectedSOPInstanceUID:U", "AttributeList", "U"),
    _mt("N-CREATE-RSP", 0x8140,
        "AffectedSOPClassUID:U MessageIDBeingRespondedTo:M Status:M AffectedSOPInstanceUID:C "
        "ErrorComment:S ErrorID:S", "AttributeList", "U"),
    _mt("N-DELETE-RQ", 0x0150, "RequestedSOPClassUID:M MessageID:M RequestedSOPInstanceUID:M"),
    _mt("N-DELETE-RSP", 0x8150,
        "AffectedSOPClassUID:U MessageIDBeingRespondedTo:M Status:M AffectedSOPInstanceUID:U "
        "ErrorComment:S ErrorID:S"),
]
MESSAGE_TYPES = {m.name: m for m in _TABLE}
COMMAND_FIELDS = {m.command_field: m.name for m in _TABLE}
assert len(MESSAGE_TYPES) == 23 and len(COMMAND_FIELDS) == 23
# PS3.7 E.1: a response's CommandField is the request's with bit 15 set
for _m in _TABLE:
    if _m.direction == "RSP":
        assert MESSAGE_TYPES[_m.service + "-RQ"].command_field | 0x8000 == _m.command_field


def field_keywords(name):
    """Keywords of the command elements message `name` may carry (without the 3 always-present ones)."""
    return [k for k, _ in MESSAGE_TYPES[name].fields]


# --------------------------------------------------------------------------- encoder (struct only)

def _enc_value(keyword, value):
    tag, vr, vm = ELEMENTS[keyword]
    if vr == "US":
        if not (isinstance(value, int) and 0 <= value <= 0xFFFF):
            raise ValueError("%s: US out of range: %r" % (keyword, value))
        return struct.pack("<H", value)
    if vr == "UL":
        return struct.pack("<L", value)
    if vr == "AT":
        vals = [value] if isinstance(value, int) else list(value)
        out = b""
        for v in vals:
            v = int(v)
            out += struct.pack("<HH", (v >> 16) & 0xFFFF, v & 0xFFFF)
        return out
    if vr == "UI":
        b = str(value).encode("ascii")
        if len(b) > 64:
            raise ValueError("%s: UI longer than 64" % keyword)
        return b + (b"\x00" if len(b) % 2 else b"")
    if vr in ("AE", "LO"):
        b = str(value).encode("ascii")
        if len(b) > (16 if vr == "AE" else 64):
            raise ValueError("%s: %s too long" % (keyword, vr))
        return b + (b" " if len(b) % 2 else b"")
    raise ValueError(vr)


def encode_command_set(values):
    """Encode {keyword: value} (None values = absent) as a PS3.7 command set.  CommandGroupLength is
    computed; a supplied one is ignored."""
    body = b""
    for tag, kw in sorted((ELEMENTS[k][0], k) for k, v in values.items()
                          if v is not None and k != "CommandGroupLength"):
        val = _enc_value(kw, values[kw])
        body += struct.pack("<HHL", tag >> 16, tag & 0xFFFF, len(val)) + val
    return struct.pack("<HHLL", 0, 0, 4, len(body)) + body


def build_command_set(name, params, has_dataset):
    """Reference command set for message `name` with the given parameter values."""
    mt = MESSAGE_TYPES[name]
    allowed = set(field_keywords(name))
    vals = {k: v for k, v in params.items() if v is not None}
    extra = set(vals) - allowed
    if extra:
        raise ValueError("%s cannot carry %s" % (name, sorted(extra)))
    vals["CommandField"] = mt.command_field
    vals["CommandDataSetType"] = 0x0001 if has_dataset else NO_DATA_SET
    return encode_command_set(vals)


# --------------------------------------------------------------------------- decoders

def walk_command_set(data):
    """Structural walk with struct only.  Returns ([(tag, raw_value_bytes)], problems)."""
    data = bytes(data)
    problems = []
    elems = []
    off = 0
    last = -1
    while off < len(data):
        if off + 8 > len(data):
            problems.append("truncated-header: %d trailing bytes at %d" % (len(data) - off, off))
            break
        g, e, ln = struct.unpack_from("<HHL", data, off)
        tag = (g << 16) | e
        if ln == 0xFFFFFFFF:
            problems.append("undefined-length: tag %08x" % tag)
            break
        if off + 8 + ln > len(data):
            problems.append("truncated-value: tag %08x announces %d, %d left" % (tag, ln, len(data) - off - 8))
            break
        if g != 0:
            problems.append("not-group-0000: tag %08x" % tag)
        if tag <= last:
            problems.append("tag-order: %08x after %08x" % (tag, last))
        if ln % 2:
            problems.append("odd-length: tag %08x length %d" % (tag, ln))
        last = tag
        elems.append((tag, data[off + 8: off + 8 + ln]))
        off += 8 + ln
    if not elems or elems[0][0] != 0:
        problems.append("group-length-missing: first element is not (0000,0000)")
    else:
        raw = elems[0][1]
        if len(raw) != 4:
            problems.append("group-length-size: %d" % len(raw))
        else:
            announced = struct.unpack("<L", raw)[0]
            actual = len(data) - 12
            if announced != actual:
                problems.append("group-length-value: announces %d, %d bytes follow" % (announced, actual))
    return elems, problems


def _plain(keyword, value):
    """pydicom element value -> plain python (int / str / list[int] / None)."""
    vr = ELEMENTS.get(keyword, (None, None, None))[1]
    if value is None:
        return None
    if vr == "AT":
        if isinstance(value, (str, bytes)):
            return None if not value else value
        if isinstance(value, int):
            return [int(value)]
        vals = [int(v) for v in value]
        return vals or None
    if vr in ("US", "UL"):
        if isinstance(value, int):
            return int(value)
        if isinstance(value, (str, bytes)) and not value:
            return None
        return [int(v) for v in value]
    if isinstance(value, (str,)):
        return str(value)
    try:
        return [str(v) for v in value]
    except TypeError:
        return value


def parse_command_set(data, problems=None):
    """Decode command-set bytes with pydicom alone -> {keyword: plain value}.  Unknown elements are
    keyed 'gggg,eeee'.  Structural problems (see walk_command_set) and decode errors are appended to
    `problems` when a list is supplied."""
    from pydicom.filereader import read_dataset

    data = bytes(data)
    _, probs = walk_command_set(data)
    out = {}
    try:
        ds = read_dataset(BytesIO(data), is_implicit_VR=True, is_little_endian=True)
        for elem in ds:
            kw = TAG_TO_KEYWORD.get(int(elem.tag))
            if kw is None:
                out["%04x,%04x" % (elem.tag.group, elem.tag.element)] = repr(elem.value)
                probs.append("unknown-element: %04x,%04x" % (elem.tag.group, elem.tag.element))
                continue
            if elem.keyword != kw:
                probs.append("dictionary-mismatch: %s vs pydicom %s" % (kw, elem.keyword))
            out[kw] = _plain(kw, elem.value)
    except Exception as exc:  # undecodable command set
        probs.append("pydicom-decode-raises: %r" % (exc,))
    if problems is not None:
        problems.extend(probs)
    return out


# --------------------------------------------------------------------------- fragments

class Messages(list):
    """list of message dicts + `.problems` (list of 'kind: detail' strings, wire order)."""

    def __init__(self):
        super().__init__()
        self.problems = []

    def kinds(self):
        return [p.split(":")[0] for p in self.problems]


def _new_msg(ctx, index):
    return {"context_id": ctx, "command_set_bytes": b"", "data_set_bytes": None, "command": None,
            "command_fragments": 0, "data_fragments": 0, "complete": False, "expects_data": None,
            "first_index": index, "last_index": index, "problems": []}


def reassemble(pdv_list):
    """Reassemble DIMSE messages from PDVs in wire order.

    pdv_list: sequence of (context_id, control_header_byte, fragment_bytes).
    Returns Messages: [{context_id, command_set_bytes, data_set_bytes|None, command (parsed dict),
    command_fragments, data_fragments, complete, first_index, last_index, problems}], with protocol
    errors in `.problems` (and in the message's own `problems`):
      data-before-command-end   data fragment while the command set has no last fragment yet
      command-after-command-end command fragment although the data set of this message is still due
      unexpected-data           data fragment although CommandDataSetType == 0x0101 / no message open
      interleaved-context       fragment of another presentation context inside an unfinished message
      missing-last              stream ends (or next message starts) before the last fragment
      reserved-bits             control header bits 2-7 not zero
      command-set               structural / decode problem of the reassembled command set
    """
    out = Messages()
    partial = {}      # context id -> unfinished message
    current = None    # context id of the message being transmitted

    def flag(msg, kind, detail):
        s = "%s: %s" % (kind, detail)
        out.problems.append(s)
        if msg is not None:
            msg["problems"].append(s)

    def close(msg, complete):
        msg["complete"] = complete
        partial.pop(msg["context_id"], None)
        out.append(msg)

    for index, (ctx, header, frag) in enumerate(pdv_list):
        frag = bytes(frag)
        is_cmd = bool(header & 1)
        is_last = bool(header & 2)
        if header & 0xFC:
            flag(partial.get(ctx), "reserved-bits", "pdv %d header %02x" % (index, header))
        if current is not None and ctx != current and current in partial:
            flag(partial[current], "interleaved-context",
                 "pdv %d of context %d inside unfinished message of context %d" % (index, ctx, current))
        msg = partial.get(ctx)
        if is_cmd:
            if msg is not None and msg["expects_data"] is not None:
                # command set was complete: a new command fragment starts another message
                flag(msg, "command-after-command-end",
                     "pdv %d: command fragment while the data set of the previous message is due" % index)
                flag(msg, "missing-last", "message starting at pdv %d never got its data set" % msg["first_index"])
                close(msg, False)
                msg = None
            if msg is None:
                msg = partial[ctx] = _new_msg(ctx, index)
            msg["command_set_bytes"] += frag
            msg["command_fragments"] += 1
            msg["last_index"] = index
            current = ctx
            if is_last:
                probs = []
                msg["command"] = parse_command_set(msg["command_set_bytes"], probs)
                for p in probs:
                    flag(msg, "command-set", p)
                cdst = msg["command"].get("CommandDataSetType")
                if cdst is None:
                    flag(msg, "command-set", "no CommandDataSetType")
                    cdst = NO_DATA_SET
                if cdst == NO_DATA_SET:
                    msg["expects_data"] = False
                    close(msg, True)
                    current = None
                else:
                    msg["expects_data"] = True
        else:
            if msg is None:
                flag(None, "unexpected-data",
                     "pdv %d: data fragment on context %d with no message awaiting a data set" % (index, ctx))
                continue
            if msg["expects_data"] is None:
                flag(msg, "data-before-command-end",
                     "pdv %d: data fragment before the last command fragment" % index)
            msg["data_set_bytes"] = (msg["data_set_bytes"] or b"") + frag
            msg["data_fragments"] += 1
            msg["last_index"] = index
            current = ctx
            if is_last:
                if msg["expects_data"] is None:
                    flag(msg, "missing-last", "command set of message at pdv %d has no last fragment" % msg["first_index"])
                    close(msg, False)
                else:
                    close(msg, True)
                current = None
    for ctx in sorted(partial, key=lambda c: partial[c]["first_index"]):
        msg = partial[ctx]
        what = "data set" if msg["expects_data"] else "command set"
        flag(msg, "missing-last", "stream ended inside the %s of the message starting at pdv %d" % (what, msg["first_index"]))
        msg["complete"] = False
        out.append(msg)
    out.sort(key=lambda m: m["first_index"])
    return out


def fragment(context_id, command_set_bytes, data_set_bytes, max_pdu):
    """Reference fragmenter: PDVs (context_id, header, fragment) such that every P-DATA-TF PDU carrying
    one PDV is <= max_pdu bytes of PDU payload (item = 4 length + 1 id + 1 header + fragment);
    max_pdu == 0 means unlimited."""
    out = []
    for is_cmd, data in ((1, command_set_bytes), (0, data_set_bytes)):
        if data is None or (not is_cmd and len(data) == 0):
            continue
        k = len(data) if max_pdu == 0 else max_pdu - 6
        if k <= 0:
            raise ValueError("maximum length too small")
        chunks = [data[i:i + k] for i in range(0, len(data), k)] or [b""]
        for i, c in enumerate(chunks):
            out.append((context_id, is_cmd | (2 if i == len(chunks) - 1 else 0), c))
    return out


def selftest_dictionary():
    """Cross-check ELEMENTS against pydicom's data dictionary (framework self-test)."""
    from pydicom.datadict import dictionary_VR, dictionary_VM, keyword_for_tag
    bad = []
    for kw, (tag, vr, vm) in ELEMENTS.items():
        if keyword_for_tag(tag) != kw or dictionary_VR(tag) != vr or dictionary_VM(tag) != vm:
            bad.append((kw, keyword_for_tag(tag), dictionary_VR(tag), dictionary_VM(tag)))
    return bad
