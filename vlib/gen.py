"""Seeded generators of abstract PS3.8 values (see vlib.ps38 for the value format)."""
from __future__ import annotations

from . import ps38

AE_CHARS = "".join(chr(c) for c in range(0x20, 0x7F) if chr(c) != "\\")

KNOWN_UIDS = [
    "1.2.840.10008.1.1", "1.2.840.10008.5.1.4.1.1.2", "1.2.840.10008.5.1.4.1.1.4", "1.2.840.10008.5.1.4.1.1.7",
    "1.2.840.10008.5.1.4.1.2.1.1", "1.2.840.10008.5.1.4.1.2.2.1", "1.2.840.10008.5.1.4.1.2.2.2",
    "1.2.840.10008.5.1.4.1.2.2.3", "1.2.840.10008.5.1.4.31", "1.2.840.10008.1.20.1", "1.2.840.10008.5.1.1.9",
    "1.2.840.10008.5.1.4.34.6.1", "1.2.3.4.5.6.7.8", "1.2.826.0.1.3680043.8.498.1",
]
TS_UIDS = [ps38.IMPLICIT_LE, ps38.EXPLICIT_LE, ps38.EXPLICIT_BE, ps38.DEFLATED_LE,
           "1.2.840.10008.1.2.4.50", "1.2.840.10008.1.2.4.90", "1.2.840.10008.1.2.5"]


def gen_uid(rng, maxlen=64) -> str:
    r = rng.random()
    if r < 0.35:
        return rng.choice(KNOWN_UIDS)
    if r < 0.45:  # boundary: exactly 64 chars / exactly 1 char / odd vs even length
        target = rng.choice([1, 2, 3, 63, 64, maxlen])
    else:
        target = rng.randint(1, maxlen)
    if target == 1:
        return rng.choice("0123456789")
    parts = []
    total = 0
    while True:
        n = rng.randint(1, 8)
        comp = rng.choice("123456789") + "".join(rng.choice("0123456789") for _ in range(n - 1)) if rng.random() > 0.1 else "0"
        add = len(comp) + (1 if parts else 0)
        if total + add > target:
            break
        parts.append(comp)
        total += add
    if not parts:
        parts = ["1"]
        total = 1
    s = ".".join(parts)
    # pad up to target with digits on the last component (which must not be a bare "0")
    if len(s) < target and parts[-1] == "0":
        s = s[:-1] + "1"
    while len(s) < target:
        s += rng.choice("0123456789")
    return s[:maxlen]


def gen_ae(rng) -> str:
    r = rng.random()
    n = rng.choice([1, 2, 15, 16]) if r < 0.3 else rng.randint(1, 16)
    while True:
        s = "".join(rng.choice(AE_CHARS if rng.random() < 0.5 else "ABCDEFGHIJKLMNOPQRSTUVWXYZ0123456789_- ") for _ in range(n))
        s2 = s.strip(" ")
        if s2 and len(s2) == len(s):
            return s
        if s2 and rng.random() < 0.5:
            return s2


def gen_bytes(rng, lo=0, hi=64) -> bytes:
    r = rng.random()
    if r < 0.2:
        n = lo
    elif r < 0.3:
        n = hi
    else:
        n = rng.randint(lo, hi)
    return bytes(rng.getrandbits(8) for _ in range(n))


def gen_subitem(rng, kind, for_ac=False):
    if kind == "maxlen":
        return {"k": "maxlen", "v": rng.choice([0, 1, 7, 16382, 65536, 2 ** 32 - 1, rng.randint(0, 2 ** 32 - 1)])}
    if kind == "impl_uid":
        return {"k": "impl_uid", "v": gen_uid(rng)}
    if kind == "impl_ver":
        n = rng.randint(1, 16)
        return {"k": "impl_ver", "v": "".join(rng.choice("ABCDEFGHIJKLMNOPQRSTUVWXYZ0123456789_.") for _ in range(n))}
    if kind == "async":
        return {"k": "async", "inv": rng.choice([0, 1, 2, 65535, rng.randint(0, 65535)]),
                "perf": rng.choice([0, 1, 2, 65535, rng.randint(0, 65535)])}
    if kind == "role":
        return {"k": "role", "uid": gen_uid(rng), "scu": rng.randint(0, 1), "scp": rng.randint(0, 1)}
    if kind == "sopext":
        return {"k": "sopext", "uid": gen_uid(rng), "info": gen_bytes(rng, 1, 40).hex()}
    if kind == "commonext":
        return {"k": "commonext", "uid": gen_uid(rng), "svc": gen_uid(rng),
                "rel": [gen_uid(rng) for _ in range(rng.choice([0, 0, 1, 2, 5]))]}
    if kind == "uid_rq":
        utype = rng.randint(1, 5)
        prim = gen_bytes(rng, 0, 80)
        sec = gen_bytes(rng, 1, 40) if utype == 2 else (b"" if rng.random() < 0.8 else gen_bytes(rng, 0, 20))
        return {"k": "uid_rq", "utype": utype, "resp": rng.randint(0, 1), "prim": prim.hex(), "sec": sec.hex()}
    if kind == "uid_ac":
        return {"k": "uid_ac", "resp": gen_bytes(rng, 0, 60).hex()}
    raise ValueError(kind)


def gen_ui(rng, for_ac=False, allow_multi=True):
    """User information: the two mandatory-in-practice items plus any subset/multiplicity of the others."""
    items = [gen_subitem(rng, "maxlen"), gen_subitem(rng, "impl_uid")]
    if rng.random() < 0.6:
        items.append(gen_subitem(rng, "impl_ver"))
    if rng.random() < 0.3:
        items.append(gen_subitem(rng, "async"))
    for _ in range(rng.choice([0, 0, 1, 2, 4]) if allow_multi else rng.choice([0, 1])):
        items.append(gen_subitem(rng, "role"))
    for _ in range(rng.choice([0, 0, 1, 3]) if allow_multi else rng.choice([0, 1])):
        items.append(gen_subitem(rng, "sopext"))
    if not for_ac:
        for _ in range(rng.choice([0, 0, 1, 2]) if allow_multi else rng.choice([0, 1])):
            items.append(gen_subitem(rng, "commonext"))
        if rng.random() < 0.4:
            items.append(gen_subitem(rng, "uid_rq"))
    else:
        if rng.random() < 0.4:
            items.append(gen_subitem(rng, "uid_ac"))
    if rng.random() < 0.2:
        # one field whose length needs the high-order byte of its 2-byte length (the user-information item itself stays < 64 KiB)
        n = rng.choice([255, 256, 257, 511, 512, 513, 1000, 4096, 30000, rng.randint(256, 40000)])
        big = bytes(rng.getrandbits(8) for _ in range(min(n, 64))) * (n // 64 + 1)
        big = big[:n]
        kinds = ["sopext", "uid_ac"] if for_ac else ["sopext", "uid_rq-prim", "uid_rq-sec"]
        kind = rng.choice(kinds)
        if kind == "sopext":
            it = next((i for i in items if i["k"] == "sopext"), None)
            if it is None:
                it = gen_subitem(rng, "sopext"); items.append(it)
            it["info"] = big.hex()
        elif kind == "uid_ac":
            it = next((i for i in items if i["k"] == "uid_ac"), None)
            if it is None:
                it = gen_subitem(rng, "uid_ac"); items.append(it)
            it["resp"] = big.hex()
        else:
            it = next((i for i in items if i["k"] == "uid_rq"), None)
            if it is None:
                it = gen_subitem(rng, "uid_rq"); items.append(it)
            if kind == "uid_rq-prim":
                it["prim"] = big.hex()
            else:
                it["utype"] = 2
                it["sec"] = big.hex()
    return items


def gen_pcs_rq(rng, n=None):
    if n is None:
        n = rng.choice([0, 1, 1, 2, 3, 5, 17, 128]) if rng.random() < 0.5 else rng.randint(0, 12)
    ids = list(range(1, 256, 2))
    rng.shuffle(ids)
    ids = sorted(ids[:n]) if rng.random() < 0.7 else ids[:n]
    pcs = []
    for cid in ids:
        nts = rng.choice([1, 1, 2, 3, 7]) if rng.random() < 0.9 else 0
        ts = []
        for _ in range(nts):
            u = rng.choice(TS_UIDS) if rng.random() < 0.8 else gen_uid(rng)
            if u not in ts:  # a transfer-syntax list is a set of distinct names
                ts.append(u)
        pcs.append({"id": cid, "abs": gen_uid(rng), "ts": ts})
    return pcs


def gen_value(rng, ptype=None) -> dict:
    ptype = ptype or rng.choice(["RQ", "RQ", "AC", "AC", "RJ", "PDATA", "PDATA", "RELRQ", "RELRP", "ABORT"])
    if ptype == "RQ":
        return {"type": "RQ", "version": 1, "called": gen_ae(rng), "calling": gen_ae(rng),
                "app_ctx": ps38.DEFAULT_APP_CTX if rng.random() < 0.7 else gen_uid(rng),
                "pcs": gen_pcs_rq(rng), "ui": gen_ui(rng)}
    if ptype == "AC":
        pcs = []
        for pc in gen_pcs_rq(rng):
            pcs.append({"id": pc["id"], "result": rng.choice([0, 0, 0, 1, 2, 3, 4]),
                        "ts": rng.choice(TS_UIDS) if rng.random() < 0.8 else gen_uid(rng)})
        return {"type": "AC", "version": 1, "called": gen_ae(rng), "calling": gen_ae(rng),
                "app_ctx": ps38.DEFAULT_APP_CTX if rng.random() < 0.7 else gen_uid(rng),
                "pcs": pcs, "ui": gen_ui(rng, for_ac=True)}
    if ptype == "RJ":
        result = rng.choice([1, 2])
        source = rng.choice([1, 2, 3])
        reason = rng.choice({1: [1, 2, 3, 7], 2: [1, 2], 3: [1, 2]}[source])  # PS3.8 Table 9-21 (reserved values excluded)
        return {"type": "RJ", "result": result, "source": source, "reason": reason}
    if ptype == "PDATA":
        n = rng.choice([0, 1, 1, 1, 2, 3, 8])
        pdvs = []
        for _ in range(n):
            size = rng.choice([0, 1, 2, 100, 1000]) if rng.random() < 0.9 else rng.choice([16376, 65536])
            pdvs.append({"id": rng.choice([1, 3, 255, rng.randrange(1, 256, 2)]),
                         "data": (bytes([rng.randint(0, 3)]) + rng.randbytes(size)).hex()})
        return {"type": "PDATA", "pdvs": pdvs}
    if ptype == "ABORT":
        source = rng.choice([0, 2])
        reason = 0 if source == 0 else rng.choice([0, 1, 2, 4, 5, 6])  # PS3.8 Table 9-26
        return {"type": "ABORT", "source": source, "reason": reason}
    return {"type": ptype}
