"""Adapters between abstract PS3.8 values (vlib.ps38 format) and pynetdicom's objects."""
from __future__ import annotations


class Rejected(Exception):
    """The public setters refused the value (case is skipped and counted)."""


def prim_subitem(si):
    from pynetdicom import pdu_primitives as pp
    k = si["k"]
    if k == "maxlen":
        p = pp.MaximumLengthNotification(); p.maximum_length_received = si["v"]; return p
    if k == "impl_uid":
        p = pp.ImplementationClassUIDNotification(); p.implementation_class_uid = si["v"]; return p
    if k == "impl_ver":
        p = pp.ImplementationVersionNameNotification(); p.implementation_version_name = si["v"]; return p
    if k == "async":
        p = pp.AsynchronousOperationsWindowNegotiation()
        p.maximum_number_operations_invoked = si["inv"]; p.maximum_number_operations_performed = si["perf"]; return p
    if k == "role":
        p = pp.SCP_SCU_RoleSelectionNegotiation()
        p.sop_class_uid = si["uid"]; p.scu_role = bool(si["scu"]); p.scp_role = bool(si["scp"]); return p
    if k == "sopext":
        p = pp.SOPClassExtendedNegotiation()
        p.sop_class_uid = si["uid"]; p.service_class_application_information = bytes.fromhex(si["info"]); return p
    if k == "commonext":
        p = pp.SOPClassCommonExtendedNegotiation()
        p.sop_class_uid = si["uid"]; p.service_class_uid = si["svc"]
        p.related_general_sop_class_identification = list(si["rel"]); return p
    if k == "uid_rq":
        p = pp.UserIdentityNegotiation()
        p.user_identity_type = si["utype"]; p.positive_response_requested = bool(si["resp"])
        p.primary_field = bytes.fromhex(si["prim"]); p.secondary_field = bytes.fromhex(si["sec"]); return p
    if k == "uid_ac":
        p = pp.UserIdentityNegotiation(); p.server_response = bytes.fromhex(si["resp"]); return p
    raise ValueError(k)


def subitem_from_prim(p):
    n = type(p).__name__
    if n == "MaximumLengthNotification":
        return {"k": "maxlen", "v": p.maximum_length_received}
    if n == "ImplementationClassUIDNotification":
        return {"k": "impl_uid", "v": str(p.implementation_class_uid)}
    if n == "ImplementationVersionNameNotification":
        return {"k": "impl_ver", "v": p.implementation_version_name}
    if n == "AsynchronousOperationsWindowNegotiation":
        return {"k": "async", "inv": p.maximum_number_operations_invoked, "perf": p.maximum_number_operations_performed}
    if n == "SCP_SCU_RoleSelectionNegotiation":
        return {"k": "role", "uid": str(p.sop_class_uid), "scu": int(bool(p.scu_role)), "scp": int(bool(p.scp_role))}
    if n == "SOPClassExtendedNegotiation":
        return {"k": "sopext", "uid": str(p.sop_class_uid), "info": (p.service_class_application_information or b"").hex()}
    if n == "SOPClassCommonExtendedNegotiation":
        return {"k": "commonext", "uid": str(p.sop_class_uid), "svc": str(p.service_class_uid),
                "rel": [str(u) for u in p.related_general_sop_class_identification]}
    if n == "UserIdentityNegotiation":
        if p.server_response is not None:
            return {"k": "uid_ac", "resp": p.server_response.hex()}
        return {"k": "uid_rq", "utype": p.user_identity_type, "resp": int(bool(p.positive_response_requested)),
                "prim": (p.primary_field if p.primary_field is not None else b"<None>").hex(),
                "sec": (p.secondary_field if p.secondary_field is not None else b"<None>").hex()}
    return {"k": "?" + n}


def to_primitive_obj(v):
    """abstract value -> pynetdicom service primitive (through the public setters)."""
    from pynetdicom import pdu_primitives as pp
    from pynetdicom.presentation import PresentationContext
    t = v["type"]
    try:
        if t in ("RQ", "AC"):
            a = pp.A_ASSOCIATE()
            a.called_ae_title = v["called"]; a.calling_ae_title = v["calling"]
            a.application_context_name = v["app_ctx"]
            lst = []
            for pc in v["pcs"]:
                c = PresentationContext()
                c.context_id = pc["id"]
                if t == "RQ":
                    c.abstract_syntax = pc["abs"]
                    c.transfer_syntax = list(pc["ts"])
                else:
                    c.result = pc["result"]
                    c.transfer_syntax = [pc["ts"]]
                lst.append(c)
            if t == "RQ":
                a.presentation_context_definition_list = lst
            else:
                a.presentation_context_definition_results_list = lst
                a.result = 0
            a.user_information = [prim_subitem(s) for s in v["ui"]]
            return a
        if t == "RJ":
            a = pp.A_ASSOCIATE()
            a.result = v["result"]; a.result_source = v["source"]; a.diagnostic = v["reason"]
            return a
        if t == "PDATA":
            p = pp.P_DATA()
            p.presentation_data_value_list = [[x["id"], bytes.fromhex(x["data"])] for x in v["pdvs"]]
            return p
        if t in ("RELRQ", "RELRP"):
            r = pp.A_RELEASE()
            if t == "RELRP":
                r.result = "affirmative"
            return r
        if t == "ABORT":
            if v["source"] == 2:
                p = pp.A_P_ABORT(); p.provider_reason = v["reason"]; return p
            p = pp.A_ABORT(); p.abort_source = v["source"]; return p
    except (ValueError, TypeError) as exc:
        raise Rejected(repr(exc))
    raise ValueError(t)


PDU_CLASS = {"RQ": "A_ASSOCIATE_RQ", "AC": "A_ASSOCIATE_AC", "RJ": "A_ASSOCIATE_RJ", "PDATA": "P_DATA_TF",
             "RELRQ": "A_RELEASE_RQ", "RELRP": "A_RELEASE_RP", "ABORT": "A_ABORT_RQ"}


def pdu_class(t):
    import pynetdicom.pdu as pdu
    return getattr(pdu, PDU_CLASS[t])


def to_pdu_obj(v, prim=None):
    cls = pdu_class(v["type"])
    prim = prim if prim is not None else to_primitive_obj(v)
    try:
        p = cls()
        p.from_primitive(prim)
        return p
    except (ValueError, TypeError) as exc:
        raise Rejected(repr(exc))


def from_primitive_obj(prim, t):
    """pynetdicom primitive -> abstract value (the parameters PS3.8 transmits)."""
    if t in ("RQ", "AC"):
        out = {"type": t, "version": 1, "called": prim.called_ae_title, "calling": prim.calling_ae_title,
               "app_ctx": str(prim.application_context_name) if prim.application_context_name is not None else None,
               "ui": [subitem_from_prim(s) for s in prim.user_information]}
        if t == "RQ":
            out["pcs"] = [{"id": c.context_id, "abs": str(c.abstract_syntax) if c.abstract_syntax is not None else None,
                           "ts": [str(x) for x in c.transfer_syntax]} for c in prim.presentation_context_definition_list]
        else:
            out["pcs"] = [{"id": c.context_id, "result": c.result,
                           "ts": (str(c.transfer_syntax[0]) if c.transfer_syntax else None)}
                          for c in prim.presentation_context_definition_results_list]
        return out
    if t == "RJ":
        return {"type": "RJ", "result": prim.result, "source": prim.result_source, "reason": prim.diagnostic}
    if t == "PDATA":
        return {"type": "PDATA", "pdvs": [{"id": i, "data": bytes(d).hex()} for (i, d) in prim.presentation_data_value_list]}
    if t in ("RELRQ", "RELRP"):
        return {"type": t}
    if t == "ABORT":
        if type(prim).__name__ == "A_P_ABORT":
            return {"type": "ABORT", "source": 2, "reason": prim.provider_reason}
        return {"type": "ABORT", "source": prim.abort_source, "reason": 0}
    raise ValueError(t)
