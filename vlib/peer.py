"""Scripted raw-socket DICOM peer (requestor and acceptor roles).  Speaks through vlib.ps38 / vlib.cmdset only."""
from __future__ import annotations

import select
import socket
import struct
import time

from . import cmdset, ps38


class Peer:
    def __init__(self, sock):
        self.sock = sock
        self.rx = b""
        self.rx_all = b""
        self.tx_all = b""
        self.eof = False
        self.max_len_peer = 16382   # what the other side advertised (limits what we send)
        self.accepted = {}          # ctx id -> transfer syntax (after associate)
        self.pdv_buf = []           # leftover PDVs between recv_dimse calls

    # ------------------------------------------------------------ connection
    @classmethod
    def connect(cls, port, host="127.0.0.1", timeout=5.0):
        s = socket.create_connection((host, port), timeout=timeout)
        s.setsockopt(socket.IPPROTO_TCP, socket.TCP_NODELAY, 1)
        return cls(s)

    def close(self):
        try:
            self.sock.close()
        except OSError:
            pass

    def half_close(self):
        try:
            self.sock.shutdown(socket.SHUT_WR)
        except OSError:
            pass

    # ------------------------------------------------------------ raw I/O
    def send_raw(self, b: bytes):
        self.sock.sendall(b)
        self.tx_all += b

    def send_pdu(self, v):
        self.send_raw(v if isinstance(v, (bytes, bytearray)) else ps38.encode(v))

    def _fill(self, timeout):
        """Read whatever arrives within timeout; returns False on timeout without data."""
        if self.eof:
            return False
        r, _, _ = select.select([self.sock], [], [], max(0, timeout))
        if not r:
            return False
        try:
            d = self.sock.recv(65536)
        except (ConnectionResetError, BrokenPipeError, OSError):
            d = b""
        if d == b"":
            self.eof = True
            return False
        self.rx += d
        self.rx_all += d
        return True

    def recv_pdu_bytes(self, timeout=3.0):
        """One complete PDU as bytes; b'' on EOF (with nothing complete buffered); None on timeout."""
        deadline = time.time() + timeout
        while True:
            if len(self.rx) >= 6:
                ln = struct.unpack(">I", self.rx[2:6])[0]
                if len(self.rx) >= 6 + ln:
                    pdu, self.rx = self.rx[:6 + ln], self.rx[6 + ln:]
                    return pdu
            if self.eof:
                return b""
            if not self._fill(deadline - time.time()):
                if self.eof:
                    continue
                if time.time() >= deadline:
                    return None

    def recv_pdu(self, timeout=3.0):
        """Decoded PDU dict (+"_raw"), {"type":"EOF"} or None (timeout)."""
        b = self.recv_pdu_bytes(timeout)
        if b is None:
            return None
        if b == b"":
            return {"type": "EOF"}
        try:
            v = ps38.decode(b)
        except Exception as exc:
            v = {"type": "UNDECODABLE", "error": repr(exc)}
        v["_raw"] = b
        return v

    def wait_eof(self, timeout=3.0):
        """True if the other side closes within timeout (draining anything it still sends)."""
        deadline = time.time() + timeout
        while not self.eof and time.time() < deadline:
            self._fill(deadline - time.time())
        return self.eof

    def drain(self, quiet=0.3, limit=5.0):
        """Collect PDUs until `quiet` seconds pass without data."""
        out = []
        t_end = time.time() + limit
        while time.time() < t_end:
            v = self.recv_pdu(quiet)
            if v is None:
                break
            out.append(v)
            if v["type"] == "EOF":
                break
        return out

    # ------------------------------------------------------------ ACSE
    def associate(self, rq=None, timeout=5.0):
        rq = rq or ps38.make_rq()
        self.send_pdu(rq)
        rsp = self.recv_pdu(timeout)
        if rsp and rsp.get("type") == "AC":
            for pc in rsp["pcs"]:
                if pc["result"] == 0:
                    self.accepted[pc["id"]] = pc["ts"]
            for si in rsp.get("ui") or []:
                if si["k"] == "maxlen":
                    self.max_len_peer = si["v"]
        return rsp

    def release(self, timeout=3.0):
        self.send_pdu({"type": "RELRQ"})
        return self.recv_pdu(timeout)

    def abort(self, source=0, reason=0):
        self.send_pdu({"type": "ABORT", "source": source, "reason": reason})

    # ------------------------------------------------------------ DIMSE
    def dimse_pdus(self, ctx_id, cmd, dataset: bytes | None = None, max_len=None, one_pdu=False):
        """PDU values for one DIMSE message (fragmented to the peer's maximum length)."""
        max_len = self.max_len_peer if max_len is None else max_len
        frag = (max_len - 6) if max_len else 10 ** 9
        cb = cmd if isinstance(cmd, (bytes, bytearray)) else cmdset.encode(cmd)
        pdvs = []

        def split(b, is_cmd):
            chunks = [b[i:i + frag] for i in range(0, len(b), frag)] or [b""]
            for i, c in enumerate(chunks):
                pdvs.append(ps38.pdv(ctx_id, c, is_cmd, i == len(chunks) - 1))
        split(cb, True)
        if dataset is not None:
            split(dataset, False)
        if one_pdu:
            return [ps38.pdata(*pdvs)]
        return [ps38.pdata(p) for p in pdvs]

    def send_dimse(self, ctx_id, cmd, dataset: bytes | None = None, **kw):
        for p in self.dimse_pdus(ctx_id, cmd, dataset, **kw):
            self.send_pdu(p)

    def recv_dimse(self, timeout=3.0):
        """Reassemble one DIMSE message.  Returns dict(ctx, cmd(dict), cmd_bytes, data(bytes|None), pdus=[...]) or a
        non-PDATA PDU dict / {"type":"EOF"} / None on timeout.  A message that is only partly received when the
        timeout expires is kept and completed by the next call."""
        deadline = time.time() + timeout
        st = self.__dict__.setdefault("_partial", {"cmd_b": b"", "data_b": None, "ctx": None, "cmd_done": False, "cmd": None, "pdus": []})

        def done(**kw):
            out = dict(type="DIMSE", ctx=st["ctx"], cmd=st["cmd"], cmd_bytes=st["cmd_b"], data=st["data_b"], pdus=st["pdus"], **kw)
            self.__dict__["_partial"] = {"cmd_b": b"", "data_b": None, "ctx": None, "cmd_done": False, "cmd": None, "pdus": []}
            return out
        while True:
            while self.pdv_buf:
                pd = self.pdv_buf.pop(0)
                raw = bytes.fromhex(pd["data"])
                hdr, frag = raw[0], raw[1:]
                st["ctx"] = pd["id"] if st["ctx"] is None else st["ctx"]
                if hdr & 1:
                    st["cmd_b"] += frag
                    if hdr & 2:
                        st["cmd_done"] = True
                        st["cmd"] = cmdset.decode(st["cmd_b"])
                        if st["cmd"].get("CommandDataSetType", 0x0101) == 0x0101:
                            return done()
                else:
                    st["data_b"] = (st["data_b"] or b"") + frag
                    if hdr & 2:
                        return done(data_before_command=not st["cmd_done"])
            v = self.recv_pdu(max(0.0, deadline - time.time()))
            if v is None:
                return None
            if v["type"] != "PDATA":
                return v
            st["pdus"].append(v)
            self.pdv_buf.extend(v["pdvs"])

    def echo(self, ctx_id=1, msg_id=1, timeout=3.0):
        self.send_dimse(ctx_id, cmdset.c_echo_rq(msg_id))
        return self.recv_dimse(timeout)


class Listener:
    """Scripted acceptor side: listen on loopback, accept one connection as a Peer."""

    def __init__(self):
        self.sock = socket.socket(socket.AF_INET, socket.SOCK_STREAM)
        self.sock.setsockopt(socket.SOL_SOCKET, socket.SO_REUSEADDR, 1)
        self.sock.bind(("127.0.0.1", 0))
        self.sock.listen(16)
        self.port = self.sock.getsockname()[1]

    def accept(self, timeout=5.0) -> Peer | None:
        self.sock.settimeout(timeout)
        try:
            c, _ = self.sock.accept()
        except (socket.timeout, OSError):
            return None
        c.setsockopt(socket.IPPROTO_TCP, socket.TCP_NODELAY, 1)
        return Peer(c)

    def close(self):
        try:
            self.sock.close()
        except OSError:
            pass


def accept_association(peer: Peer, results=None, timeout=5.0, **kw):
    """Acceptor-side helper: read the A-ASSOCIATE-RQ, answer with an AC built by the reference."""
    rq = peer.recv_pdu(timeout)
    if not rq or rq.get("type") != "RQ":
        return rq, None
    for si in rq.get("ui") or []:
        if si["k"] == "maxlen":
            peer.max_len_peer = si["v"]
    ac = ps38.make_ac(rq, results=results, **kw)
    for pc in ac["pcs"]:
        if pc["result"] == 0:
            peer.accepted[pc["id"]] = pc["ts"]
    peer.send_pdu(ac)
    return rq, ac
