"""Seeded generator of pydicom datasets + an independent byte-level reference for C25.

Nothing in this module imports pynetdicom: the reference encoder/decoder is pydicom's own
`write_dataset` / `read_dataset` plus `zlib` (PS3.5 A.5 deflate = raw RFC 1951 stream, padded to even length).

    build(seed, size, sop=None)          -> pydicom Dataset (deterministic in (seed, size))
    ref_plain(ds, ts)                    -> bytes of the data set under the *uncompressed form* of `ts`
    ref_deflate(plain)                   -> deflated + padded bytes (what a deflated transfer carries)
    plain_of(stream, ts)                 -> inflate(stream) for the deflated syntax, else stream (raises RefProblem)
    ref_decode(plain, ts)                -> pydicom's own decode (fully parsed Dataset)
    canon(ds)                            -> nested tuples (tag, VR, value) forcing a full parse; diff(a, b) -> str|None
    write_file(path, plain_or_deflated, ts, sop_class, sop_instance) -> offset of the data set in the file
    split_file(bytes)                    -> (file_meta Dataset, offset) using pydicom only
"""
from __future__ import annotations

import io
import struct
import zlib

from pydicom.datadict import DicomDictionary
from pydicom.dataset import Dataset, FileMetaDataset
from pydicom.filebase import DicomBytesIO
from pydicom.filereader import read_dataset
from pydicom.filewriter import write_dataset, write_file_meta_info
from pydicom.multival import MultiValue
from pydicom.tag import Tag

from .common import rng_for

IMPLICIT = "1.2.840.10008.1.2"
EXPLICIT = "1.2.840.10008.1.2.1"
BIG = "1.2.840.10008.1.2.2"
DEFLATED = "1.2.840.10008.1.2.1.99"
TS = {"implicit": IMPLICIT, "explicit": EXPLICIT, "big": BIG, "deflated": DEFLATED}
TS_NAME = {v: k for k, v in TS.items()}
# (is_implicit_VR, is_little_endian, is_deflated)  -- PS3.5 Annex A
TS_FLAGS = {"implicit": (True, True, False), "explicit": (False, True, False), "big": (False, False, False),
            "deflated": (False, True, True)}

CT = "1.2.840.10008.5.1.4.1.1.2"
UID_ROOT = "1.2.826.0.1.3680043.9.3811.25."


class RefProblem(Exception):
    pass


# ------------------------------------------------------------------------------------------------ tag pools
_VRS = ["AE", "AS", "AT", "CS", "DA", "DS", "DT", "FD", "FL", "IS", "LO", "LT", "OB", "OD", "OF", "OL", "OV", "OW",
        "PN", "SH", "SL", "SQ", "SS", "ST", "SV", "TM", "UC", "UI", "UL", "UN", "UR", "US", "UT", "UV"]
_SINGLE_ONLY = {"LT", "ST", "UT", "UR", "OB", "OD", "OF", "OL", "OV", "OW", "UN", "SQ"}
_EXCLUDED_GROUPS = {0x0000, 0x0002, 0x0004, 0x0028, 0x7FE0, 0xFFFA, 0xFFFC, 0xFFFE}
_EXCLUDED_TAGS = {0x00080005, 0x00080016, 0x00080018}


def _pools():
    pools = {vr: [] for vr in _VRS}
    for tag in sorted(DicomDictionary):
        vr, vm, name, retired, kw = DicomDictionary[tag]
        if retired or not kw or vr not in pools:
            continue
        if (tag >> 16) in _EXCLUDED_GROUPS or (tag & 0xFFFF) == 0 or tag in _EXCLUDED_TAGS:
            continue
        if len(pools[vr]) < 12:
            pools[vr].append(tag)
    return pools


POOLS = _pools()

_ASCII = "ABCDEFGHIJKLMNOPQRSTUVWXYZabcdefghijklmnopqrstuvwxyz0123456789 _-.,"
_UTF = "äöüßéèñçøåÆŒλπЖ日本"


def _text(rng, lo, hi, utf=False, alphabet=_ASCII):
    n = rng.randint(lo, hi)
    if n == 0:
        return ""
    chars = [rng.choice(alphabet) for _ in range(n)]
    if utf and rng.random() < 0.6:
        for _ in range(1 + n // 8):
            chars[rng.randrange(n)] = rng.choice(_UTF)
    s = "".join(chars).strip(" ")
    return s or "X"


def _uid(rng):
    return UID_ROOT + ".".join(str(rng.randint(1, 99999)) for _ in range(rng.randint(1, 4)))


def _bytes(rng, n):
    if n <= 0:
        return b""
    if n <= 64:
        return bytes(rng.getrandbits(8) for _ in range(n))
    # large values: cheap, seed-dependent, neither constant nor trivially compressible everywhere
    block = rng.getrandbits(8 * 256).to_bytes(256, "big")
    kind = rng.randrange(3)
    if kind == 0:
        out = (block * (n // 256 + 1))[:n]
    elif kind == 1:
        out = rng.randbytes(n)
    else:
        out = (bytes(range(256)) * (n // 256 + 1))[:n]
    return out


def _one(rng, vr, utf):
    """One value of VR `vr` (never None)."""
    if vr == "AE":
        return _text(rng, 1, 16, alphabet="ABCDEFGHIJKLMNOPQRSTUVWXYZ0123456789_")
    if vr == "AS":
        return "%03d%s" % (rng.randint(0, 999), rng.choice("DWMY"))
    if vr == "AT":
        return Tag(rng.choice([0x00100010, 0x00080018, 0x7FE00010, 0x00291001, 0xFFFEE000, rng.getrandbits(32)]))
    if vr == "CS":
        return _text(rng, 1, 16, alphabet="ABCDEFGHIJKLMNOPQRSTUVWXYZ0123456789_")
    if vr == "DA":
        return "%04d%02d%02d" % (rng.randint(1900, 2099), rng.randint(1, 12), rng.randint(1, 28))
    if vr == "TM":
        s = "%02d%02d%02d" % (rng.randint(0, 23), rng.randint(0, 59), rng.randint(0, 59))
        return rng.choice([s[:2], s[:4], s, s + ".%d" % rng.randint(0, 9), s + ".%06d" % rng.randint(0, 999999)])
    if vr == "DT":
        s = "%04d%02d%02d%02d%02d%02d" % (rng.randint(1900, 2099), rng.randint(1, 12), rng.randint(1, 28),
                                          rng.randint(0, 23), rng.randint(0, 59), rng.randint(0, 59))
        return rng.choice([s[:4], s[:8], s, s + ".%03d" % rng.randint(0, 999), s + "+0100", s + ".5-0330"])
    if vr == "DS":
        return rng.choice(["0", "1", "-1", "1.5", "-0.25", "%d" % rng.randint(-99999, 99999),
                           "%.3f" % rng.uniform(-1000, 1000), "1e3", "-2.5E-3", "%.6f" % rng.random()])
    if vr == "IS":
        return rng.choice([0, 1, -1, rng.randint(-2 ** 31, 2 ** 31 - 1), rng.randint(-999, 999)])
    if vr == "FL":
        return rng.choice([0.0, 1.0, -1.5, rng.randint(-10 ** 6, 10 ** 6) / 8.0, float("inf")])
    if vr == "FD":
        return rng.choice([0.0, 1.0, -1.5, rng.uniform(-1e9, 1e9), 1e-300, rng.random()])
    if vr in ("LO", "SH"):
        return _text(rng, 1, 16 if vr == "SH" else 64, utf).replace("\\", "/")
    if vr == "PN":
        parts = [_text(rng, 0, 10, utf, alphabet=_ASCII[:52]) for _ in range(rng.randint(1, 5))]
        s = "^".join(parts).rstrip("^")
        return s or "Doe^John"
    if vr in ("LT", "ST", "UT"):
        return _text(rng, 1, rng.choice([5, 40, 300 if vr != "ST" else 200]), utf)
    if vr == "UC":
        return _text(rng, 1, rng.choice([5, 40, 200]), utf).replace("\\", "/")
    if vr == "UI":
        return _uid(rng)
    if vr == "UR":
        return "http://example.org/" + _text(rng, 0, 30, alphabet="abcdefghijklmnopqrstuvwxyz0123456789/-_.")
    if vr == "US":
        return rng.choice([0, 1, 65535, rng.randint(0, 65535)])
    if vr == "SS":
        return rng.choice([0, -1, 32767, -32768, rng.randint(-32768, 32767)])
    if vr == "UL":
        return rng.choice([0, 1, 2 ** 32 - 1, rng.randint(0, 2 ** 32 - 1)])
    if vr == "SL":
        return rng.choice([0, -1, 2 ** 31 - 1, -2 ** 31, rng.randint(-2 ** 31, 2 ** 31 - 1)])
    if vr == "UV":
        return rng.choice([0, 1, 2 ** 64 - 1, rng.randint(0, 2 ** 64 - 1)])
    if vr == "SV":
        return rng.choice([0, -1, 2 ** 63 - 1, -2 ** 63, rng.randint(-2 ** 63, 2 ** 63 - 1)])
    unit = {"OB": 1, "UN": 1, "OW": 2, "OF": 4, "OL": 4, "OD": 8, "OV": 8}[vr]
    n = rng.choice([1, 2, 3, 5, 16, 33, rng.randint(1, 200)])
    return _bytes(rng, n * unit if unit > 1 else n)


def _value(rng, vr, utf):
    """A value for `vr`: empty (VM 0), single (incl. odd lengths) or multi-valued."""
    r = rng.random()
    if r < 0.12:
        return b"" if vr in ("OB", "UN", "OW", "OF", "OL", "OD", "OV") and rng.random() < 0.5 else None
    if vr in _SINGLE_ONLY or r < 0.7:
        return _one(rng, vr, utf)
    return [_one(rng, vr, utf) for _ in range(rng.randint(2, 5))]


def _fill(rng, ds, n_elems, depth, utf, seq_budget):
    """Add ~n_elems random elements (public, private, sequences) to `ds`."""
    used = set(e.tag for e in ds)
    for _ in range(n_elems):
        r = rng.random()
        if r < 0.14 and depth < 3 and seq_budget[0] > 0:
            seq_budget[0] -= 1
            tag = rng.choice(POOLS["SQ"])
            if tag in used:
                continue
            used.add(tag)
            k = rng.choice([0, 0, 1, 1, 2, 3])
            items = []
            for _i in range(k):
                item = Dataset()
                if rng.random() > 0.2:          # else: an empty item
                    _fill(rng, item, rng.randint(1, 5), depth + 1, utf, seq_budget)
                items.append(item)
            ds.add_new(tag, "SQ", items)
            if rng.random() < 0.35:
                ds[tag].is_undefined_length = True
            continue
        if r < 0.26:
            _private(rng, ds, depth, utf, seq_budget)
            continue
        vr = rng.choice(_VRS)
        if vr == "SQ":
            continue
        tag = rng.choice(POOLS[vr])
        if tag in used:
            continue
        used.add(tag)
        ds.add_new(tag, vr, _value(rng, vr, utf))


def _private(rng, ds, depth, utf, seq_budget):
    group = rng.choice([0x0009, 0x0029, 0x0043, 0x7FE1])
    creator = rng.choice(["VERIF C25", "ACME 1.1", "X"])
    try:
        block = ds.private_block(group, creator, create=True)
    except Exception:
        return
    for _ in range(rng.randint(1, 4)):
        off = rng.randint(0, 0xFF)
        if block.get_tag(off) in ds:
            continue
        vr = rng.choice(["LO", "SH", "US", "UL", "FD", "OB", "UN", "DS", "UI", "UT", "CS", "OW", "AT", "SQ"])
        if vr == "SQ":
            if depth >= 3 or seq_budget[0] <= 0:
                continue
            seq_budget[0] -= 1
            items = []
            for _i in range(rng.choice([0, 1, 2])):
                item = Dataset()
                if rng.random() > 0.3:
                    _fill(rng, item, rng.randint(1, 3), depth + 1, utf, seq_budget)
                items.append(item)
            block.add_new(off, "SQ", items)
        else:
            block.add_new(off, vr, _value(rng, vr, utf))
    if rng.random() < 0.3:
        # a private element whose private creator is absent
        tag = Tag(group, 0xE000 + rng.randint(0, 0xFF))
        if tag not in ds:
            vr = rng.choice(["UN", "LO", "OB"])
            ds.add_new(tag, vr, _value(rng, vr, utf))


SIZES = ("empty", "tiny", "small", "medium", "large", "huge")


def build(seed, size, sop=None, pid="C25"):
    """Deterministic dataset.  `sop`=(class_uid, instance_uid) adds the two elements a C-STORE needs."""
    rng = rng_for(seed, pid, "ds", size)
    ds = Dataset()
    if sop:
        ds.add_new(0x00080016, "UI", sop[0])
        ds.add_new(0x00080018, "UI", sop[1])
    if size == "empty":
        return ds
    utf = rng.random() < 0.25 and size != "tiny"
    if utf:
        ds.add_new(0x00080005, "CS", "ISO_IR 192")
    n = {"tiny": rng.randint(1, 3), "small": rng.randint(5, 25), "medium": rng.randint(30, 90),
         "large": rng.randint(10, 40), "huge": rng.randint(5, 20)}[size]
    _fill(rng, ds, n, 0, utf, [{"tiny": 1, "small": 4, "medium": 12, "large": 4, "huge": 2}[size]])
    if not any(e.tag not in (0x00080016, 0x00080018) for e in ds):
        ds.add_new(0x00100020, "LO", _text(rng, 1, 9))      # only size "empty" is empty
    if size in ("medium", "large", "huge") or (size == "small" and rng.random() < 0.3):
        # pixel-data-like bulk element (+ the image pixel module elements pydicom consults for ambiguous VRs)
        nbytes = {"small": rng.randint(0, 600), "medium": rng.randint(1000, 16000),
                  "large": rng.randint(20000, 70000), "huge": rng.randint(100000, 200000)}[size]
        which = rng.random()
        if which < 0.6:
            bits = rng.choice([8, 16])
            ds.add_new(0x00280002, "US", 1)
            ds.add_new(0x00280004, "CS", "MONOCHROME2")
            ds.add_new(0x00280100, "US", bits)
            ds.add_new(0x00280101, "US", bits)
            ds.add_new(0x00280102, "US", bits - 1)
            ds.add_new(0x00280103, "US", rng.choice([0, 1]))
            if bits == 16:
                nbytes -= nbytes % 2
                rows = max(1, int((nbytes // 2) ** 0.5))
                ds.add_new(0x00280010, "US", rows)
                ds.add_new(0x00280011, "US", max(1, (nbytes // 2) // rows))
                ds.add_new(0x7FE00010, "OW", _bytes(rng, nbytes))
            else:
                rows = max(1, int(nbytes ** 0.5))
                ds.add_new(0x00280010, "US", rows)
                ds.add_new(0x00280011, "US", max(1, nbytes // rows))
                ds.add_new(0x7FE00010, "OB", _bytes(rng, nbytes))      # possibly odd length -> padded
            if rng.random() < 0.5:
                ds.add_new(0x00280106, "US" if ds[0x00280103].value == 0 else "SS", 0)   # 'US or SS' tag
        elif which < 0.8:
            ds.add_new(0x00420011, "OB", _bytes(rng, nbytes))          # EncapsulatedDocument
        else:
            ds.add_new(0x7FE10010, "LO", "VERIF BULK")
            ds.add_new(0x7FE11001, rng.choice(["OB", "UN", "OW"]), _bytes(rng, nbytes - nbytes % 2))
    return ds


# ------------------------------------------------------------------------------------------------ reference codec

def ref_plain(ds, ts):
    """Encode with pydicom's writer under the VR/endianness of `ts` (never deflated)."""
    implicit, little, _ = TS_FLAGS[ts]
    fp = DicomBytesIO()
    fp.is_implicit_VR = implicit
    fp.is_little_endian = little
    write_dataset(fp, ds)
    return fp.getvalue()


def ref_deflate(plain):
    c = zlib.compressobj(6, zlib.DEFLATED, -15)
    out = c.compress(plain) + c.flush()
    if len(out) % 2:
        out += b"\x00"
    return out


def ref_inflate(stream):
    d = zlib.decompressobj(-15)
    try:
        out = d.decompress(stream)
        out += d.flush()
    except zlib.error as exc:
        raise RefProblem("inflate failed: %s" % exc)
    if not d.eof:
        raise RefProblem("deflate stream truncated (%d bytes in, %d out)" % (len(stream), len(out)))
    if d.unused_data not in (b"", b"\x00"):
        raise RefProblem("%d bytes after the end of the deflate stream" % len(d.unused_data))
    return out


def plain_of(stream, ts):
    return ref_inflate(stream) if TS_FLAGS[ts][2] else bytes(stream)


def ref_stream(plain, ts):
    """What a transfer under `ts` carries for the plain encoding `plain` (reference side)."""
    return ref_deflate(plain) if TS_FLAGS[ts][2] else plain


def ref_decode(plain, ts):
    implicit, little, _ = TS_FLAGS[ts]
    ds = read_dataset(io.BytesIO(plain), implicit, little)
    return ds


def _cv(v):
    if isinstance(v, (MultiValue, list, tuple)):
        return tuple(_cv(x) for x in v)
    if isinstance(v, (bytes, bytearray)):
        return bytes(v)
    if isinstance(v, float):
        return ("f", struct.pack(">d", v))
    if isinstance(v, int):
        return int(v)
    if v is None:
        return None
    orig = getattr(v, "original_string", None)
    return (type(v).__name__, str(v) if orig is None else str(orig))


def canon(ds):
    """Full parse into nested tuples; any decoding exception propagates."""
    out = []
    for elem in ds:
        if elem.tag.group == 2:
            continue
        if elem.VR == "SQ":
            out.append((int(elem.tag), "SQ", tuple(canon(item) for item in elem.value)))
        else:
            out.append((int(elem.tag), elem.VR, _cv(elem.value)))
    return tuple(out)


def diff(a, b, path=""):
    """First difference between two canon() results or None."""
    if a == b:
        return None
    ta = {e[0]: e for e in a}
    tb = {e[0]: e for e in b}
    for t in sorted(set(ta) | set(tb)):
        name = "%s(%04x,%04x)" % (path, t >> 16, t & 0xFFFF)
        if t not in ta:
            return name + " only in second"
        if t not in tb:
            return name + " only in first"
        ea, eb = ta[t], tb[t]
        if ea[1] != eb[1]:
            return "%s VR %s != %s" % (name, ea[1], eb[1])
        if ea[1] == "SQ":
            if len(ea[2]) != len(eb[2]):
                return "%s %d items != %d items" % (name, len(ea[2]), len(eb[2]))
            for i, (ia, ib) in enumerate(zip(ea[2], eb[2])):
                d = diff(ia, ib, "%s[%d]." % (name, i))
                if d:
                    return d
        elif ea[2] != eb[2]:
            return "%s value %.60r != %.60r" % (name, ea[2], eb[2])
    return "element order differs"


# ------------------------------------------------------------------------------------------------ files

def file_meta_bytes(ts_uid, sop_class, sop_instance, extra=0):
    meta = FileMetaDataset()
    meta.FileMetaInformationGroupLength = 0
    meta.FileMetaInformationVersion = b"\x00\x01"
    meta.MediaStorageSOPClassUID = sop_class
    meta.MediaStorageSOPInstanceUID = sop_instance
    meta.TransferSyntaxUID = ts_uid
    meta.ImplementationClassUID = UID_ROOT + "0"
    meta.ImplementationVersionName = "VERIF_C25"
    if extra >= 1:
        meta.SourceApplicationEntityTitle = "VERIF_SRC"
    if extra >= 2:
        meta.PrivateInformationCreatorUID = UID_ROOT + "9"
        meta.PrivateInformation = b"\x01\x02\x03" if extra == 2 else bytes(range(200))     # odd length: padded by pydicom
    fp = DicomBytesIO()
    fp.is_little_endian = True
    fp.is_implicit_VR = False
    write_file_meta_info(fp, meta)
    return fp.getvalue()


def write_file(path, stream, ts, sop_class, sop_instance, preamble=None, extra_meta=0):
    """DICOM File Format: 128-byte preamble, DICM, group 0002, then `stream` verbatim.  Returns the offset."""
    head = (preamble or b"\x00" * 128) + b"DICM" + file_meta_bytes(TS[ts], sop_class, sop_instance, extra_meta)
    assert len(head) > 132 and head[128:132] == b"DICM"
    with open(path, "wb") as f:
        f.write(head)
        f.write(stream)
    return len(head)


def split_file(data):
    """(file_meta Dataset, offset of the data set) of a DICOM File Format byte string - struct walk of group 0002
    (always Explicit VR Little Endian), decoded values via pydicom."""
    if len(data) < 132 or data[128:132] != b"DICM":
        raise RefProblem("no preamble/DICM prefix")
    off = 132
    while off + 8 <= len(data):
        group, elem = struct.unpack("<HH", data[off:off + 4])
        if group != 2:
            break
        vr = data[off + 4:off + 6]
        if vr in (b"OB", b"OW", b"UN", b"UT", b"SQ", b"OF", b"OD", b"OL", b"UC", b"UR", b"OV", b"SV", b"UV"):
            ln = struct.unpack("<I", data[off + 8:off + 12])[0]
            off += 12 + ln
        else:
            ln = struct.unpack("<H", data[off + 6:off + 8])[0]
            off += 8 + ln
    if off > len(data):
        raise RefProblem("file meta runs past the end of the file")
    meta = read_dataset(io.BytesIO(data[132:off]), False, True)
    return meta, off
