"""Run-time instrumentation of pynetdicom (monkeypatch wrappers; no source edits).

install()            idempotent; wraps
  * AssociationSocket.__init__  -> self.socket replaced by a transparent SockProxy (wire log, recv chunk plans,
                                   injected delays/faults, close/shutdown observation)
  * StateMachine.do_action      -> transition log + ONLINE conformance check against vlib.ps38_fsm
  * Association.__init__        -> registry of associations created during the current case
  * threading.excepthook / sys.unraisablehook -> escaped exceptions are observations
reset()              start a new observation window (one per case)
All monitor state lives behind one lock; every event gets a global sequence number taken under that lock.
"""
from __future__ import annotations

import sys
import threading
import time
import traceback

from . import ps38, ps38_fsm

_LOCK = threading.RLock()
_INSTALLED = False


class State:
    seq = 0
    wire = []          # (seq, sock_id, dir 'tx'|'rx', bytes)
    fsm = []           # dict(seq, assoc_id, role, before, event, action, after, exc)
    fsm_problems = []  # dict(kind, ...)
    excs = []          # dict(thread, type, where, text)
    assocs = []        # Association objects created in this window
    socks = []         # SockProxy objects created in this window
    socket_hook = None  # callable(proxy, assoc) invoked when a proxy is created
    pair_counts = {}   # (state,event) -> count   (live conformance coverage)
    framed = []        # (seq, assoc_id, bytes) every byte string handed to DUL._decode_pdu
    dul_events = []    # (seq, assoc_id, event) every event put on a DUL event queue by _read_pdu_data
    dul_event_times = {}   # seq -> time.time() of that record
    decoded = []       # (seq, assoc_id, pdu_object, event, bytes) every successful DUL._decode_pdu


def _next():
    State.seq += 1
    return State.seq


def reset():
    with _LOCK:
        State.wire = []
        State.fsm = []
        State.fsm_problems = []
        State.excs = []
        State.assocs = []
        State.socks = []
        State.socket_hook = None
        State.pair_counts = {}
        State.framed = []
        State.dul_events = []
        State.dul_event_times = {}
        State.decoded = []


class SockProxy:
    """Transparent proxy around a real socket.  `recv_plan(proxy, bufsize) -> (max_bytes, delay_s)` models
    'TCP may deliver any 1..n bytes per read, after any gap'.  `fail_send` makes send() raise OSError."""

    def __init__(self, real, owner, assoc):
        self.__dict__["_real"] = real
        self.__dict__["_owner"] = owner
        self.__dict__["assoc"] = assoc
        self.__dict__["sid"] = id(self)
        self.__dict__["recv_plan"] = None
        self.__dict__["fail_send"] = None     # None | callable(data)->bool
        self.__dict__["closed"] = False
        self.__dict__["shutdown_called"] = False
        self.__dict__["rx_bytes"] = 0
        self.__dict__["tx_bytes"] = 0
        self.__dict__["recv_calls"] = 0
        self.__dict__["role"] = getattr(assoc, "mode", "?")

    def fileno(self):
        return self._real.fileno()

    def recv(self, bufsize, *a):
        plan = self.recv_plan
        n = bufsize
        if plan is not None:
            n, delay = plan(self, bufsize)
            n = max(1, min(bufsize, n))
            if delay:
                time.sleep(delay)
        data = self._real.recv(n, *a)
        with _LOCK:
            self.__dict__["recv_calls"] += 1
            self.__dict__["rx_bytes"] += len(data)
            State.wire.append((_next(), self.sid, "rx", bytes(data)))
        return data

    def send(self, data, *a):
        ff = self.fail_send
        if ff is not None and ff(data):
            raise OSError("injected send failure")
        n = self._real.send(data, *a)
        with _LOCK:
            self.__dict__["tx_bytes"] += n
            State.wire.append((_next(), self.sid, "tx", bytes(data[:n])))
        return n

    def close(self):
        self.__dict__["closed"] = True
        return self._real.close()

    def shutdown(self, how):
        self.__dict__["shutdown_called"] = True
        return self._real.shutdown(how)

    def __getattr__(self, name):
        return getattr(self._real, name)

    def __setattr__(self, name, value):
        if name in self.__dict__:
            self.__dict__[name] = value
        else:
            setattr(self._real, name, value)

    # observation helpers
    def really_closed(self):
        try:
            return self._real.fileno() == -1
        except Exception:
            return True


def wire_bytes(sid, direction):
    with _LOCK:
        return b"".join(b for (_, s, d, b) in State.wire if s == sid and d == direction)


def wire_pdus(sid, direction):
    """Complete PDUs (bytes) in a socket's tx or rx stream + remainder."""
    return ps38.split_stream(wire_bytes(sid, direction))


def install():
    global _INSTALLED
    with _LOCK:
        if _INSTALLED:
            return
        _INSTALLED = True
    from pynetdicom import transport, fsm, association

    # ---- socket proxy
    orig_init = transport.AssociationSocket.__init__

    def init(self, assoc, client_socket=None, address=None):
        orig_init(self, assoc, client_socket=client_socket, address=address)
        try:
            import ssl
            is_tls = isinstance(self.socket, ssl.SSLSocket)
        except Exception:
            is_tls = False
        if self.socket is not None and not isinstance(self.socket, SockProxy) and not is_tls:
            proxy = SockProxy(self.socket, self, assoc)
            self.socket = proxy
            with _LOCK:
                State.socks.append(proxy)
                hook = State.socket_hook
            if hook is not None:
                try:
                    hook(proxy, assoc)
                except Exception:
                    traceback.print_exc()

    transport.AssociationSocket.__init__ = init

    # ---- FSM monitor
    orig_do = fsm.StateMachine.do_action

    def do_action(self, event):
        before = self.current_state
        assoc = self.dul.assoc
        role = "requestor" if assoc.is_requestor else "acceptor"
        action = ps38_fsm.TABLE.get((before, event))
        exc = None
        try:
            return orig_do(self, event)
        except BaseException as e:
            exc = e
            raise
        finally:
            after = self.current_state
            with _LOCK:
                rec = dict(seq=_next(), assoc=id(assoc), role=role, before=before, event=event, action=action,
                           after=after, exc=(type(exc).__name__ if exc else None), t=time.time())
                State.fsm.append(rec)
                State.pair_counts[(before, event)] = State.pair_counts.get((before, event), 0) + 1
                if action is None:
                    State.fsm_problems.append(dict(kind="invalid-event", pair="%s@%s" % (event, before), rec=rec))
                elif exc is not None:
                    State.fsm_problems.append(dict(kind="action-raises", action=action, pair="%s@%s" % (event, before),
                                                   exc=type(exc).__name__, text=str(exc)[:200], rec=rec))
                elif after not in ps38_fsm.allowed_next_states(action):
                    State.fsm_problems.append(dict(kind="wrong-next-state", action=action, pair="%s@%s" % (event, before), rec=rec))
                elif ps38_fsm.ACTION[action]["next"][0:1] == ("role",) and after != ps38_fsm.next_state(action, role == "requestor"):
                    State.fsm_problems.append(dict(kind="wrong-collision-state", action=action, rec=rec))

    fsm.StateMachine.do_action = do_action

    # ---- framed input handed to the decoder
    from pynetdicom import dul as _dul
    orig_decode = _dul.DULServiceProvider._decode_pdu

    def _decode_pdu(self, bytestream):
        with _LOCK:
            State.framed.append((_next(), id(self.assoc), bytes(bytestream)))
        res = orig_decode(self, bytestream)
        with _LOCK:
            State.decoded.append((_next(), id(self.assoc), res[0], res[1], bytes(bytestream)))
        return res

    _dul.DULServiceProvider._decode_pdu = _decode_pdu

    orig_read = _dul.DULServiceProvider._read_pdu_data

    def _read_pdu_data(self):
        q = self.event_queue
        before = list(q.queue)
        try:
            return orig_read(self)
        finally:
            after = list(q.queue)
            new = after[len(before):] if after[:len(before)] == before else after
            with _LOCK:
                for e in new:
                    sq_ = _next()
                    State.dul_event_times[sq_] = time.time()
                    State.dul_events.append((sq_, id(self.assoc), e))

    _dul.DULServiceProvider._read_pdu_data = _read_pdu_data

    # ---- association registry
    orig_assoc_init = association.Association.__init__

    def assoc_init(self, ae, mode):
        orig_assoc_init(self, ae, mode)
        with _LOCK:
            State.assocs.append(self)

    association.Association.__init__ = assoc_init

    # ---- escaped exceptions
    prev_hook = threading.excepthook

    def hook(args):
        tb = traceback.extract_tb(args.exc_traceback) if args.exc_traceback else []
        where = ""
        for fr in reversed(tb):
            if "pynetdicom" in fr.filename and "/verif/" not in fr.filename:
                where = "%s:%s" % (fr.filename.split("pynetdicom/")[-1], fr.name)
                break
        with _LOCK:
            State.excs.append(dict(seq=_next(), thread=getattr(args.thread, "name", "?"),
                                   type=args.exc_type.__name__, where=where, text=str(args.exc_value)[:300],
                                   frames=["%s:%s:%d" % (f.filename.split("/")[-1], f.name, f.lineno) for f in tb[-6:]]))

    threading.excepthook = hook

    def unraisable(u):
        with _LOCK:
            State.excs.append(dict(seq=_next(), thread="unraisable", type=type(u.exc_value).__name__, where=str(u.object)[:80],
                                   text=str(u.exc_value)[:300], frames=[]))

    sys.unraisablehook = unraisable


# ------------------------------------------------------------------ liveness helpers

def assoc_threads(assocs=None):
    """[(assoc, assoc_alive, dul_alive, fsm_state)]"""
    out = []
    for a in list(assocs if assocs is not None else State.assocs):
        out.append((a, a.is_alive(), a.dul.is_alive(), a.dul.state_machine.current_state))
    return out


def wait_quiet(timeout, assocs=None, poll=0.02):
    """Wait until no registered association/DUL thread is alive. Returns (quiet: bool, waited_s)."""
    t0 = time.time()
    while time.time() - t0 < timeout:
        if not any(al or dl for (_, al, dl, _) in assoc_threads(assocs)):
            return True, time.time() - t0
        time.sleep(poll)
    return False, time.time() - t0


def stack_of(thread):
    fr = sys._current_frames().get(thread.ident)
    if fr is None:
        return []
    return ["%s:%s:%d" % (f.filename.split("/")[-1], f.name, f.lineno) for f in traceback.extract_stack(fr)[-8:]]


def stable_block(thread, gap=1.0):
    """True if two stack snapshots `gap` seconds apart show the same innermost frames (thread parked)."""
    a = stack_of(thread)
    time.sleep(gap)
    b = stack_of(thread)
    return bool(a) and a == b, a


def open_sockets():
    return [s for s in State.socks if not s.really_closed()]


def summary():
    with _LOCK:
        return dict(fsm_transitions=len(State.fsm), fsm_problems=len(State.fsm_problems), excs=len(State.excs),
                    wire_events=len(State.wire), assocs=len(State.assocs), socks=len(State.socks))
