"""Independent reference codec for the DICOM Upper Layer PDUs (PS3.8 section 9.3, PS3.7 Annex D).

Written from the standard's tables with `struct` only; never imports pynetdicom.

Abstract values are plain JSON-able dicts:
  {"type":"RQ","version":1,"called":str,"calling":str,"app_ctx":uid,
   "pcs":[{"id":int,"abs":uid,"ts":[uid,...]}], "ui":[subitem,...]}
  {"type":"AC", ... "pcs":[{"id":int,"result":int,"ts":uid|None}], "ui":[...]}
  {"type":"RJ","result":int,"source":int,"reason":int}
  {"type":"PDATA","pdvs":[{"id":int,"data":hex}]}            data = control header + fragment
  {"type":"RELRQ"} {"type":"RELRP"} {"type":"ABORT","source":int,"reason":int}
User-information sub-items:
  {"k":"maxlen","v":int} {"k":"impl_uid","v":uid} {"k":"impl_ver","v":str}
  {"k":"async","inv":int,"perf":int} {"k":"role","uid":uid,"scu":0|1,"scp":0|1}
  {"k":"sopext","uid":uid,"info":hex}
  {"k":"commonext","uid":uid,"svc":uid,"rel":[uid,...]}
  {"k":"uid_rq","utype":1..5,"resp":0|1,"prim":hex,"sec":hex}
  {"k":"uid_ac","resp":hex}
"""
from __future__ import annotations

import struct

PDU_NAMES = {1: "RQ", 2: "AC", 3: "RJ", 4: "PDATA", 5: "RELRQ", 6: "RELRP", 7: "ABORT"}
PDU_CODES = {v: k for k, v in PDU_NAMES.items()}
DEFAULT_APP_CTX = "1.2.840.10008.3.1.1.1"
IMPLICIT_LE = "1.2.840.10008.1.2"
EXPLICIT_LE = "1.2.840.10008.1.2.1"
EXPLICIT_BE = "1.2.840.10008.1.2.2"
DEFLATED_LE = "1.2.840.10008.1.2.1.99"
VERIFICATION = "1.2.840.10008.1.1"


class RefError(Exception):
    pass


def _a(s) -> bytes:
    return s if isinstance(s, (bytes, bytearray)) else s.encode("ascii")


def _item(t: int, body: bytes) -> bytes:
    return struct.pack(">BBH", t, 0, len(body)) + body


def _ae(s) -> bytes:
    b = _a(s)
    if len(b) > 16:
        raise RefError("AE title longer than 16")
    return b.ljust(16, b" ")


# ------------------------------------------------------------------ encode

def enc_subitem(si: dict) -> bytes:
    k = si["k"]
    if k == "maxlen":
        return _item(0x51, struct.pack(">I", si["v"]))
    if k == "impl_uid":
        return _item(0x52, _a(si["v"]))
    if k == "impl_ver":
        return _item(0x55, _a(si["v"]))
    if k == "async":
        return _item(0x53, struct.pack(">HH", si["inv"], si["perf"]))
    if k == "role":
        u = _a(si["uid"])
        return _item(0x54, struct.pack(">H", len(u)) + u + bytes([si["scu"], si["scp"]]))
    if k == "sopext":
        u = _a(si["uid"])
        return _item(0x56, struct.pack(">H", len(u)) + u + bytes.fromhex(si["info"]))
    if k == "commonext":
        u = _a(si["uid"]); s = _a(si["svc"])
        rel = b"".join(struct.pack(">H", len(_a(r))) + _a(r) for r in si["rel"])
        body = (struct.pack(">H", len(u)) + u + struct.pack(">H", len(s)) + s
                + struct.pack(">H", len(rel)) + rel)
        return struct.pack(">BBH", 0x57, si.get("subver", 0), len(body)) + body
    if k == "uid_rq":
        p = bytes.fromhex(si["prim"]); s = bytes.fromhex(si["sec"])
        return _item(0x58, bytes([si["utype"], si["resp"]]) + struct.pack(">H", len(p)) + p
                     + struct.pack(">H", len(s)) + s)
    if k == "uid_ac":
        r = bytes.fromhex(si["resp"])
        return _item(0x59, struct.pack(">H", len(r)) + r)
    if k == "raw":
        return bytes.fromhex(si["hex"])
    raise RefError("unknown sub-item kind %r" % k)


def enc_ui(subitems) -> bytes:
    return _item(0x50, b"".join(enc_subitem(s) for s in subitems))


def enc_pc_rq(pc) -> bytes:
    body = bytes([pc["id"], 0, 0, 0]) + _item(0x30, _a(pc["abs"]))
    for ts in pc["ts"]:
        body += _item(0x40, _a(ts))
    return _item(0x20, body)


def enc_pc_ac(pc) -> bytes:
    body = bytes([pc["id"], 0, pc["result"], 0])
    ts = pc.get("ts")
    # PS3.8 Table 9-18: one Transfer Syntax Sub-Item is always present (not significant unless accepted)
    body += _item(0x40, _a(ts if ts is not None else ""))
    return _item(0x21, body)


def encode(v: dict) -> bytes:
    t = v["type"]
    if t in ("RQ", "AC"):
        body = struct.pack(">HH", v.get("version", 1), 0) + _ae(v["called"]) + _ae(v["calling"]) + bytes(32)
        body += _item(0x10, _a(v["app_ctx"]))
        for pc in v["pcs"]:
            body += enc_pc_rq(pc) if t == "RQ" else enc_pc_ac(pc)
        body += enc_ui(v["ui"])
        return struct.pack(">BBI", PDU_CODES[t], 0, len(body)) + body
    if t == "RJ":
        return struct.pack(">BBIBBBB", 3, 0, 4, 0, v["result"], v["source"], v["reason"])
    if t == "PDATA":
        body = b""
        for pdv in v["pdvs"]:
            d = bytes.fromhex(pdv["data"]) if isinstance(pdv["data"], str) else pdv["data"]
            body += struct.pack(">IB", len(d) + 1, pdv["id"]) + d
        return struct.pack(">BBI", 4, 0, len(body)) + body
    if t == "RELRQ":
        return struct.pack(">BBII", 5, 0, 4, 0)
    if t == "RELRP":
        return struct.pack(">BBII", 6, 0, 4, 0)
    if t == "ABORT":
        return struct.pack(">BBIBBBB", 7, 0, 4, 0, 0, v["source"], v["reason"])
    raise RefError("unknown PDU type %r" % t)


# ------------------------------------------------------------------ decode / structural walk

class Walk:
    """Structural walker: records (path, offset, declared_length, actual_length) for every
    length field; `problems` lists every inconsistency (length mismatch, non-zero reserved
    byte, trailing bytes)."""

    def __init__(self):
        self.lengths = []
        self.problems = []

    def chk(self, cond, msg):
        if not cond:
            self.problems.append(msg)


def _items(buf: bytes, base: int, w: Walk, path: str):
    off = 0
    out = []
    while off < len(buf):
        if off + 4 > len(buf):
            w.problems.append("%s: truncated item header at %d" % (path, base + off))
            break
        t, res, ln = struct.unpack(">BBH", buf[off:off + 4])
        body = buf[off + 4:off + 4 + ln]
        w.lengths.append((path + "/%02x" % t, base + off, ln, len(body)))
        if len(body) != ln:
            w.problems.append("%s: item %02x at %d declares %d bytes, %d available" % (path, t, base + off, ln, len(body)))
        out.append((t, res, body, base + off))
        off += 4 + ln
    return out


def dec_subitem(t, res, body, w: Walk, path="ui"):
    if t == 0x51:
        w.chk(len(body) == 4, "maxlen length != 4"); w.chk(res == 0, "maxlen reserved != 0")
        return {"k": "maxlen", "v": struct.unpack(">I", body[:4])[0]}
    if t == 0x52:
        w.chk(res == 0, "impl_uid reserved != 0")
        return {"k": "impl_uid", "v": body.decode("latin-1")}
    if t == 0x55:
        w.chk(res == 0, "impl_ver reserved != 0")
        return {"k": "impl_ver", "v": body.decode("latin-1")}
    if t == 0x53:
        w.chk(len(body) == 4, "async length != 4"); w.chk(res == 0, "async reserved != 0")
        inv, perf = struct.unpack(">HH", body[:4])
        return {"k": "async", "inv": inv, "perf": perf}
    if t == 0x54:
        w.chk(res == 0, "role reserved != 0")
        ul = struct.unpack(">H", body[:2])[0]
        w.lengths.append((path + "/54/uidlen", -1, ul, len(body) - 4))
        w.chk(ul == len(body) - 4, "role uid-length %d != %d" % (ul, len(body) - 4))
        return {"k": "role", "uid": body[2:2 + ul].decode("latin-1"), "scu": body[2 + ul], "scp": body[3 + ul]}
    if t == 0x56:
        w.chk(res == 0, "sopext reserved != 0")
        ul = struct.unpack(">H", body[:2])[0]
        w.chk(2 + ul <= len(body), "sopext uid-length overruns")
        return {"k": "sopext", "uid": body[2:2 + ul].decode("latin-1"), "info": body[2 + ul:].hex()}
    if t == 0x57:
        ul = struct.unpack(">H", body[:2])[0]
        uid = body[2:2 + ul]
        o = 2 + ul
        sl = struct.unpack(">H", body[o:o + 2])[0]
        svc = body[o + 2:o + 2 + sl]
        o += 2 + sl
        rl = struct.unpack(">H", body[o:o + 2])[0]
        relb = body[o + 2:o + 2 + rl]
        w.chk(len(relb) == rl, "commonext related-length overruns")
        w.chk(o + 2 + rl == len(body), "commonext: %d trailing bytes" % (len(body) - (o + 2 + rl)))
        rel = []
        p = 0
        while p < len(relb):
            l2 = struct.unpack(">H", relb[p:p + 2])[0]
            rel.append(relb[p + 2:p + 2 + l2].decode("latin-1"))
            p += 2 + l2
        w.chk(p == len(relb), "commonext related list misaligned")
        return {"k": "commonext", "uid": uid.decode("latin-1"), "svc": svc.decode("latin-1"), "rel": rel}
    if t == 0x58:
        w.chk(res == 0, "uid_rq reserved != 0")
        utype, resp = body[0], body[1]
        pl = struct.unpack(">H", body[2:4])[0]
        prim = body[4:4 + pl]
        o = 4 + pl
        sl = struct.unpack(">H", body[o:o + 2])[0]
        sec = body[o + 2:o + 2 + sl]
        w.chk(len(prim) == pl and len(sec) == sl, "uid_rq field overruns")
        w.chk(o + 2 + sl == len(body), "uid_rq: %d trailing bytes" % (len(body) - (o + 2 + sl)))
        return {"k": "uid_rq", "utype": utype, "resp": resp, "prim": prim.hex(), "sec": sec.hex()}
    if t == 0x59:
        w.chk(res == 0, "uid_ac reserved != 0")
        rl = struct.unpack(">H", body[:2])[0]
        w.chk(2 + rl == len(body), "uid_ac response-length %d != %d" % (rl, len(body) - 2))
        return {"k": "uid_ac", "resp": body[2:2 + rl].hex()}
    return {"k": "unknown", "t": t, "hex": body.hex()}


def decode(b: bytes, w: Walk | None = None) -> dict:
    """Decode one complete PDU (raises RefError/struct.error/IndexError on malformed input)."""
    w = w or Walk()
    if len(b) < 6:
        raise RefError("short PDU")
    t, res, ln = struct.unpack(">BBI", b[:6])
    w.lengths.append(("pdu", 0, ln, len(b) - 6))
    w.chk(res == 0, "PDU reserved byte != 0")
    w.chk(ln == len(b) - 6, "PDU length %d != %d" % (ln, len(b) - 6))
    body = b[6:]
    if t in (1, 2):
        version, r2 = struct.unpack(">HH", body[:4])
        w.chk(r2 == 0, "RQ/AC reserved 9-10 != 0")
        called = body[4:20].decode("latin-1"); calling = body[20:36].decode("latin-1")
        w.chk(body[36:68] == bytes(32), "RQ/AC reserved 32 bytes != 0")
        v = {"type": PDU_NAMES[t], "version": version, "called": called.strip(" "), "calling": calling.strip(" "),
             "called_raw": called, "calling_raw": calling, "app_ctx": None, "pcs": [], "ui": None,
             "n_app_ctx": 0, "n_ui": 0, "order": []}
        for (it, ires, ibody, off) in _items(body[68:], 74, w, PDU_NAMES[t]):
            v["order"].append(it)
            if it == 0x10:
                w.chk(ires == 0, "app ctx reserved != 0")
                v["app_ctx"] = ibody.decode("latin-1"); v["n_app_ctx"] += 1
            elif it == 0x20 and t == 1:
                w.chk(ires == 0, "pc reserved != 0")
                w.chk(ibody[1:4] == b"\0\0\0", "pc-rq reserved bytes != 0")
                pc = {"id": ibody[0], "abs": None, "ts": [], "n_abs": 0}
                for (st, sres, sbody, soff) in _items(ibody[4:], off + 8, w, "RQ/20"):
                    w.chk(sres == 0, "pc sub-item reserved != 0")
                    if st == 0x30:
                        pc["abs"] = sbody.decode("latin-1"); pc["n_abs"] += 1
                    elif st == 0x40:
                        pc["ts"].append(sbody.decode("latin-1"))
                    else:
                        w.problems.append("pc-rq: unexpected sub-item %02x" % st)
                v["pcs"].append(pc)
            elif it == 0x21 and t == 2:
                w.chk(ires == 0, "pc reserved != 0")
                w.chk(ibody[1] == 0 and ibody[3] == 0, "pc-ac reserved bytes != 0")
                pc = {"id": ibody[0], "result": ibody[2], "ts": None, "n_ts": 0}
                for (st, sres, sbody, soff) in _items(ibody[4:], off + 8, w, "AC/21"):
                    if st == 0x40:
                        pc["ts"] = sbody.decode("latin-1"); pc["n_ts"] += 1
                    else:
                        w.problems.append("pc-ac: unexpected sub-item %02x" % st)
                v["pcs"].append(pc)
            elif it == 0x50:
                w.chk(ires == 0, "ui reserved != 0")
                v["n_ui"] += 1
                v["ui"] = [dec_subitem(st, sres, sbody, w) for (st, sres, sbody, soff) in _items(ibody, off + 4, w, "ui")]
            else:
                w.problems.append("unexpected item %02x in %s" % (it, PDU_NAMES[t]))
        return v
    if t == 3:
        w.chk(ln == 4, "RJ length != 4"); w.chk(body[0] == 0, "RJ reserved != 0")
        return {"type": "RJ", "result": body[1], "source": body[2], "reason": body[3]}
    if t == 4:
        pdvs = []
        off = 0
        while off < len(body):
            if off + 4 > len(body):
                w.problems.append("PDATA: truncated PDV header"); break
            l = struct.unpack(">I", body[off:off + 4])[0]
            item = body[off + 4:off + 4 + l]
            w.lengths.append(("PDATA/pdv", 6 + off, l, len(item)))
            w.chk(len(item) == l, "PDV declares %d bytes, %d available" % (l, len(item)))
            w.chk(l >= 2, "PDV shorter than id+header")
            pdvs.append({"id": item[0] if item else None, "data": item[1:].hex()})
            off += 4 + l
        return {"type": "PDATA", "pdvs": pdvs}
    if t in (5, 6):
        w.chk(ln == 4, "release length != 4"); w.chk(body[:4] == b"\0\0\0\0", "release reserved != 0")
        return {"type": PDU_NAMES[t]}
    if t == 7:
        w.chk(ln == 4, "abort length != 4"); w.chk(body[0] == 0 and body[1] == 0, "abort reserved != 0")
        return {"type": "ABORT", "source": body[2], "reason": body[3]}
    raise RefError("unknown PDU type %02x" % t)


def canon(v: dict) -> dict:
    """Projection of a decoded/abstract value on the fields PS3.8 transmits (drops walker extras)."""
    t = v["type"]
    if t in ("RQ", "AC"):
        out = {"type": t, "version": v.get("version", 1), "called": v["called"].strip(" "),
               "calling": v["calling"].strip(" "), "app_ctx": v["app_ctx"], "ui": v["ui"]}
        if t == "RQ":
            out["pcs"] = [{"id": p["id"], "abs": p["abs"], "ts": list(p["ts"])} for p in v["pcs"]]
        else:
            out["pcs"] = [{"id": p["id"], "result": p["result"], "ts": p.get("ts")} for p in v["pcs"]]
        return out
    if t == "PDATA":
        return {"type": t, "pdvs": [{"id": p["id"], "data": p["data"] if isinstance(p["data"], str) else p["data"].hex()} for p in v["pdvs"]]}
    return {k: v[k] for k in v if k in ("type", "result", "source", "reason")}


def split_stream(buf: bytes):
    """Split a byte stream into complete PDUs; returns (list_of_pdu_bytes, remainder)."""
    out = []
    off = 0
    while off + 6 <= len(buf):
        ln = struct.unpack(">I", buf[off + 2:off + 6])[0]
        if off + 6 + ln > len(buf):
            break
        out.append(buf[off:off + 6 + ln])
        off += 6 + ln
    return out, buf[off:]


# ------------------------------------------------------------------ convenient builders for the scripted peer

def make_rq(called="ANY-SCP", calling="PEER", pcs=None, maxlen=16382, impl_uid="1.2.826.0.1.3680043.9.3811.9.9",
            impl_ver="REFPEER", extra_ui=(), version=1, app_ctx=DEFAULT_APP_CTX):
    if pcs is None:
        pcs = [{"id": 1, "abs": VERIFICATION, "ts": [IMPLICIT_LE]}]
    ui = [{"k": "maxlen", "v": maxlen}, {"k": "impl_uid", "v": impl_uid}]
    if impl_ver is not None:
        ui.append({"k": "impl_ver", "v": impl_ver})
    ui.extend(extra_ui)
    return {"type": "RQ", "version": version, "called": called, "calling": calling, "app_ctx": app_ctx,
            "pcs": pcs, "ui": ui}


def make_ac(rq: dict, results=None, maxlen=16382, impl_uid="1.2.826.0.1.3680043.9.3811.9.9", impl_ver="REFPEER",
            extra_ui=()):
    pcs = []
    for pc in rq["pcs"]:
        r = 0 if results is None else results.get(pc["id"], 3)
        if isinstance(r, tuple):
            res, ts = r
        else:
            res, ts = r, (pc["ts"][0] if pc.get("ts") else IMPLICIT_LE)
        pcs.append({"id": pc["id"], "result": res, "ts": ts})
    ui = [{"k": "maxlen", "v": maxlen}, {"k": "impl_uid", "v": impl_uid}]
    if impl_ver is not None:
        ui.append({"k": "impl_ver", "v": impl_ver})
    ui.extend(extra_ui)
    return {"type": "AC", "version": 1, "called": rq["called"], "calling": rq["calling"],
            "app_ctx": rq.get("app_ctx", DEFAULT_APP_CTX), "pcs": pcs, "ui": ui}


def pdv(ctx_id: int, fragment: bytes, is_command: bool, is_last: bool) -> dict:
    hdr = (1 if is_command else 0) | (2 if is_last else 0)
    return {"id": ctx_id, "data": (bytes([hdr]) + fragment).hex()}


def pdata(*pdvs) -> dict:
    return {"type": "PDATA", "pdvs": list(pdvs)}


# ------------------------------------------------------------------ conformance judgement (used to classify fuzz inputs)

import re as _re
_UID_RE = _re.compile(r"^(0|[1-9][0-9]*)(\.(0|[1-9][0-9]*))*$")
_AE_BAD = _re.compile(r"[\x00-\x1f\\\x7f-\xff]")


def _uid_ok(u):
    return isinstance(u, str) and 0 < len(u) <= 64 and bool(_UID_RE.match(u))


def conformance_problems(b: bytes):
    """Why a single complete PDU is NOT a PS3.8-conformant PDU ([] = conformant as far as this reference can tell)."""
    w = Walk()
    try:
        v = decode(b, w)
    except Exception as exc:
        return ["undecodable: %r" % exc]
    pr = [p for p in w.problems if "reserved" not in p]   # reserved bytes are 'not tested on receipt'
    t = v["type"]
    if t in ("RQ", "AC"):
        if v["n_app_ctx"] != 1: pr.append("application context items: %d" % v["n_app_ctx"])
        if v["n_ui"] != 1: pr.append("user information items: %d" % v["n_ui"])
        if not _uid_ok(v["app_ctx"] or ""): pr.append("application context name")
        if v.get("version", 1) & 1 == 0: pr.append("protocol version bit 0 not set")
        if t == "RQ":
            for name in ("called_raw", "calling_raw"):
                s = v[name]
                if not s.strip(" ") or _AE_BAD.search(s): pr.append("AE title %s" % name)
            if not (1 <= len(v["pcs"]) <= 128): pr.append("number of presentation contexts")
        ids = [p["id"] for p in v["pcs"]]
        if len(set(ids)) != len(ids): pr.append("duplicate context ids")
        for p in v["pcs"]:
            if p["id"] % 2 == 0: pr.append("even context id")
            if t == "RQ":
                if p["n_abs"] != 1 or not _uid_ok(p["abs"] or ""): pr.append("abstract syntax")
                if not p["ts"] or not all(_uid_ok(x) for x in p["ts"]): pr.append("transfer syntaxes")
            else:
                if p["result"] not in (0, 1, 2, 3, 4): pr.append("context result")
                if p["n_ts"] != 1: pr.append("AC transfer syntax items: %d" % p["n_ts"])
                if p["result"] == 0 and not _uid_ok(p["ts"] or ""): pr.append("accepted transfer syntax")
        kinds = [s["k"] for s in (v["ui"] or [])]
        if kinds.count("maxlen") != 1: pr.append("maximum length sub-items: %d" % kinds.count("maxlen"))
        if kinds.count("impl_uid") != 1: pr.append("implementation class uid sub-items")
        if "unknown" in kinds: pr.append("unknown user-information sub-item")
        for s in (v["ui"] or []):
            k = s["k"]
            if k == "impl_uid" and not _uid_ok(s["v"]): pr.append("implementation class uid")
            if k == "impl_ver" and (not (1 <= len(s["v"]) <= 16) or _AE_BAD.search(s["v"])): pr.append("implementation version name")
            if k in ("role", "sopext", "commonext") and not _uid_ok(s["uid"]): pr.append("%s uid" % k)
            if k == "role" and (s["scu"] not in (0, 1) or s["scp"] not in (0, 1) or (s["scu"], s["scp"]) == (0, 0)): pr.append("role bytes")
            if k == "commonext" and (not _uid_ok(s["svc"]) or not all(_uid_ok(x) for x in s["rel"])): pr.append("commonext uids")
            if k == "uid_rq" and (s["utype"] not in (1, 2, 3, 4, 5) or s["resp"] not in (0, 1) or t != "RQ" or (s["utype"] == 2 and not s["sec"])): pr.append("user identity rq")
            if k == "uid_ac" and t != "AC": pr.append("user identity ac in rq")
            if k in ("commonext",) and t != "RQ": pr.append("commonext in ac")
        if kinds.count("async") > 1 or kinds.count("impl_ver") > 1 or kinds.count("uid_rq") > 1 or kinds.count("uid_ac") > 1:
            pr.append("duplicated single-occurrence sub-item")
    elif t == "RJ":
        legal = {1: (1, 2, 3, 7), 2: (1, 2), 3: (1, 2)}
        if v["result"] not in (1, 2) or v["source"] not in legal or v["reason"] not in legal.get(v["source"], ()): pr.append("reject codes")
    elif t == "ABORT":
        if v["source"] not in (0, 2) or (v["source"] == 2 and v["reason"] not in (0, 1, 2, 4, 5, 6)): pr.append("abort codes")
    elif t == "PDATA":
        if not v["pdvs"]: pr.append("no PDV")
        for p in v["pdvs"]:
            if p["id"] is None or p["id"] % 2 == 0: pr.append("pdv context id")
            if len(p["data"]) < 2: pr.append("pdv without control header")
            elif int(p["data"][:2], 16) > 3: pr.append("control header reserved bits")
    return pr


def stream_conformant(stream: bytes) -> bool:
    pdus, rest = split_stream(stream)
    if rest or not pdus:
        return False
    return all(p[0] in range(1, 8) and not conformance_problems(p) for p in pdus)
