"""Two real pynetdicom AEs in one process running a scripted association lifecycle; records the two-sided
notification history and the outcome.  Used by C06 (outcome agreement / termination), C27 (history grammar)."""
from __future__ import annotations

import threading
import time

from . import harness, sched, taps

VER = "1.2.840.10008.1.1"
CT = "1.2.840.10008.5.1.4.1.1.2"
FIND = "1.2.840.10008.5.1.4.1.2.1.1"

SCENARIOS = [
    # name, requestor ops, requestor end, acceptor behaviour
    {"name": "nominal-release", "ops": ["echo", "echo"], "end": "release"},
    {"name": "nominal-find-release", "ops": ["find", "echo"], "end": "release"},
    {"name": "requestor-abort", "ops": ["echo"], "end": "abort"},
    {"name": "requestor-abort-immediately", "ops": [], "end": "abort"},
    {"name": "handler-aborts", "ops": ["echo"], "end": "release", "handler": "abort"},
    {"name": "acceptor-releases-idle", "ops": ["echo"], "end": "wait", "server": ["release", "idle"]},
    {"name": "acceptor-aborts-idle", "ops": ["echo"], "end": "wait", "server": ["abort", "idle"]},
    {"name": "acceptor-aborts-during-handler", "ops": ["echo"], "end": "release", "handler": "sleep", "server": ["abort", "handler"]},
    {"name": "acceptor-shutdown-idle", "ops": ["echo"], "end": "wait", "server": ["shutdown", "idle"]},
    {"name": "acceptor-shutdown-during-handler", "ops": ["echo"], "end": "release", "handler": "sleep", "server": ["shutdown", "handler"]},
    {"name": "release-collision", "ops": ["echo"], "end": "release", "server": ["release", "with-end"]},
    {"name": "abort-during-release-by-acceptor", "ops": ["echo"], "end": "release", "server": ["abort", "with-end"]},
    {"name": "abort-during-release-by-requestor", "ops": ["echo"], "end": "abort", "server": ["release", "with-end"]},
    {"name": "both-abort", "ops": ["echo"], "end": "abort", "server": ["abort", "with-end"]},
    {"name": "double-abort-same-side", "ops": ["echo"], "end": "abort2"},
    # second abort() arrives while the first caller is still inside send_abort() (its A-ABORT request already issued)
    {"name": "second-abort-after-first-was-sent", "ops": ["echo"], "end": "abort2-staggered"},
    {"name": "abort-and-shutdown-same-side", "ops": ["echo"], "end": "wait", "server": ["abort+shutdown", "idle"]},
    {"name": "network-timeout-abort", "ops": ["echo"], "end": "wait", "acc_net_timeout": 0.4, "nt_response": "A-ABORT"},
    {"name": "network-timeout-release", "ops": ["echo"], "end": "wait", "acc_net_timeout": 0.4, "nt_response": "A-RELEASE"},
    {"name": "rejected-called-aet", "ops": [], "end": "none", "reject": True},
    {"name": "store-then-release", "ops": ["store", "echo"], "end": "release"},
    # the local side aborts while the peer is still streaming P-DATA at it: the provider sits in Sta13 ignoring PDUs
    {"name": "requestor-aborts-while-peer-streams", "ops": ["find-then-abort"], "end": "none", "find_n": 400},
]
SCENARIOS += [
    # ARTIM (ACSE timeout set to 50 ms once established) has already expired when the provider looks again after its own
    # A-ABORT / release response, because a slow notification handler held it up: Sta13 + Evt18 -> AA-2
    {"name": "requestor-abort-short-artim-slow-handler", "ops": ["echo"], "end": "abort", "short_artim": "req",
     "slow": {"req|AA-1": 0.15}},
    {"name": "acceptor-abort-short-artim-slow-handler", "ops": ["echo"], "end": "wait", "server": ["abort", "idle"], "short_artim": "acc",
     "slow": {"acc|AA-1": 0.15}},
    # the acceptor's reactor is busy (a handler blocks for 2.5 s) when the requestor asks for the release: the requestor's wait is
    # governed by its ACSE timeout (0.4 s), not by its DIMSE timeout (6 s)
    {"name": "release-while-peer-busy-longer-than-acse-timeout", "ops": ["echo-bg"], "end": "release", "handler": "block-2.5",
     "req_timeouts": (0.4, 6.0, 6.0, 3.0)},
    # release() called too early (before the association is established) is a no-op and must stay one: afterwards the peer ends it
    {"name": "early-release-call-by-requestor-then-acceptor-releases", "ops": [], "end": "wait", "server": ["release", "idle"],
     "early_release": "req"},
    {"name": "early-release-call-by-acceptor-then-requestor-releases", "ops": ["echo"], "end": "release", "early_release": "acc"},
    # staggered double abort while the provider is held up in its AA-1 transition notification: a second A-ABORT request, if one
    # gets past the guard, is then processed in Sta13
    {"name": "second-abort-after-first-was-sent-slow-provider", "ops": ["echo"], "end": "abort2-staggered", "slow": {"req|AA-1": 0.15}},
    {"name": "release-short-artim-slow-handler", "ops": ["echo"], "end": "release", "short_artim": "acc", "slow": {"acc|AR-4": 0.15}},
    # a second user thread of the requestor releases while its own C-ECHO is still being served by a slow handler ...
    {"name": "release-from-second-thread-during-own-echo", "ops": ["echo-bg"], "end": "release", "handler": "block"},
    # ... and the acceptor's application aborts (as AE.shutdown() would) after the A-RELEASE-RQ arrived, before the handler returns
    {"name": "release-during-own-echo-then-acceptor-aborts-in-handler", "ops": ["echo-bg"], "end": "release", "handler": "block",
     "server": ["abort-blocking", "release-rq-seen"]},
]
BY_NAME = {s["name"]: s for s in SCENARIOS}


def yield_points():
    """Named scheduling points (source patterns) for interleaving stress."""
    from pynetdicom.association import Association
    from pynetdicom.acse import ACSE
    from pynetdicom.transport import RequestHandler
    return [
        # the server thread between creating the acceptor association, announcing the connection and starting the association
        (RequestHandler.handle, "evt.trigger(assoc, evt.EVT_CONN_OPEN", 0),
        (RequestHandler.handle, "assoc.start()", 0),
        (Association._run_reactor, "self._reactor_checkpoint.wait()", 0),
        (Association._run_reactor, "if self.is_established and self.acse.is_release_requested()", 0),
        (Association._run_reactor, "if self.acse.is_aborted()", 0),
        (Association._run_reactor, "self.is_released = True", 0),
        (Association.release, "while not self._is_paused", 0),
        (Association.release, "self.acse.negotiate_release()", 0),
        (Association._abort_blocking, "if self.is_released", 0),
        (Association._abort_blocking, "self._reactor_checkpoint.set()", 0),
        (Association._abort_blocking, "self.acse.send_abort(0x00)", 0),
        (Association._abort_blocking, "evt.trigger(self, evt.EVT_ABORTED", 0),
        (Association.kill, "while self.dul.is_alive()", 0),
        (ACSE.negotiate_release, "primitive = self.dul.receive_pdu", 0),
        (ACSE.negotiate_release, "self.send_release(is_response=False)", 0),
        (ACSE.negotiate_release, "self.assoc.is_released = True", 0),
    ]


class Recorder:
    def __init__(self):
        self.lock = threading.Lock()
        self.events = []      # dict(seq, side, name, assoc_id, ...)
        self.n = 0
        self.on_abort_sent = None   # optional callable(side): runs inside the EVT_ACSE_SENT notification of an A-ABORT
        self.slow = {}              # (side, fsm action) -> seconds the EVT_FSM_TRANSITION notification handler takes

    def make(self, side, raise_mask=None):
        from pynetdicom import evt
        names = ["EVT_ABORTED", "EVT_ACCEPTED", "EVT_ACSE_RECV", "EVT_ACSE_SENT", "EVT_CONN_CLOSE", "EVT_CONN_OPEN",
                 "EVT_DATA_RECV", "EVT_DATA_SENT", "EVT_DIMSE_RECV", "EVT_DIMSE_SENT", "EVT_ESTABLISHED",
                 "EVT_FSM_TRANSITION", "EVT_PDU_RECV", "EVT_PDU_SENT", "EVT_REJECTED", "EVT_RELEASED", "EVT_REQUESTED"]
        out = []
        for nm in names:
            e = getattr(evt, nm)

            def h(event, _nm=nm):
                rec = {"side": side, "name": _nm, "assoc": id(event.assoc)}
                if _nm == "EVT_FSM_TRANSITION":
                    rec.update(cur=event.current_state, nxt=event.next_state, fsm_event=event.fsm_event, action=event.action)
                    if self.slow.get((side, event.action)):
                        time.sleep(self.slow[(side, event.action)])
                elif _nm in ("EVT_PDU_SENT", "EVT_PDU_RECV"):
                    try:
                        rec["bytes"] = event.pdu.encode()
                    except Exception as exc:
                        rec["bytes"] = None; rec["err"] = repr(exc)
                elif _nm in ("EVT_DATA_SENT", "EVT_DATA_RECV"):
                    rec["bytes"] = bytes(event.data)
                elif _nm in ("EVT_ACSE_SENT", "EVT_ACSE_RECV"):
                    rec["prim"] = type(event.primitive).__name__
                with self.lock:
                    self.n += 1
                    rec["seq"] = self.n
                    self.events.append(rec)
                    k = sum(1 for x in self.events if x["name"] == _nm and x["side"] == side)
                if _nm == "EVT_ACSE_SENT" and rec.get("prim") in ("A_ABORT", "A_P_ABORT") and self.on_abort_sent:
                    self.on_abort_sent(side)
                if raise_mask and (_nm, k) in raise_mask:
                    raise RuntimeError("injected failure in %s handler #%d" % (_nm, k))
            out.append((e, h))
        return out


def run(scn, seed=0, yields=None, raise_mask_acc=None, raise_mask_req=None, watchdog=20.0):
    """Executes one lifecycle scenario. Returns dict(history, outcome, problems)."""
    from pynetdicom import evt, build_context
    from pydicom.dataset import Dataset
    taps.reset()
    rec = Recorder()
    sync = {"handler_entered": threading.Event(), "go_end": threading.Event(), "established": threading.Event(),
            "resume_handler": threading.Event(), "release_rq_seen": threading.Event()}
    acc_net = scn.get("acc_net_timeout", 3.0)
    # ACSE/DIMSE timeouts are generous so that a loaded machine cannot turn a slow answer into a timeout-abort
    ae_acc = harness.make_ae(title="ACCEPTOR", timeouts=(3.0, 3.0, acc_net, 3.0), supported=[VER, CT, FIND])
    ae_req = harness.make_ae(title="REQUESTOR", timeouts=scn.get("req_timeouts", (3.0, 3.0, 4.0, 3.0)), requested=[VER, CT, FIND])
    if scn.get("reject"):
        ae_acc.require_called_aet = True
    acc_assoc = {}

    def on_echo(event):
        sync["handler_entered"].set()
        if scn.get("handler") == "abort":
            event.assoc.abort()
        elif scn.get("handler") == "sleep":
            time.sleep(0.25)
        elif scn.get("handler") == "block-2.5":
            time.sleep(2.5)
        elif scn.get("handler") == "block":
            # released by the server-side script, else after the peer's A-RELEASE-RQ has arrived (+ a little), else after 2 s
            if sync["release_rq_seen"].wait(2.0) and not scn.get("server"):
                time.sleep(0.05)
            elif scn.get("server"):
                sync["resume_handler"].wait(2.0)
        return 0x0000

    def on_fsm_acc(event):
        if event.fsm_event == "Evt12":
            sync["release_rq_seen"].set()

    def on_store(event):
        return 0x0000

    def on_find(event):
        for i in range(scn.get("find_n", 2)):
            ds = Dataset(); ds.QueryRetrieveLevel = "PATIENT"; ds.PatientName = "N%d" % i
            yield 0xFF00, ds

    for k_, v_ in (scn.get("slow") or {}).items():
        rec.slow[tuple(k_.split("|"))] = v_

    def on_established(event):
        acc_assoc["a"] = event.assoc
        if scn.get("short_artim") == "acc":
            event.assoc.acse_timeout = 0.05
        if scn.get("nt_response"):
            event.assoc.network_timeout_response = scn["nt_response"]
        sync["established"].set()

    # the scenario's own EVT_ESTABLISHED handler is bound FIRST: evt.trigger stops calling an event's remaining handlers after
    # one raised, so a raising recorder handler (C26) must not be able to switch the scenario's own plumbing off
    def early_release(event):
        try:
            event.assoc.release()
        except Exception as exc:
            res.setdefault("user_exc", []).append("early release(): %r" % (exc,))
    handlers = [(evt.EVT_ESTABLISHED, on_established)] + ([(evt.EVT_REQUESTED, early_release)] if scn.get("early_release") == "acc" else []) + rec.make("acc", raise_mask_acc) + [
        (evt.EVT_C_ECHO, on_echo), (evt.EVT_C_STORE, on_store), (evt.EVT_C_FIND, on_find), (evt.EVT_FSM_TRANSITION, on_fsm_acc)]
    server, port = harness.start_server(ae_acc, handlers)
    res = {"req": {}, "acc": {}}
    threads = []
    if yields is not None:
        yields.reseed(seed)
        yields.enabled = True

    def quiet(fn):
        try:
            fn()
        except Exception as exc:
            res.setdefault("user_exc", []).append(repr(exc))

    def server_side():
        act, when = scn["server"]
        if not sync["established"].wait(5.0):
            return
        a = acc_assoc.get("a")
        if when == "idle":
            time.sleep(0.15)
        elif when == "handler":
            sync["handler_entered"].wait(3.0); time.sleep(0.02)
        elif when == "with-end":
            sync["go_end"].wait(5.0)
        elif when == "release-rq-seen":
            sync["release_rq_seen"].wait(4.0); time.sleep(0.02)
        for part in act.split("+"):
            if part == "abort-blocking":
                quiet(a.abort)
                sync["resume_handler"].set()
                continue
            if part == "release":
                t = threading.Thread(target=quiet, args=(a.release,), daemon=True)
            elif part == "abort":
                t = threading.Thread(target=quiet, args=(a.abort,), daemon=True)
            else:
                t = threading.Thread(target=quiet, args=(ae_acc.shutdown,), daemon=True)
            t.start(); threads.append(t)

    if scn.get("server"):
        st = threading.Thread(target=server_side, daemon=True)
        st.start(); threads.append(st)

    def requestor():
        try:
            assoc = ae_req.associate("127.0.0.1", port, evt_handlers=([(evt.EVT_ACCEPTED, early_release)] if scn.get("early_release") == "req" else []) + rec.make("req", raise_mask_req),
                                     ae_title="WRONG" if scn.get("reject") else "ACCEPTOR")
            res["req"]["assoc"] = assoc
            if not assoc.is_established:
                return
            for op in scn["ops"]:
                if not assoc.is_established:
                    break
                if op == "echo":
                    st_ = assoc.send_c_echo()
                    res["req"].setdefault("status", []).append(getattr(st_, "Status", None))
                elif op == "echo-bg":
                    tb = threading.Thread(target=quiet, args=(assoc.send_c_echo,), daemon=True)
                    tb.start(); threads.append(tb)
                    sync["handler_entered"].wait(3.0)
                elif op == "find":
                    ds = Dataset(); ds.QueryRetrieveLevel = "PATIENT"; ds.PatientName = "*"
                    res["req"].setdefault("status", []).append([getattr(s, "Status", None) for s, _ in assoc.send_c_find(ds, FIND)])
                elif op == "find-then-abort":
                    ds = Dataset(); ds.QueryRetrieveLevel = "PATIENT"; ds.PatientName = "*"
                    it = assoc.send_c_find(ds, FIND)
                    for k, (s_, _) in enumerate(it):
                        if k >= 3:
                            break
                    assoc.abort()
                elif op == "store":
                    ds = Dataset(); ds.SOPClassUID = CT; ds.SOPInstanceUID = "1.2.3.4"; ds.PatientName = "X"
                    from pydicom.uid import ImplicitVRLittleEndian
                    from pydicom.dataset import FileMetaDataset
                    ds.file_meta = FileMetaDataset(); ds.file_meta.TransferSyntaxUID = ImplicitVRLittleEndian
                    st_ = assoc.send_c_store(ds)
                    res["req"].setdefault("status", []).append(getattr(st_, "Status", None))
            if scn.get("short_artim") == "req":
                assoc.acse_timeout = 0.05
            sync["go_end"].set()
            end = scn["end"]
            if end == "release":
                t_rel = time.monotonic()
                assoc.release()
                res["req"]["release_call_s"] = round(time.monotonic() - t_rel, 3)
            elif end == "abort":
                assoc.abort()
            elif end == "abort2":
                t2 = threading.Thread(target=quiet, args=(assoc.abort,), daemon=True)
                t2.start(); threads.append(t2)
                assoc.abort()
            elif end == "abort2-staggered":
                first_sent = threading.Event()

                def hold(side):
                    if side == "req" and not first_sent.is_set():
                        first_sent.set()
                        time.sleep(0.08)     # the first caller is still inside send_abort() while the second one arrives
                rec.on_abort_sent = hold

                def second():
                    first_sent.wait(3.0)
                    quiet(assoc.abort)
                t2 = threading.Thread(target=second, daemon=True)
                t2.start(); threads.append(t2)
                assoc.abort()
            elif end == "wait":
                harness.wait_for(lambda: not assoc.is_established, 8.0)
        except Exception as exc:
            res.setdefault("user_exc", []).append(repr(exc))

    # tap: entry of every Association._abort_blocking call (same sequence counter as the notifications)
    from pynetdicom.association import Association
    orig_abort = Association._abort_blocking

    def tapped_abort(self_, block=True):
        with rec.lock:
            rec.n += 1
            rec.events.append({"seq": rec.n, "side": "req" if self_.is_requestor else "acc", "name": "ABORT_CALL_ENTER",
                               "assoc": id(self_), "thread": threading.get_ident(), "already_sent": self_._sent_abort})
        return orig_abort(self_, block)
    Association._abort_blocking = tapped_abort

    rt = threading.Thread(target=requestor, daemon=True)
    t0 = time.time()
    rt.start()
    rt.join(watchdog)
    for t in threads:
        t.join(max(0.1, watchdog - (time.time() - t0)))
    quiet_ok, waited = taps.wait_quiet(max(1.0, watchdog - (time.time() - t0)))
    if yields is not None:
        yields.enabled = False
    Association._abort_blocking = orig_abort
    req_assoc = res["req"].get("assoc")
    a_assoc = acc_assoc.get("a")
    if a_assoc is None:
        accs = harness.acceptor_assocs()
        a_assoc = accs[0] if accs else None

    def flags(a):
        if a is None:
            return None
        return {"established": a.is_established, "released": a.is_released, "aborted": a.is_aborted, "rejected": a.is_rejected,
                "alive": a.is_alive(), "dul_alive": a.dul.is_alive(), "fsm": a.dul.state_machine.current_state}
    # stable-stack rule, applied BEFORE the AEs are stopped (stopping them aborts and thereby frees a blocked reactor)
    parked = []
    for (a, al, dl, s_) in taps.assoc_threads():
        for th in ([a] if al else []) + ([a.dul] if dl else []):
            same, stack = taps.stable_block(th, 1.0)
            if same:
                parked.append((a.mode, th.name.split("@")[0], stack[-2:]))
    out = {"parked_threads": parked, "history": rec.events, "req": flags(req_assoc), "acc": flags(a_assoc), "statuses": res["req"].get("status"),
           "user_exc": res.get("user_exc"), "quiet": quiet_ok, "release_call_s": res["req"].get("release_call_s"),
           "req_acse_timeout": scn.get("req_timeouts", (3.0,))[0], "wall": round(time.time() - t0, 2),
           "requestor_returned": not rt.is_alive(), "open_sockets": len(taps.open_sockets()),
           "req_id": id(req_assoc) if req_assoc is not None else None, "acc_id": id(a_assoc) if a_assoc is not None else None,
           "excs": list(taps.State.excs), "fsm_problems": list(taps.State.fsm_problems),
           "stuck": [(a.mode, al, dl, s) for (a, al, dl, s) in taps.assoc_threads() if al or dl],
           "yield_hits": dict(yields.hits) if yields is not None else {}}
    harness.stop_ae(ae_acc, 3.0)
    harness.stop_ae(ae_req, 3.0)
    return out
