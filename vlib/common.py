"""Shared machinery: case sharding over worker subprocesses, 3-valued verdicts,
known-finding classification, evidence + replay writing.

A property module (props/Cxx.py) defines

    PID, LEVEL, RULE, ASSUMPTIONS           constants
    WORKERS = {"quick": n, "thorough": n}   optional, default 16
    CASE_TIMEOUT = seconds                  optional soft budget per case (worker-level)
    gen_cases(tier, seed) -> list[dict]     JSON-serialisable case descriptions
    run_case(case) -> dict                  executes ONE case under the monitors:
        {"key": str,            distinctness key (content hash / signature)
         "nontrivial": bool,
         "sample": <json>,      optional, what the case looked like / what was observed
         "violations": [{"key": mechanism-key, "detail": str}],
         "counters": {name: int},
         "inconclusive": str|None}
    REQUIRE = {counter: minimum}            optional: run is INCONCLUSIVE when not reached
    setup_worker()                          optional: install taps once per worker process

Every random decision derives from VERIF_SEED.  Exit codes: 0 held (known findings
are printed as KNOWN-FINDING lines), 1 violation (VIOLATION lines), 2 inconclusive.
"""
from __future__ import annotations

import hashlib
import importlib
import json
import os
import random
import subprocess
import sys
import tempfile
import time
import traceback

ROOT = os.path.dirname(os.path.dirname(os.path.abspath(__file__)))
PY = os.environ.get("VERIF_PY", "/venv/bin/python")
REPO = os.environ.get("VERIF_REPO", "/repo")


def seed_from_env() -> int:
    try:
        return int(os.environ.get("VERIF_SEED", "0"))
    except ValueError:
        return 0


def rng_for(seed: int, *parts) -> random.Random:
    h = hashlib.sha256(("|".join(str(p) for p in (seed,) + parts)).encode()).digest()
    return random.Random(int.from_bytes(h[:8], "big"))


def sha(obj) -> str:
    if isinstance(obj, (bytes, bytearray)):
        b = bytes(obj)
    else:
        b = json.dumps(obj, sort_keys=True, default=repr).encode()
    return hashlib.sha1(b).hexdigest()[:16]


def jsonable(x, depth=0):
    """Best-effort conversion to JSON-safe data (bytes -> hex)."""
    if depth > 8:
        return repr(x)[:200]
    if isinstance(x, (bytes, bytearray)):
        h = bytes(x).hex()
        return {"hex": h if len(h) <= 600 else h[:600] + "...", "len": len(x)}
    if isinstance(x, (str, int, float, bool)) or x is None:
        return x
    if isinstance(x, dict):
        return {str(k): jsonable(v, depth + 1) for k, v in x.items()}
    if isinstance(x, (list, tuple, set, frozenset)):
        return [jsonable(v, depth + 1) for v in x]
    return repr(x)[:300]


# ------------------------------------------------------------------ known findings

def load_known(pid: str):
    path = os.path.join(ROOT, "known_findings.json")
    try:
        data = json.load(open(path))
    except FileNotFoundError:
        return []
    return [f for f in data.get("open", []) if f.get("property") == pid]


def match_known(known, vkey: str):
    """A finding is keyed by mechanism: its `key` must equal the violation key or be
    a prefix of it ending at a '|' boundary."""
    for f in known:
        k = f["key"]
        if vkey == k or vkey.startswith(k + "|"):
            return f
    return None


# ------------------------------------------------------------------ worker side

def _worker_main(modname: str, cases_path: str, out_path: str):
    os.environ.setdefault("PYNETDICOM_VERIF", "1")
    mod = importlib.import_module(modname)
    if hasattr(mod, "setup_worker"):
        mod.setup_worker()
    cases = json.load(open(cases_path))
    with open(out_path, "a") as out:
        for idx, case in cases:
            out.write(json.dumps({"start": idx}) + "\n")
            out.flush()
            t0 = time.time()
            try:
                res = mod.run_case(case)
            except BaseException as exc:  # harness error: never folded into held
                res = {
                    "key": "harness-error",
                    "nontrivial": False,
                    "violations": [],
                    "counters": {},
                    "inconclusive": "harness exception: "
                    + "".join(traceback.format_exception(exc))[-1500:],
                }
            res["idx"] = idx
            res["wall"] = round(time.time() - t0, 3)
            out.write(json.dumps(jsonable(res)) + "\n")
            out.flush()
    sys.stdout.flush()
    os._exit(0)  # never wait for stuck non-daemon threads of the code under test


# ------------------------------------------------------------------ driver side

def run_property(modname: str, tier: str, seed: int, replay: str | None = None) -> int:
    t0 = time.time()
    mod = importlib.import_module(modname)
    pid = mod.PID
    known = load_known(pid)
    if replay:
        payload = json.load(open(replay))
        cases = [payload["case"]]
    else:
        cases = mod.gen_cases(tier, seed)
    indexed = list(enumerate(cases))
    nworkers = getattr(mod, "WORKERS", {}).get(tier, 16)
    if os.environ.get("VERIF_MAX_WORKERS"):
        nworkers = min(nworkers, int(os.environ["VERIF_MAX_WORKERS"]))
    nworkers = max(1, min(nworkers, len(indexed)))
    budget = getattr(mod, "WORKER_TIMEOUT", {}).get(tier, 900 if tier == "quick" else 7200)

    tmp = tempfile.mkdtemp(prefix="verif_%s_" % pid)
    procs = []
    try:
        for w in range(nworkers):
            shard = indexed[w::nworkers]
            cp = os.path.join(tmp, "cases_%d.json" % w)
            op = os.path.join(tmp, "out_%d.jsonl" % w)
            json.dump(shard, open(cp, "w"))
            open(op, "w").close()
            env = dict(os.environ)
            env["PYTHONHASHSEED"] = "0"
            env["PYNETDICOM_VERIF"] = "1"
            env["VERIF_SEED"] = str(seed)
            env["VERIF_TIER"] = tier
            env["PYTHONPATH"] = ROOT + os.pathsep + env.get("PYTHONPATH", "")
            if REPO != "/repo":
                env["PYTHONPATH"] = REPO + os.pathsep + env["PYTHONPATH"]
            p = subprocess.Popen(
                [PY, "-c",
                 "import sys; sys.path.insert(0, %r); "
                 "from vlib.common import _worker_main; _worker_main(%r, %r, %r)"
                 % (ROOT, modname, cp, op)],
                env=env, cwd=ROOT,
                stdout=open(os.path.join(tmp, "stdout_%d" % w), "w"),
                stderr=subprocess.STDOUT,
            )
            procs.append((p, op, w))
        deadline = time.time() + budget
        for p, _, _ in procs:
            try:
                p.wait(timeout=max(1, deadline - time.time()))
            except subprocess.TimeoutExpired:
                p.kill()
                p.wait()
        results = {}
        started = set()
        for p, op, w in procs:
            for line in open(op):
                line = line.strip()
                if not line:
                    continue
                try:
                    d = json.loads(line)
                except ValueError:
                    continue
                if "start" in d and len(d) == 1:
                    started.add(d["start"])
                else:
                    results[d["idx"]] = d
        worker_logs = {}
        for p, op, w in procs:
            if p.returncode not in (0,):
                try:
                    worker_logs[w] = open(os.path.join(tmp, "stdout_%d" % w)).read()[-2000:]
                except OSError:
                    pass
    finally:
        import shutil
        shutil.rmtree(tmp, ignore_errors=True)

    return _conclude(mod, pid, tier, seed, cases, results, started, known, t0,
                     worker_logs, replay)


def _conclude(mod, pid, tier, seed, cases, results, started, known, t0, worker_logs, replay):
    counters: dict[str, int] = {}
    distinct = set()
    samples = []
    inconclusive = []
    new_viol = {}
    known_hit = {}
    evaluations = 0
    for idx, case in enumerate(cases):
        r = results.get(idx)
        if r is None:
            why = "worker died/timeout during case" if idx in started else "case never started"
            inconclusive.append({"idx": idx, "why": why})
            continue
        evaluations += 1
        for k, v in (r.get("counters") or {}).items():
            if isinstance(v, int):
                counters[k] = counters.get(k, 0) + v
        if r.get("inconclusive"):
            inconclusive.append({"idx": idx, "why": str(r["inconclusive"])[:600]})
        if r.get("nontrivial"):
            distinct.add(r.get("key"))
        if r.get("sample") is not None and len(samples) < 6 and (idx % max(1, len(cases) // 6) == 0 or len(cases) < 12):
            samples.append(r["sample"])
        for v in r.get("violations") or []:
            f = match_known(known, v["key"])
            if f is not None:
                known_hit.setdefault(f["key"], {"finding": f, "count": 0, "first": v, "case": case})
                known_hit[f["key"]]["count"] += 1
            else:
                new_viol.setdefault(v["key"], {"count": 0, "first": v, "case": case, "idx": idx})
                new_viol[v["key"]]["count"] += 1
    if not samples:
        for idx in sorted(results):
            if results[idx].get("sample") is not None:
                samples.append(results[idx]["sample"])
                break

    # minimum-reach requirements => inconclusive, not held
    extra_vals = {}
    extra_fn = getattr(mod, "extra_evidence", None)
    if extra_fn:
        try:
            extra_vals = jsonable(extra_fn(tier, results))
        except Exception as exc:  # pragma: no cover
            extra_vals = {"extra_evidence_error": repr(exc)}
    unmet = []
    if not replay:
        req = getattr(mod, "REQUIRE", {})
        if callable(req):
            req = req(tier)
        for name, minimum in req.items():
            have = counters.get(name, extra_vals.get(name, 0) if isinstance(extra_vals.get(name, 0), int) else 0)
            if have < minimum:
                unmet.append("%s=%d<%d" % (name, have, minimum))

    replay_dir = os.path.join(ROOT, "replays", pid)
    lines = []
    for vkey, info in sorted(new_viol.items()):
        os.makedirs(replay_dir, exist_ok=True)
        path = os.path.join(replay_dir, "%s.json" % sha(vkey))
        json.dump({"property": pid, "key": vkey, "detail": info["first"].get("detail"),
                   "seed": seed, "tier": tier, "case": info["case"], "count": info["count"]},
                  open(path, "w"), indent=1, default=repr)
        lines.append("VIOLATION property=%s replay=%s key=%s :: %s" % (
            pid, os.path.relpath(path, ROOT), vkey, str(info["first"].get("detail"))[:300].replace("\n", " ")))
    for k, info in sorted(known_hit.items()):
        lines.append("KNOWN-FINDING: property=%s %s (%s; reproduced %d time(s) this run)" % (
            pid, info["finding"].get("what", k), k, info["count"]))

    allowed_inconclusive = getattr(mod, "MAX_INCONCLUSIVE_FRAC", 0.02)
    too_many_inconclusive = (len(inconclusive) > max(1, int(allowed_inconclusive * max(1, len(cases)))))
    if not cases:
        too_many_inconclusive = True

    ev = {
        "property_id": pid,
        "tier": tier,
        "seed": seed,
        "level": mod.LEVEL,
        "coverage": {
            "evaluations": evaluations,
            "distinct_nontrivial": len(distinct),
            "rule": mod.RULE,
            "samples": samples[:6],
            "counters": counters,
            "cases_generated": len(cases),
            "inconclusive_cases": len(inconclusive),
            "inconclusive_examples": inconclusive[:5],
            "known_findings_reproduced": {k: v["count"] for k, v in known_hit.items()},
            "new_violation_keys": sorted(new_viol)[:50],
            "requirements_unmet": unmet,
        },
        "assumptions": list(getattr(mod, "ASSUMPTIONS", [])),
        "wall_s": round(time.time() - t0, 2),
        "violations": len(new_viol),
    }
    if getattr(mod, "EXHAUSTIVE", {}).get(tier):
        ev["coverage"]["exhaustive"] = True
    ev["coverage"].update(extra_vals)
    if not replay and not os.environ.get("VERIF_NO_EVIDENCE"):
        os.makedirs(os.path.join(ROOT, "evidence"), exist_ok=True)
        json.dump(ev, open(os.path.join(ROOT, "evidence", "%s.json" % pid), "w"), indent=1)

    for ln in lines:
        print(ln)
    summary = ("%s tier=%s seed=%d cases=%d evaluated=%d distinct_nontrivial=%d new_violations=%d "
               "known=%d inconclusive=%d wall=%.1fs" % (
                   pid, tier, seed, len(cases), evaluations, len(distinct), len(new_viol),
                   len(known_hit), len(inconclusive), time.time() - t0))
    print(summary)
    if counters:
        print("counters: " + json.dumps(counters, sort_keys=True)[:1500])
    if new_viol:
        return 1
    if unmet or too_many_inconclusive or evaluations == 0:
        print("INCONCLUSIVE property=%s reason=%s" % (
            pid, "; ".join(unmet) or ("%d inconclusive cases" % len(inconclusive))))
        for inc in inconclusive[:3]:
            print("  inconclusive:", json.dumps(inc)[:700])
        for w, log in list(worker_logs.items())[:2]:
            print("  worker %d log tail: %s" % (w, log[-800:]))
        return 2
    return 0


def main(argv=None):
    import argparse
    ap = argparse.ArgumentParser()
    ap.add_argument("pid")
    ap.add_argument("--tier", default=os.environ.get("VERIF_TIER", "quick"), choices=["quick", "thorough"])
    ap.add_argument("--replay", default=None)
    ap.add_argument("--seed", type=int, default=None)
    a = ap.parse_args(argv)
    seed = a.seed if a.seed is not None else seed_from_env()
    sys.path.insert(0, ROOT)
    rc = run_property("props.%s" % a.pid, a.tier, seed, a.replay)
    sys.exit(rc)
