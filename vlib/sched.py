"""Source-free scheduling points via sys.monitoring (CPython 3.12).

DulGate: a per-iteration gate on `DULServiceProvider.run_reactor` (the single-step point C05 asks for).
    The LINE callback is enabled only on run_reactor's code object; the gate line is found by source pattern, so it
    follows edits of /repo.  While `armed`, every DUL thread parks at the top of each loop iteration until the
    explorer grants it iterations; environment actions (peer bytes, peer close, local abort()/release(), timer expiry)
    can therefore be placed *between* iterations deterministically.

YieldPoints: seeded sleep(0)/short delays at named lines of threaded code (between statements, never inside the code's
    own `with lock` sections) - used for C06/C07/C14/C23 interleaving stress.
"""
from __future__ import annotations

import inspect
import random
import sys
import threading
import time

TOOL_GATE = 3
TOOL_YIELD = 4
_mon = sys.monitoring


def find_line(func, pattern, nth=0):
    src, start = inspect.getsourcelines(func)
    hits = [start + i for i, l in enumerate(src) if pattern in l]
    if len(hits) <= nth:
        return None
    return hits[nth]


class DulGate:
    PATTERN = "if not self.assoc._dul_ready.is_set()"

    def __init__(self):
        from pynetdicom.dul import DULServiceProvider
        fn = DULServiceProvider.run_reactor
        self.code = fn.__code__
        self.line = find_line(fn, self.PATTERN)
        self.resolved = self.line is not None
        self.cv = threading.Condition()
        self.armed = False
        self.credits = {}       # thread ident -> granted iterations
        self.parked = {}        # thread ident -> True while waiting
        self.iterations = {}    # thread ident -> iterations passed
        self.timeouts = 0
        self.max_wait = 15.0
        self.installed = False
        self.passes = {}        # thread ident -> deque of the times its last iterations began (left the gate line)

    def install(self):
        if self.installed or not self.resolved:
            return self.resolved
        try:
            _mon.use_tool_id(TOOL_GATE, "verif-dul-gate")
        except ValueError:
            pass
        _mon.register_callback(TOOL_GATE, _mon.events.LINE, self._cb)
        _mon.set_local_events(TOOL_GATE, self.code, _mon.events.LINE)
        self.installed = True
        return True

    def _cb(self, code, line):
        if line != self.line:
            return _mon.DISABLE
        ident = threading.get_ident()
        dq = self.passes.get(ident)
        if dq is None:
            import collections
            dq = self.passes[ident] = collections.deque(maxlen=512)
        if not self.armed:
            dq.append(time.time())
            return None
        with self.cv:
            self.iterations[ident] = self.iterations.get(ident, 0) + 1
            if not self.armed:
                return None
            t0 = time.time()
            self.parked[ident] = True
            self.cv.notify_all()
            while self.armed and self.credits.get(ident, 0) <= 0:
                left = self.max_wait - (time.time() - t0)
                if left <= 0:
                    self.timeouts += 1
                    break
                self.cv.wait(min(left, 0.5))
            if self.credits.get(ident, 0) > 0:
                self.credits[ident] -= 1
            self.parked[ident] = False
        dq.append(time.time())
        return None

    # ---- explorer API
    def arm(self):
        with self.cv:
            self.armed = True
            self.credits = {}
            self.parked = {}
            self.iterations = {}
            self.timeouts = 0
        if self.installed:
            _mon.restart_events()

    def open(self):
        with self.cv:
            self.armed = False
            self.cv.notify_all()

    def grant(self, thread, n=1):
        with self.cv:
            self.credits[thread.ident] = self.credits.get(thread.ident, 0) + n
            self.cv.notify_all()

    def is_parked(self, thread):
        return bool(self.parked.get(thread.ident)) and self.credits.get(thread.ident, 0) <= 0

    def wait_parked(self, thread, timeout=3.0):
        """Wait until `thread` is parked at the gate with no credits left (= its granted iterations are done)."""
        t0 = time.time()
        with self.cv:
            while time.time() - t0 < timeout:
                if thread.ident is not None and self.parked.get(thread.ident) and self.credits.get(thread.ident, 0) <= 0:
                    return True
                if thread.ident is not None and not thread.is_alive() and thread.ident in self.iterations:
                    return False
                self.cv.wait(0.02)
        return False

    def step(self, thread, n=1, timeout=3.0):
        """Grant n iterations and wait until they have been consumed (thread parked again) or the thread ended."""
        self.grant(thread, n)
        return self.wait_parked(thread, timeout)


class YieldPoints:
    """Seeded yields/delays at named source lines: points = [(function, pattern, nth)].  `rng` decides per hit."""

    def __init__(self, points, seed=0, p_yield=0.5, max_delay=0.003):
        self.rng = random.Random(seed)
        self.lock = threading.Lock()
        self.p_yield = p_yield
        self.max_delay = max_delay
        self.targets = {}       # code -> set(lines)
        self.unresolved = []
        self.hits = {}
        self.enabled = False
        for (fn, pattern, nth) in points:
            fn = getattr(fn, "__func__", fn)
            line = find_line(fn, pattern, nth)
            if line is None:
                self.unresolved.append("%s:%s" % (getattr(fn, "__qualname__", fn), pattern))
                continue
            self.targets.setdefault(fn.__code__, set()).add(line)
        self.installed = False

    def install(self):
        if self.installed:
            return
        try:
            _mon.use_tool_id(TOOL_YIELD, "verif-yield")
        except ValueError:
            pass
        _mon.register_callback(TOOL_YIELD, _mon.events.LINE, self._cb)
        for code in self.targets:
            _mon.set_local_events(TOOL_YIELD, code, _mon.events.LINE)
        self.installed = True

    def uninstall(self):
        if not self.installed:
            return
        for code in self.targets:
            _mon.set_local_events(TOOL_YIELD, code, 0)
        _mon.register_callback(TOOL_YIELD, _mon.events.LINE, None)
        try:
            _mon.free_tool_id(TOOL_YIELD)
        except Exception:
            pass
        self.installed = False

    def reseed(self, seed):
        with self.lock:
            self.rng = random.Random(seed)
            self.hits = {}
        if self.installed:
            _mon.restart_events()

    def _cb(self, code, line):
        lines = self.targets.get(code)
        if lines is None or line not in lines:
            return _mon.DISABLE
        if not self.enabled:
            return None
        with self.lock:
            key = "%s:%d" % (code.co_name, line)
            self.hits[key] = self.hits.get(key, 0) + 1
            r = self.rng.random()
            d = self.rng.random() * self.max_delay
        if r < self.p_yield:
            time.sleep(0 if r < self.p_yield / 2 else d)
        return None
