"""Independent transcription of the DICOM Upper Layer state machine, PS3.8 section 9.2
(Tables 9-1..9-10).  Does not import pynetdicom.

TABLE[(state, event)] = action           (only the pairs Table 9-10 defines)
ACTION[action] = dict(next=..., sends=..., indication=..., artim=..., closes=...)
  next        state name, or ("role", Sta_if_requestor, Sta_if_acceptor), or ("ae6", ok_state, bad_state)
  sends       PDU type sent: None | "RQ" | "AC" | "RJ" | "PDATA" | "RELRQ" | "RELRP" | "ABORT"
  indication  primitive issued to the service user: None | "assoc-ind" | "assoc-conf-acc" | "assoc-conf-rej"
              | "release-ind" | "release-conf" | "pdata-ind" | "abort-ind" (A-ABORT or A-P-ABORT, by source)
              | "p-abort-ind"
  artim       None | "start" | "stop"        ("start" = start or restart)
  closes      True: the action closes the transport connection; False: it must stay open;
              None: connection is already gone (Evt17 actions) - not asserted
"""

STATES = ["Sta%d" % i for i in range(1, 14)]
EVENTS = ["Evt%d" % i for i in range(1, 20)]

ACTION = {
    "AE-1": dict(next="Sta4", sends=None, indication=None, artim=None, closes=False, connects=True),
    "AE-2": dict(next="Sta5", sends="RQ", indication=None, artim=None, closes=False),
    "AE-3": dict(next="Sta6", sends=None, indication="assoc-conf-acc", artim=None, closes=False),
    "AE-4": dict(next="Sta1", sends=None, indication="assoc-conf-rej", artim=None, closes=True),
    "AE-5": dict(next="Sta2", sends=None, indication=None, artim="start", closes=False),
    "AE-6": dict(next=("ae6", "Sta3", "Sta13"), sends=None, indication="assoc-ind", artim="stop", closes=False),
    "AE-7": dict(next="Sta6", sends="AC", indication=None, artim=None, closes=False),
    "AE-8": dict(next="Sta13", sends="RJ", indication=None, artim="start", closes=False),
    "DT-1": dict(next="Sta6", sends="PDATA", indication=None, artim=None, closes=False),
    "DT-2": dict(next="Sta6", sends=None, indication="pdata-ind", artim=None, closes=False),
    "AR-1": dict(next="Sta7", sends="RELRQ", indication=None, artim=None, closes=False),
    "AR-2": dict(next="Sta8", sends=None, indication="release-ind", artim=None, closes=False),
    "AR-3": dict(next="Sta1", sends=None, indication="release-conf", artim=None, closes=True),
    "AR-4": dict(next="Sta13", sends="RELRP", indication=None, artim="start", closes=False),
    "AR-5": dict(next="Sta1", sends=None, indication=None, artim="stop", closes=None),
    "AR-6": dict(next="Sta7", sends=None, indication="pdata-ind", artim=None, closes=False),
    "AR-7": dict(next="Sta8", sends="PDATA", indication=None, artim=None, closes=False),
    "AR-8": dict(next=("role", "Sta9", "Sta10"), sends=None, indication="release-ind", artim=None, closes=False),
    "AR-9": dict(next="Sta11", sends="RELRP", indication=None, artim=None, closes=False),
    "AR-10": dict(next="Sta12", sends=None, indication="release-conf", artim=None, closes=False),
    "AA-1": dict(next="Sta13", sends="ABORT", indication=None, artim="start", closes=False),
    "AA-2": dict(next="Sta1", sends=None, indication=None, artim="stop", closes=True),
    "AA-3": dict(next="Sta1", sends=None, indication="abort-ind", artim=None, closes=True),
    "AA-4": dict(next="Sta1", sends=None, indication="p-abort-ind", artim=None, closes=None),
    "AA-5": dict(next="Sta1", sends=None, indication=None, artim="stop", closes=None),
    "AA-6": dict(next="Sta13", sends=None, indication=None, artim=None, closes=False),
    "AA-7": dict(next="Sta13", sends="ABORT", indication=None, artim=None, closes=False),
    "AA-8": dict(next="Sta13", sends="ABORT", indication="p-abort-ind", artim="start", closes=False),
}


def _build():
    t = {}

    def put(evt, states, action):
        for s in states:
            t[("Sta%d" % s, "Evt%d" % evt)] = action

    put(1, [1], "AE-1")
    put(2, [4], "AE-2")
    put(3, [2], "AA-1"); put(3, [3], "AA-8"); put(3, [5], "AE-3"); put(3, range(6, 13), "AA-8"); put(3, [13], "AA-6")
    put(4, [2], "AA-1"); put(4, [3], "AA-8"); put(4, [5], "AE-4"); put(4, range(6, 13), "AA-8"); put(4, [13], "AA-6")
    put(5, [1], "AE-5")
    put(6, [2], "AE-6"); put(6, [3], "AA-8"); put(6, range(5, 13), "AA-8"); put(6, [13], "AA-7")
    put(7, [3], "AE-7")
    put(8, [3], "AE-8")
    put(9, [6], "DT-1"); put(9, [8], "AR-7")
    put(10, [2], "AA-1"); put(10, [3, 5], "AA-8"); put(10, [6], "DT-2"); put(10, [7], "AR-6")
    put(10, range(8, 13), "AA-8"); put(10, [13], "AA-6")
    put(11, [6], "AR-1")
    put(12, [2], "AA-1"); put(12, [3, 5], "AA-8"); put(12, [6], "AR-2"); put(12, [7], "AR-8")
    put(12, range(8, 13), "AA-8"); put(12, [13], "AA-6")
    put(13, [2], "AA-1"); put(13, [3, 5, 6], "AA-8"); put(13, [7], "AR-3"); put(13, [8, 9], "AA-8")
    put(13, [10], "AR-10"); put(13, [11], "AR-3"); put(13, [12], "AA-8"); put(13, [13], "AA-6")
    put(14, [8], "AR-4"); put(14, [9], "AR-9"); put(14, [12], "AR-4")
    put(15, [3], "AA-1"); put(15, [4], "AA-2"); put(15, range(5, 13), "AA-1")
    put(16, [2], "AA-2"); put(16, [3], "AA-3"); put(16, range(5, 13), "AA-3"); put(16, [13], "AA-2")
    put(17, [2], "AA-5"); put(17, [3, 4], "AA-4"); put(17, range(5, 13), "AA-4"); put(17, [13], "AR-5")
    put(18, [2], "AA-2"); put(18, [13], "AA-2")
    put(19, [2], "AA-1"); put(19, [3], "AA-8"); put(19, range(5, 13), "AA-8"); put(19, [13], "AA-7")
    return t


TABLE = _build()
assert len(TABLE) == 123, len(TABLE)  # defined cells of Table 9-10 (247 - 124 blank cells)


def next_state(action, is_requestor=True, version_ok=True):
    n = ACTION[action]["next"]
    if isinstance(n, tuple):
        if n[0] == "role":
            return n[1] if is_requestor else n[2]
        if n[0] == "ae6":
            return n[1] if version_ok else n[2]
    return n


def allowed_next_states(action):
    n = ACTION[action]["next"]
    return set(n[1:]) if isinstance(n, tuple) else {n}
