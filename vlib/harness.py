"""Helpers to run real pynetdicom AEs on loopback inside a check worker."""
from __future__ import annotations

import logging
import threading
import time

from . import taps


def quiet_logging():
    logging.disable(logging.CRITICAL)


def make_ae(title="VERIF-SCP", timeouts=(1.0, 1.0, 1.0, 1.0), supported=None, requested=None, max_pdu=16382, **opts):
    """timeouts = (acse, dimse, network, connection)"""
    from pynetdicom import AE
    ae = AE(ae_title=title)
    ae.acse_timeout, ae.dimse_timeout, ae.network_timeout, ae.connection_timeout = timeouts
    ae.maximum_pdu_size = max_pdu
    for k, v in opts.items():
        setattr(ae, k, v)
    for c in supported or []:
        if isinstance(c, (tuple, list)):
            ae.add_supported_context(*c)
        elif isinstance(c, dict):
            ae.add_supported_context(**c)
        else:
            ae.add_supported_context(c)
    for c in requested or []:
        if isinstance(c, (tuple, list)):
            ae.add_requested_context(*c)
        else:
            ae.add_requested_context(c)
    return ae


def start_server(ae, handlers=None):
    """Returns (server, port)."""
    server = ae.start_server(("127.0.0.1", 0), block=False, evt_handlers=handlers or [])
    return server, server.server_address[1]


def stop_ae(ae, timeout=5.0):
    """Shut the AE down from a helper thread (shutdown() may block on stuck associations)."""
    done = threading.Event()

    def run():
        try:
            ae.shutdown()
        except Exception:
            pass
        done.set()
    t = threading.Thread(target=run, daemon=True)
    t.start()
    return done.wait(timeout)


def wait_for(cond, timeout=3.0, poll=0.005):
    t0 = time.time()
    while time.time() - t0 < timeout:
        if cond():
            return True
        time.sleep(poll)
    return bool(cond())


def acceptor_assocs():
    return [a for a in taps.State.assocs if a.is_acceptor]


def requestor_assocs():
    return [a for a in taps.State.assocs if a.is_requestor]
