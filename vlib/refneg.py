"""REFERENCE: presentation-context negotiation (acceptor side, requestor-side interpretation)
and the documented SCP/SCU role-selection table.

Independent of pynetdicom (nothing is imported from it).  Sources:

* PS3.8 7.1.1.13/7.1.1.14 + Table 9-18: one result item per proposed presentation-context id;
  result 0 acceptance, 1 user-rejection, 2 no-reason (provider rejection), 3 abstract-syntax-not-
  supported, 4 transfer-syntaxes-not-supported; an accepted item carries exactly one transfer syntax,
  which must be one of those proposed for that id.
* PS3.7 Annex D.3.3.4 (SCP/SCU role selection): one item per SOP class (= abstract syntax); the
  requestor proposes SCU-role/SCP-role in {0,1}; the acceptor answers per item with 1 = accepts the
  proposed role, 0 = does not; "shall not return 1 where 0 was proposed"; item absent in RQ or in AC
  => default roles (requestor SCU, acceptor SCP).
* pynetdicom user documentation:
  - docs/user/presentation_negotiation.rst: 0x03 when the acceptor does not support the abstract
    syntax, 0x04 when no transfer syntax matches; "When acting as an acceptor, pynetdicom will choose
    the first matching transfer syntax in PresentationContext.transfer_syntax" (= the acceptor's own
    order of preference; worked example: rq [Implicit, Explicit, BE] x ac [Explicit, Implicit, BE] ->
    Explicit).
  - docs/user/presentation_role_selection.rst: the role-selection table (transcribed row by row
    into DOC_TABLE below); "When acting as the acceptor both scu_role and scp_role must be specified."
  - docs/user/ae_scp.rst: "If either scu_role or scp_role is None (the default) then no response to
    the role selection will be sent and the default roles assumed."
  - pynetdicom._config.UNRESTRICTED_STORAGE_SERVICE doc text: "assume all presentation contexts with
    private or unknown public abstract syntaxes belong to the storage service and accept all storage
    service requests ... any [supported storage contexts] that have been added will be ignored,
    however the supported contexts for other services will still need to be specified."

Data model (plain JSON-able python values, so the same inputs drive the real code and this model):

    proposed        [(context_id:int, abstract_syntax:str, [transfer_syntax:str, ...]), ...]
    supported       [(abstract_syntax:str, [transfer_syntax, ...] in acceptor preference order,
                      scu_role: None|bool, scp_role: None|bool), ...]      abstract syntaxes unique
    role proposals  {abstract_syntax: (scu_role:bool, scp_role:bool)}       (absent key = no item)
    role replies    {abstract_syntax: (scu_role:bool, scp_role:bool)}

Where the documentation does not fix a value the model returns None for it (callers must not assert).
"""

ACCEPTED = 0x00
USER_REJECTION = 0x01
PROVIDER_REJECTION = 0x02
ABSTRACT_SYNTAX_NOT_SUPPORTED = 0x03
TRANSFER_SYNTAX_NOT_SUPPORTED = 0x04

# ---------------------------------------------------------------------------------------------
# Documented role-selection table (docs/user/presentation_role_selection.rst), row by row.
# key: (requestor proposal (scu, scp), acceptor reply (scu, scp)) -> outcome name
# The acceptor columns of the documented table are what the acceptor *answers*; rows where the
# answer would be 1 for a role proposed as 0 do not exist in the table (PS3.7: shall not happen).
DEFAULT = "default"      # requestor SCU, acceptor SCP
INVERTED = "inverted"    # requestor SCP, acceptor SCU
BOTH = "both"            # both SCU/SCP
REJECTED = "rejected"    # neither: context rejected

DOC_TABLE = {
    ((True, True), (False, False)): REJECTED,
    ((True, True), (False, True)): INVERTED,
    ((True, True), (True, False)): DEFAULT,
    ((True, True), (True, True)): BOTH,
    ((True, False), (False, False)): REJECTED,
    ((True, False), (True, False)): DEFAULT,
    ((False, True), (False, False)): REJECTED,
    ((False, True), (False, True)): INVERTED,
    ((False, False), (False, False)): REJECTED,
}

# outcome -> (requestor.as_scu, requestor.as_scp, acceptor.as_scu, acceptor.as_scp)
OUTCOME_ROLES = {
    DEFAULT: (True, False, False, True),
    INVERTED: (False, True, True, False),
    BOTH: (True, True, True, True),
    REJECTED: (False, False, False, False),
}


def _ps37_rule(reply):
    """PS3.7 D.3.3.4 semantics of an answered item: the requestor acts as SCU iff its SCU proposal
    was accepted, as SCP iff its SCP proposal was accepted; the acceptor takes the complement."""
    rq_scu, rq_scp = bool(reply[0]), bool(reply[1])
    return (rq_scu, rq_scp, rq_scp, rq_scu)


# self-check at import: the transcribed documentation table and the PS3.7 rule agree on every
# documented row (two independent sources for the same 9 cells)
for (_p, _r), _o in DOC_TABLE.items():
    assert OUTCOME_ROLES[_o] == _ps37_rule(_r), (_p, _r, _o)
    assert not (_r[0] and not _p[0]) and not (_r[1] and not _p[1])


def mask_reply(proposal, supported_roles):
    """Effective answer of an acceptor configured with `supported_roles` (both not None): accept a
    proposed role iff configured True, and never answer 1 where 0 was proposed (PS3.7 D.3.3.4)."""
    return (bool(proposal[0]) and bool(supported_roles[0]),
            bool(proposal[1]) and bool(supported_roles[1]))


def role_outcome(proposal, reply):
    """Outcome name for (requestor proposal | None, acceptor reply | None).

    Returns None when the pair is not a row of the documented table (a reply to an item that was
    never proposed, or a reply granting a role proposed as 0)."""
    if proposal is None and reply is None:
        return DEFAULT
    if reply is None:
        # proposed but not answered: "no response ... and the default roles assumed"
        return DEFAULT
    if proposal is None:
        return None
    return DOC_TABLE.get(((bool(proposal[0]), bool(proposal[1])), (bool(reply[0]), bool(reply[1]))))


# ---------------------------------------------------------------------------------------------
# abstract-syntax categories for the unrestricted storage mode

DICOM_ROOT = "1.2.840.10008."

# The abstract syntaxes the generators draw from, with the category PS3.4 / PS3.6 give them.
POOL = {
    "1.2.840.10008.1.1": ("Verification", "non-storage"),
    "1.2.840.10008.5.1.4.1.1.2": ("CT Image Storage", "storage"),
    "1.2.840.10008.5.1.4.1.1.4": ("MR Image Storage", "storage"),
    "1.2.840.10008.5.1.4.1.1.7": ("Secondary Capture Image Storage", "storage"),
    "1.2.840.10008.5.1.4.1.1.88.11": ("Basic Text SR Storage", "storage"),
    "1.2.840.10008.5.1.4.1.2.1.1": ("Patient Root Q/R FIND", "non-storage"),
    "1.2.840.10008.5.1.4.1.2.2.2": ("Study Root Q/R MOVE", "non-storage"),
    "1.2.840.10008.5.1.4.1.2.2.3": ("Study Root Q/R GET", "non-storage"),
    "1.2.840.10008.5.1.4.31": ("Modality Worklist FIND", "non-storage"),
    "1.2.826.0.1.3680043.9.3811.1.1": ("private (UK root)", "private"),
    "1.3.6.1.4.1.5962.99.1": ("private (IANA PEN root)", "private"),
    "1.2.840.10008.5.1.4.1.1.9999": ("unassigned DICOM-root UID", "unknown-public"),
    "1.2.840.10008.15.99.1": ("unassigned DICOM-root UID", "unknown-public"),
}

# Wider classification tables for the unrestricted-mode classification probe (PS3.6 Table A-1 "SOP Class"
# entries; service class per PS3.4).  Only the category matters.
KNOWN_NON_STORAGE = {
    "1.2.840.10008.1.1": "Verification",
    "1.2.840.10008.1.20.1": "Storage Commitment Push Model",
    "1.2.840.10008.1.40": "Procedural Event Logging",
    "1.2.840.10008.1.42": "Substance Administration Logging",
    "1.2.840.10008.3.1.2.3.3": "Modality Performed Procedure Step",
    "1.2.840.10008.3.1.2.3.4": "Modality Performed Procedure Step Retrieve",
    "1.2.840.10008.3.1.2.3.5": "Modality Performed Procedure Step Notification",
    "1.2.840.10008.5.1.1.1": "Basic Film Session",
    "1.2.840.10008.5.1.1.2": "Basic Film Box",
    "1.2.840.10008.5.1.1.4": "Basic Grayscale Image Box",
    "1.2.840.10008.5.1.1.4.1": "Basic Color Image Box",
    "1.2.840.10008.5.1.1.9": "Basic Grayscale Print Management Meta",
    "1.2.840.10008.5.1.1.14": "Print Job",
    "1.2.840.10008.5.1.1.15": "Basic Annotation Box",
    "1.2.840.10008.5.1.1.16": "Printer",
    "1.2.840.10008.5.1.1.16.376": "Printer Configuration Retrieval",
    "1.2.840.10008.5.1.1.18": "Basic Color Print Management Meta",
    "1.2.840.10008.5.1.1.23": "Presentation LUT",
    "1.2.840.10008.5.1.1.33": "Media Creation Management",
    "1.2.840.10008.5.1.1.40": "Display System",
    "1.2.840.10008.5.1.4.1.2.1.1": "Patient Root Q/R FIND",
    "1.2.840.10008.5.1.4.1.2.1.2": "Patient Root Q/R MOVE",
    "1.2.840.10008.5.1.4.1.2.1.3": "Patient Root Q/R GET",
    "1.2.840.10008.5.1.4.1.2.2.1": "Study Root Q/R FIND",
    "1.2.840.10008.5.1.4.1.2.2.2": "Study Root Q/R MOVE",
    "1.2.840.10008.5.1.4.1.2.2.3": "Study Root Q/R GET",
    "1.2.840.10008.5.1.4.1.2.3.1": "Patient/Study Only Q/R FIND (retired)",
    "1.2.840.10008.5.1.4.1.2.3.2": "Patient/Study Only Q/R MOVE (retired)",
    "1.2.840.10008.5.1.4.1.2.3.3": "Patient/Study Only Q/R GET (retired)",
    "1.2.840.10008.5.1.4.1.2.4.2": "Composite Instance Root Retrieve MOVE",
    "1.2.840.10008.5.1.4.1.2.4.3": "Composite Instance Root Retrieve GET",
    "1.2.840.10008.5.1.4.1.2.5.3": "Composite Instance Retrieve Without Bulk Data GET",
    "1.2.840.10008.5.1.4.20.1": "Defined Procedure Protocol FIND",
    "1.2.840.10008.5.1.4.20.2": "Defined Procedure Protocol MOVE",
    "1.2.840.10008.5.1.4.20.3": "Defined Procedure Protocol GET",
    "1.2.840.10008.5.1.4.31": "Modality Worklist FIND",
    "1.2.840.10008.5.1.4.33": "Instance Availability Notification",
    "1.2.840.10008.5.1.4.34.6.1": "Unified Procedure Step Push",
    "1.2.840.10008.5.1.4.34.6.2": "Unified Procedure Step Watch",
    "1.2.840.10008.5.1.4.34.6.3": "Unified Procedure Step Pull",
    "1.2.840.10008.5.1.4.34.6.4": "Unified Procedure Step Event",
    "1.2.840.10008.5.1.4.34.6.5": "Unified Procedure Step Query",
    "1.2.840.10008.5.1.4.34.8": "RT Conventional Machine Verification",
    "1.2.840.10008.5.1.4.34.9": "RT Ion Machine Verification",
    "1.2.840.10008.5.1.4.37.1": "General Relevant Patient Information Query",
    "1.2.840.10008.5.1.4.37.2": "Breast Imaging Relevant Patient Information Query",
    "1.2.840.10008.5.1.4.37.3": "Cardiac Relevant Patient Information Query",
    "1.2.840.10008.5.1.4.38.2": "Hanging Protocol FIND",
    "1.2.840.10008.5.1.4.38.3": "Hanging Protocol MOVE",
    "1.2.840.10008.5.1.4.38.4": "Hanging Protocol GET",
    "1.2.840.10008.5.1.4.39.2": "Color Palette Q/R FIND",
    "1.2.840.10008.5.1.4.39.3": "Color Palette Q/R MOVE",
    "1.2.840.10008.5.1.4.39.4": "Color Palette Q/R GET",
    "1.2.840.10008.5.1.4.41": "Product Characteristics Query",
    "1.2.840.10008.5.1.4.42": "Substance Approval Query",
    "1.2.840.10008.5.1.4.43.2": "Generic Implant Template FIND",
    "1.2.840.10008.5.1.4.43.3": "Generic Implant Template MOVE",
    "1.2.840.10008.5.1.4.43.4": "Generic Implant Template GET",
    "1.2.840.10008.5.1.4.44.2": "Implant Assembly Template FIND",
    "1.2.840.10008.5.1.4.44.3": "Implant Assembly Template MOVE",
    "1.2.840.10008.5.1.4.44.4": "Implant Assembly Template GET",
    "1.2.840.10008.5.1.4.45.2": "Implant Template Group FIND",
    "1.2.840.10008.5.1.4.45.3": "Implant Template Group MOVE",
    "1.2.840.10008.5.1.4.45.4": "Implant Template Group GET",
    "1.2.840.10008.5.1.4.1.1.200.4": "Protocol Approval FIND",
    "1.2.840.10008.5.1.4.1.1.200.5": "Protocol Approval MOVE",
    "1.2.840.10008.5.1.4.1.1.200.6": "Protocol Approval GET",
    "1.2.840.10008.5.1.4.1.1.201.2": "Inventory FIND",
    "1.2.840.10008.5.1.4.1.1.201.3": "Inventory MOVE",
    "1.2.840.10008.5.1.4.1.1.201.4": "Inventory GET",
    "1.2.840.10008.5.1.4.1.1.201.5": "Inventory Creation",
}

KNOWN_STORAGE = {
    "1.2.840.10008.5.1.4.1.1.1": "Computed Radiography Image Storage",
    "1.2.840.10008.5.1.4.1.1.1.1": "Digital X-Ray Image Storage - For Presentation",
    "1.2.840.10008.5.1.4.1.1.1.2": "Digital Mammography X-Ray Image Storage - For Presentation",
    "1.2.840.10008.5.1.4.1.1.2": "CT Image Storage",
    "1.2.840.10008.5.1.4.1.1.2.1": "Enhanced CT Image Storage",
    "1.2.840.10008.5.1.4.1.1.4": "MR Image Storage",
    "1.2.840.10008.5.1.4.1.1.4.1": "Enhanced MR Image Storage",
    "1.2.840.10008.5.1.4.1.1.6.1": "Ultrasound Image Storage",
    "1.2.840.10008.5.1.4.1.1.7": "Secondary Capture Image Storage",
    "1.2.840.10008.5.1.4.1.1.9.1.1": "12-lead ECG Waveform Storage",
    "1.2.840.10008.5.1.4.1.1.11.1": "Grayscale Softcopy Presentation State Storage",
    "1.2.840.10008.5.1.4.1.1.12.1": "X-Ray Angiographic Image Storage",
    "1.2.840.10008.5.1.4.1.1.12.2": "X-Ray Radiofluoroscopic Image Storage",
    "1.2.840.10008.5.1.4.1.1.20": "Nuclear Medicine Image Storage",
    "1.2.840.10008.5.1.4.1.1.66": "Raw Data Storage",
    "1.2.840.10008.5.1.4.1.1.66.4": "Segmentation Storage",
    "1.2.840.10008.5.1.4.1.1.77.1.4": "VL Photographic Image Storage",
    "1.2.840.10008.5.1.4.1.1.88.11": "Basic Text SR Storage",
    "1.2.840.10008.5.1.4.1.1.88.22": "Enhanced SR Storage",
    "1.2.840.10008.5.1.4.1.1.88.33": "Comprehensive SR Storage",
    "1.2.840.10008.5.1.4.1.1.88.59": "Key Object Selection Document Storage",
    "1.2.840.10008.5.1.4.1.1.104.1": "Encapsulated PDF Storage",
    "1.2.840.10008.5.1.4.1.1.128": "Positron Emission Tomography Image Storage",
    "1.2.840.10008.5.1.4.1.1.481.2": "RT Dose Storage",
    "1.2.840.10008.5.1.4.1.1.481.3": "RT Structure Set Storage",
    "1.2.840.10008.5.1.4.1.1.481.5": "RT Plan Storage",
}

WIDE_POOL = dict(POOL)
WIDE_POOL.update({u: (n, "non-storage") for u, n in KNOWN_NON_STORAGE.items()})
WIDE_POOL.update({u: (n, "storage") for u, n in KNOWN_STORAGE.items()})

TRANSFER_SYNTAXES = [
    "1.2.840.10008.1.2",        # Implicit VR Little Endian
    "1.2.840.10008.1.2.1",      # Explicit VR Little Endian
    "1.2.840.10008.1.2.2",      # Explicit VR Big Endian
    "1.2.840.10008.1.2.1.99",   # Deflated Explicit VR Little Endian
    "1.2.840.10008.1.2.4.50",   # JPEG Baseline
    "1.2.840.10008.1.2.4.90",   # JPEG 2000 Lossless
]


def category(abstract_syntax, pool=None):
    """'private' | 'storage' | 'non-storage' | 'unknown-public' (pool = {uid: (name, category)})."""
    pool = WIDE_POOL if pool is None else pool
    if not abstract_syntax.startswith(DICOM_ROOT):
        return "private"
    if abstract_syntax in pool:
        return pool[abstract_syntax][1]
    return "unknown-public"


def is_storage_like(abstract_syntax, pool=None):
    """Treated as belonging to the storage service by the unrestricted storage mode."""
    return category(abstract_syntax, pool) in ("private", "storage", "unknown-public")


# ---------------------------------------------------------------------------------------------
# acceptor

def negotiate_as_acceptor_ref(proposed, supported, role_proposals=None, unrestricted=False, pool=None):
    """Expected acceptor-side outcome.

    Returns {"results": {context_id: R}, "replies": {abstract_syntax: (scu, scp) | None}} with
      R = {"abstract": str, "result": int | None, "ts": str | None,
           "as_scu": bool | None, "as_scp": bool | None,      acceptor's roles (accepted contexts only)
           "why": str}
    `replies` lists, for every abstract syntax with >= 1 accepted context, the reply item the
    documentation fixes: a tuple = that reply is required for the two sides to agree / documented,
    "absent" = documented that no reply is sent, None = not fixed by the documentation.
    None anywhere = not fixed by the documentation (do not assert).
    """
    role_proposals = role_proposals or {}
    sup = {}
    for ab, tss, scu, scp in supported:
        if ab not in sup:  # unique by contract; first wins if a caller violates it
            sup[ab] = (list(tss), scu, scp)
    results = {}
    replies = {}
    for cid, ab, tss in proposed:
        prop = role_proposals.get(ab)
        prop = None if prop is None else (bool(prop[0]), bool(prop[1]))
        if unrestricted and is_storage_like(ab, pool):
            # "accept all storage service requests": accepted; the only transfer syntax the
            # acceptor can pick without consulting a (by documentation ignored) supported list
            # is the requestor's first.  Roles: no proposal => first row of the table (default);
            # with a proposal the documentation does not say which proposed roles are taken, only
            # the universal rules apply (checked by the caller): not fixed here.
            r = {"abstract": ab, "result": ACCEPTED, "ts": tss[0] if tss else None,
                 "as_scu": None, "as_scp": None, "why": "unrestricted-storage"}
            if prop is None:
                r["as_scu"], r["as_scp"] = OUTCOME_ROLES[DEFAULT][2:]
                replies.setdefault(ab, "absent")
            elif prop == (False, False):
                # nothing usable can come out of a (0,0) proposal: must not be accepted
                r["result"] = None
                r["why"] = "unrestricted-storage-no-role-proposed"
            else:
                replies.setdefault(ab, None)
            results[cid] = r
            continue
        if ab not in sup:
            results[cid] = {"abstract": ab, "result": ABSTRACT_SYNTAX_NOT_SUPPORTED, "ts": None,
                            "as_scu": None, "as_scp": None, "why": "abstract-unsupported"}
            continue
        ac_tss, ac_scu, ac_scp = sup[ab]
        chosen = None
        for ts in ac_tss:            # acceptor's order of preference
            if ts in tss:
                chosen = ts
                break
        if chosen is None:
            results[cid] = {"abstract": ab, "result": TRANSFER_SYNTAX_NOT_SUPPORTED, "ts": None,
                            "as_scu": None, "as_scp": None, "why": "no-common-transfer-syntax"}
            continue
        if ac_scu is None or ac_scp is None:
            outcome, reply = DEFAULT, "absent"
            why = "supported-role-None"
        elif prop is None:
            outcome, reply = DEFAULT, "absent"
            why = "no-role-proposal"
        else:
            eff = mask_reply(prop, (ac_scu, ac_scp))
            outcome = role_outcome(prop, eff)
            reply = eff
            why = "role-table"
        if outcome == REJECTED:
            results[cid] = {"abstract": ab, "result": USER_REJECTION, "ts": None,
                            "as_scu": None, "as_scp": None, "why": "no-usable-role"}
            continue
        roles = OUTCOME_ROLES[outcome]
        results[cid] = {"abstract": ab, "result": ACCEPTED, "ts": chosen,
                        "as_scu": roles[2], "as_scp": roles[3], "why": why}
        replies.setdefault(ab, reply)
    return {"results": results, "replies": replies}


# ---------------------------------------------------------------------------------------------
# requestor-side interpretation of the acceptor's answer

def negotiate_as_requestor_ref(requested, results, role_proposals=None, role_replies=None):
    """The requestor's view computed from what the acceptor sent back.

    requested      [(context_id, abstract_syntax, [transfer syntaxes])]   as proposed
    results        [(context_id, result, transfer_syntax | None)]         A-ASSOCIATE-AC result list
    role_proposals {abstract_syntax: (scu, scp)}                          as proposed (None -> False)
    role_replies   {abstract_syntax: (scu, scp)}                          role items in the AC

    Returns {context_id: V} for every requested id, V =
      {"abstract", "result" (None if the id is missing from the answer), "accepted": bool,
       "ts": str | None, "as_scu": bool | None, "as_scp": bool | None (requestor's roles; None for
       contexts that are not accepted), "documented": bool (False when the (proposal, reply) pair is
       not a row of the documented table; roles then follow the PS3.7 rule masked by the proposal),
       "problems": [str]}
    plus key "_extra" -> list of result ids that were never requested.
    """
    role_proposals = role_proposals or {}
    role_replies = role_replies or {}
    by_id = {}
    dup = set()
    for cid, res, ts in results:
        if cid in by_id:
            dup.add(cid)
            continue
        by_id[cid] = (res, ts)
    out = {}
    seen = set()
    for cid, ab, tss in requested:
        seen.add(cid)
        v = {"abstract": ab, "result": None, "accepted": False, "ts": None,
             "as_scu": None, "as_scp": None, "documented": True, "problems": []}
        if cid in dup:
            v["problems"].append("duplicate-result-item")
        if cid not in by_id:
            v["problems"].append("missing-result-item")   # unusable: treated as rejected
            out[cid] = v
            continue
        res, ts = by_id[cid]
        v["result"] = res
        if res != ACCEPTED:
            out[cid] = v
            continue
        v["accepted"] = True
        v["ts"] = ts
        if ts is None or ts not in tss:
            v["problems"].append("transfer-syntax-not-proposed")
        prop = role_proposals.get(ab)
        if prop is not None:
            prop = (bool(prop[0]), bool(prop[1]))
        rep = role_replies.get(ab)
        if rep is not None and (rep[0] is None or rep[1] is None):
            rep = None
        if rep is not None:
            rep = (bool(rep[0]), bool(rep[1]))
        oc = role_outcome(prop, rep)
        if oc is None:
            v["documented"] = False
            if prop is None:
                # answer to an item that was never proposed: nothing was proposed, defaults stay
                v["problems"].append("role-reply-without-proposal")
                roles = OUTCOME_ROLES[DEFAULT]
            else:
                v["problems"].append("role-reply-grants-unproposed-role")
                roles = _ps37_rule(mask_reply(prop, rep))
        else:
            roles = OUTCOME_ROLES[oc]
        v["as_scu"], v["as_scp"] = roles[0], roles[1]
        if not (roles[0] or roles[1]):
            v["problems"].append("accepted-without-usable-role")
        out[cid] = v
    out["_extra"] = sorted(c for c in by_id if c not in seen)
    return out


def complementary(rq_view, ac_as_scu, ac_as_scp):
    """Requestor's and acceptor's roles on one accepted context describe the same agreement."""
    return rq_view["as_scu"] == ac_as_scp and rq_view["as_scp"] == ac_as_scu
