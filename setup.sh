#!/bin/sh
# Offline setup: nothing to build. pynetdicom is imported from /repo's working tree
# (editable install in /venv). Optional contract library goes to .deps (git-ignored).
cd "$(dirname "$0")" || exit 1
mkdir -p evidence replays
if [ ! -d .deps/icontract ]; then
  /venv/bin/pip install -q --no-index --find-links /opt/veriftools/wheels --target .deps icontract >/dev/null 2>&1 || true
fi
/venv/bin/python -c "import pynetdicom, pydicom; print('pynetdicom', pynetdicom.__version__, 'from', pynetdicom.__file__)"
