"""C03 — PDU framing is independent of how TCP splits the byte stream.

Monitors (real acceptor / requestor associations on loopback, scripted peer, socket proxy):
  M1  the byte strings handed to the decoder (`DULServiceProvider._decode_pdu` tap) are exactly the PDUs the peer
      sent, in order, for every cut plan (per-recv caps applied by the socket proxy, peer-side segmented sends,
      inter-chunk gaps below the network timeout)
  M2  the conversation still works (echo answered, release answered)
  M3  a close at byte offset k: the PDUs completely sent before k are delivered, nothing else is, the FSM then sees
      Evt17 (connection closed) and never Evt19 (invalid PDU); no exception escapes.
"""
import struct
import threading
import time

from vlib import cmdset, harness, peer as vpeer, ps38, taps
from vlib.common import rng_for, sha

PID = "C03"
LEVEL = "exploration"
RULE = ("conversations (RQ, C-ECHOs, multi-PDU C-STORE, release/abort; both roles) x cut plans: every single split "
        "point of a short conversation, 1-byte reads, random multi-cuts, coalesced streams, gaps 0-50 ms and gaps above "
        "connection_timeout but below network_timeout, close at byte offsets; distinct = (conversation, role, plan hash); "
        "non-trivial = at least one cut strictly inside a PDU (or a close offset)")
ASSUMPTIONS = ["loopback TCP; per-recv caps at the socket proxy model segmentation (recv may return any 1..n bytes)",
               "gaps are kept below the configured network timeout (the property's quantifier)"]
WORKERS = {"quick": 16, "thorough": 16}
REQUIRE = {"plans_with_cut_inside_pdu": 100, "close_cases": 50, "requestor_role_cases": 20, "gap_cases": 5,
           "framed_pdus_compared": 1000, "wire_gap_cases": 4, "concurrent_association_cases": 5, "concurrent_associations_compared": 15}
CT = "1.2.840.10008.5.1.4.1.1.2"
VER = "1.2.840.10008.1.1"


def setup_worker():
    harness.quiet_logging()
    taps.install()


# ------------------------------------------------------------------ conversations (as sent by the scripted requestor)

def dataset_bytes(n):
    """A valid implicit-VR-LE data set of about n bytes."""
    def el(g, e, v):
        if len(v) % 2:
            v += b"\0"
        return struct.pack("<HHI", g, e, len(v)) + v
    return (el(8, 0x16, CT.encode()) + el(8, 0x18, b"1.2.3.4.5.6") + el(0x10, 0x10, b"FRAMING^TEST")
            + el(0x7FE0, 0x10, bytes(i % 251 for i in range(n))))


def conversation(name, p: vpeer.Peer):
    """Returns list of PDU byte strings the scripted requestor sends."""
    pcs = [{"id": 1, "abs": VER, "ts": [ps38.IMPLICIT_LE]}, {"id": 3, "abs": CT, "ts": [ps38.IMPLICIT_LE]}]
    rq = ps38.make_rq(pcs=pcs, maxlen=16382)
    out = [ps38.encode(rq)]

    def dimse(ctx, cmd, ds=None, max_len=16382):
        for v in p.dimse_pdus(ctx, cmd, ds, max_len=max_len):
            out.append(ps38.encode(v))
    if name == "A":      # short: RQ, 2 echoes, release
        dimse(1, cmdset.c_echo_rq(1)); dimse(1, cmdset.c_echo_rq(2)); out.append(ps38.encode({"type": "RELRQ"}))
    elif name == "B":    # C-STORE with a data set spanning several maximum-size P-DATA-TF PDUs, echo, abort
        ds = dataset_bytes(40000)
        cmd = cmdset.make("C-STORE-RQ", AffectedSOPClassUID=CT, MessageID=7, Priority=0,
                          AffectedSOPInstanceUID="1.2.3.4.5.6", CommandDataSetType=0)
        dimse(3, cmd, ds); dimse(1, cmdset.c_echo_rq(8)); out.append(ps38.encode({"type": "ABORT", "source": 0, "reason": 0}))
    elif name == "C":    # small max length => many small PDUs, then release
        ds = dataset_bytes(600)
        cmd = cmdset.make("C-STORE-RQ", AffectedSOPClassUID=CT, MessageID=9, Priority=0,
                          AffectedSOPInstanceUID="1.2.3.4.5.6", CommandDataSetType=0)
        dimse(3, cmd, ds, max_len=64); out.append(ps38.encode({"type": "RELRQ"}))
    elif name == "D":    # association only then release
        out.append(ps38.encode({"type": "RELRQ"}))
    return out


def conv_len(name):
    return sum(len(b) for b in conversation(name, vpeer.Peer(None)))


def pdu_bounds(pdus):
    b = [0]
    for x in pdus:
        b.append(b[-1] + len(x))
    return b


# ------------------------------------------------------------------ cases

def gen_cases(tier, seed):
    rng = rng_for(seed, PID, "gen")
    cases = []
    la = conv_len("A")
    # every single split point of conversation A (one cut => two reads), pipelined
    step = 1 if tier == "thorough" else 3
    offs = set(range(1, la, step)) | set(range(1, 90))
    for k in sorted(offs):
        cases.append({"kind": "acceptor", "conv": "A", "mode": "pipelined", "plan": [[k, 0]], "tag": "single-cut"})
    for conv in ("A", "C", "D"):
        cases.append({"kind": "acceptor", "conv": conv, "mode": "pipelined", "plan": "bytewise", "tag": "1-byte"})
        cases.append({"kind": "acceptor", "conv": conv, "mode": "pipelined", "plan": [], "tag": "coalesced"})
    n_rand = 60 if tier == "quick" else 1500
    for i in range(n_rand):
        conv = rng.choice(["A", "A", "B", "C", "D"])
        total = conv_len(conv)
        ncuts = rng.choice([2, 3, 5, 9, 30])
        plan = [[rng.choice([1, 2, 3, 5, 6, 7, 10, rng.randint(1, max(2, total // ncuts))]), 0] for _ in range(ncuts * 3)]
        cases.append({"kind": "acceptor", "conv": conv, "mode": rng.choice(["pipelined", "interactive"]), "plan": plan, "tag": "random"})
    for i in range(12 if tier == "quick" else 200):
        conv = rng.choice(["A", "C"])
        plan = [[rng.choice([1, 3, 6, 7, 50, 200]), rng.choice([0, 0.001, 0.01, 0.05])] for _ in range(12)]
        cases.append({"kind": "acceptor", "conv": conv, "mode": "pipelined", "plan": plan, "tag": "gaps-small"})
    for i in range(4 if tier == "quick" else 40):
        # gap at 25-50 % of a 2 s network timeout, inside a PDU
        cases.append({"kind": "acceptor", "conv": "A", "mode": "pipelined", "nt": 2.0,
                      "plan": [[rng.choice([3, 7, 80, 300]), 0], [rng.choice([1, 5, 20]), rng.choice([0.5, 0.8, 1.0])]], "tag": "gaps-long"})
    # peer-side real segmentation (sendall of slices with sleeps)
    for i in range(10 if tier == "quick" else 200):
        cuts = sorted(rng.sample(range(1, la), rng.choice([1, 2, 4, 8])))
        cases.append({"kind": "acceptor", "conv": "A", "mode": "segmented", "cuts": cuts, "gap": rng.choice([0.002, 0.02]), "tag": "peer-segments"})
    # requestor role: pynetdicom requestor against scripted acceptor, caps + gaps on the requestor's socket
    for i in range(40 if tier == "quick" else 800):
        ncuts = rng.choice([1, 2, 4, 10])
        plan = [[rng.choice([1, 2, 5, 6, 7, 9, 30, 100]), 0] for _ in range(ncuts * 2)]
        cases.append({"kind": "requestor", "plan": plan, "ct": None, "tag": "requestor-random"})
    cases.append({"kind": "requestor", "plan": "bytewise", "ct": None, "tag": "requestor-1-byte"})
    for i in range(4 if tier == "quick" else 30):
        # gap longer than connection_timeout (0.3 s) but far below network_timeout (5 s), inside the A-ASSOCIATE-AC / P-DATA
        plan = [[rng.choice([2, 6, 8, 40]), 0], [rng.choice([1, 4, 10]), rng.choice([0.6, 0.9])]]
        cases.append({"kind": "requestor", "plan": plan, "ct": 0.3, "nt": 5.0, "tag": "requestor-gap-over-connection-timeout"})
        # the same with a REAL gap on the wire: the scripted acceptor pauses inside each PDU it sends
        cases.append({"kind": "requestor", "plan": [], "ct": 0.3, "nt": 5.0, "peer_cut": rng.choice([1, 5, 6, 7, 30]),
                      "peer_gap": rng.choice([0.6, 0.9]), "tag": "requestor-wire-gap-over-connection-timeout"})
    for i in range(3 if tier == "quick" else 30):
        # real gap on the wire towards an acceptor, 30-50 % of its 2 s network timeout, inside a PDU
        cuts = sorted(rng.sample(range(1, la - 12), 2))
        cases.append({"kind": "acceptor", "conv": "A", "mode": "segmented", "cuts": cuts, "gap": rng.choice([0.6, 0.9]), "nt": 2.0,
                      "tag": "gaps-wire-long"})
    # close at byte offset
    bounds = pdu_bounds(conversation("A", vpeer.Peer(None)))
    close_offs = set(range(0, 90)) | {b + d for b in bounds for d in (-3, -2, -1, 0, 1, 2, 5, 6, 7)} if tier == "quick" else set(range(0, la + 1))
    if tier == "quick":
        close_offs |= set(rng.sample(range(la), 60))
    for k in sorted(o for o in close_offs if 0 <= o <= la):
        cases.append({"kind": "close", "conv": "A", "offset": k, "tag": "close"})
    if tier == "thorough":
        lc = conv_len("C")
        for k in range(0, lc + 1, 2):
            cases.append({"kind": "close", "conv": "C", "offset": k, "tag": "close"})
    # maximum lengths above 4096 make every P-DATA body take several socket reads, so the associations are mid-read at the same time
    for i in range(10 if tier == "quick" else 150):
        cases.append({"kind": "concurrent", "k": rng.choice([3, 4, 6]), "max_len": (16382, 8192, 256, 1024, 4096)[i % 5], "i": i, "tag": "concurrent"})
    return cases


# ------------------------------------------------------------------ plan -> recv_plan callable

def make_plan(plan):
    if plan == "bytewise":
        return lambda proxy, bufsize: (1, 0)
    items = [list(x) for x in plan]
    lock = threading.Lock()

    def f(proxy, bufsize):
        with lock:
            if not items:
                return bufsize, 0
            size, delay = items[0]
            n = min(size, bufsize)
            if n >= size:
                items.pop(0)
            else:
                items[0] = [size - n, 0]
            return n, delay
    return f


def cut_inside(plan, pdus):
    """Does the plan produce at least one read boundary strictly inside a PDU?"""
    if plan == "bytewise":
        return True
    bounds = set(pdu_bounds(pdus))
    pos = 0
    for size, _ in plan:
        pos += size
        if pos not in bounds and pos < max(bounds):
            return True
    return False


def _handlers(store_log):
    from pynetdicom import evt

    def on_store(event):
        store_log.append(len(event.request.DataSet.getvalue()))
        return 0x0000
    return [(evt.EVT_C_STORE, on_store)]


# ------------------------------------------------------------------ runners

def run_acceptor(case, counters):
    viol = []
    taps.reset()
    nt = case.get("nt", 3.0)
    store_log = []
    ae = harness.make_ae(timeouts=(3.0, 3.0, nt, 3.0), supported=[VER, CT])
    plan = case.get("plan", [])
    taps.State.socket_hook = lambda proxy, assoc: setattr(proxy, "recv_plan", make_plan(plan)) if assoc.is_acceptor else None
    server, port = harness.start_server(ae, _handlers(store_log))
    p = None
    obs = {}
    try:
        p = vpeer.Peer.connect(port)
        pdus = conversation(case["conv"], p)
        stream = b"".join(pdus)
        mode = case["mode"]
        rx = []
        # A DIMSE message sent before the A-ASSOCIATE-AC is a protocol error of the peer (Sta3 + P-DATA-TF => AA-8),
        # so every mode waits for the AC before the first P-DATA-TF; everything after it may be pipelined.
        want_rsp = {"A": 2, "B": 2, "C": 1, "D": 0}[case["conv"]]

        def collect_responses():
            # the terminal RELEASE-RQ / ABORT is only sent once every request has been answered (a release with
            # operations outstanding is the peer's protocol error, not a framing question)
            for _ in range(want_rsp):
                rx.append(p.recv_dimse(10.0))
        if mode == "pipelined":
            p.send_raw(pdus[0])
            rx.append(p.recv_pdu(8.0))
            p.send_raw(b"".join(pdus[1:-1]))
            collect_responses()
            p.send_raw(pdus[-1])
        elif mode == "segmented":
            prev = 0
            l0 = len(pdus[0])
            body_end = len(stream) - len(pdus[-1])
            for c in [x for x in case["cuts"] if x < body_end] + [body_end]:
                if prev < l0 < c:      # never run past the end of the RQ before the AC arrived
                    p.send_raw(stream[prev:l0]); prev = l0
                    rx.append(p.recv_pdu(8.0))
                elif prev == l0 and not rx:
                    rx.append(p.recv_pdu(8.0))
                p.send_raw(stream[prev:c]); prev = c
                time.sleep(case["gap"])
            if not rx:
                rx.append(p.recv_pdu(8.0))
            collect_responses()
            p.send_raw(pdus[-1])
        else:  # interactive: wait for the response to each message before sending the next
            i = 0
            p.send_raw(pdus[0]); i = 1
            rx.append(p.recv_pdu(5.0))
            while i < len(pdus):
                p.send_raw(pdus[i])
                last = ps38.decode(pdus[i])
                i += 1
                if last["type"] == "PDATA":
                    hdr = bytes.fromhex(last["pdvs"][-1]["data"])[0]
                    # a complete message ends with a "last" fragment of a data set, or of a command without data set
                    if hdr & 2 and (not (hdr & 1) or i >= len(pdus) or ps38.decode(pdus[i])["type"] != "PDATA"
                                    or bytes.fromhex(ps38.decode(pdus[i])["pdvs"][0]["data"])[0] & 1):
                        rx.append(p.recv_dimse(5.0))
                elif last["type"] == "RELRQ":
                    rx.append(p.recv_pdu(5.0))
        # collect everything the acceptor answers
        rest = p.drain(quiet=1.0 if case["tag"] != "gaps-long" else 2.5, limit=15.0)
        rx_types = [x.get("type") for x in rx if x] + [x["type"] for x in rest]
        quiet, waited = taps.wait_quiet(8.0)
        acc = harness.acceptor_assocs()
        framed = [b for (_, aid, b) in taps.State.framed if acc and aid == id(acc[0])]
        counters["framed_pdus_compared"] = counters.get("framed_pdus_compared", 0) + len(framed)
        obs = {"sent_pdus": len(pdus), "framed": len(framed), "rx_types": rx_types[:12], "stores": store_log,
               "recv_calls": taps.State.socks[0].recv_calls if taps.State.socks else None}
        if framed != pdus:
            j = next((i for i in range(min(len(framed), len(pdus))) if framed[i] != pdus[i]), min(len(framed), len(pdus)))
            viol.append({"key": "framed-sequence-differs|acceptor|%s" % case["tag"],
                         "detail": "decoder received %d PDUs, peer sent %d; first difference at PDU #%d (sent %s..., framed %s...)" % (
                             len(framed), len(pdus), j, pdus[j].hex()[:40] if j < len(pdus) else None,
                             framed[j].hex()[:40] if j < len(framed) else None)})
        evs = [e for (_, aid, e) in taps.State.dul_events if acc and aid == id(acc[0])]
        if "Evt19" in evs:
            viol.append({"key": "evt19-on-valid-stream|acceptor", "detail": "DUL events %r" % evs})
        # conversation outcome
        want_last = {"A": "RELRP", "C": "RELRP", "D": "RELRP"}.get(case["conv"])
        nd = sum(1 for t in rx_types if t in ("PDATA", "DIMSE"))
        if rx_types[:1] != ["AC"] or nd < want_rsp or (want_last and want_last not in rx_types):
            viol.append({"key": "conversation-broken|acceptor|%s" % case["tag"], "detail": "responses seen %r (want AC, %d DIMSE responses, %s)" % (rx_types, want_rsp, want_last)})
        if case["conv"] in ("B", "C") and store_log != [len(dataset_bytes(40000 if case["conv"] == "B" else 600))]:
            viol.append({"key": "dataset-length-differs|acceptor", "detail": "handler saw data set lengths %r" % store_log})
        _common_end(viol, quiet, "acceptor")
        if cut_inside(plan, pdus) or mode == "segmented":
            counters["plans_with_cut_inside_pdu"] = counters.get("plans_with_cut_inside_pdu", 0) + 1
        if "gaps" in case["tag"]:
            counters["gap_cases"] = counters.get("gap_cases", 0) + 1
        if case["tag"] == "gaps-wire-long":
            counters["wire_gap_cases"] = counters.get("wire_gap_cases", 0) + 1
    finally:
        if p:
            p.close()
        harness.stop_ae(ae)
    return viol, obs


def _common_end(viol, quiet, role):
    for e in taps.State.excs:
        viol.append({"key": "exception-escaped|%s|%s|%s" % (role, e["type"], e["where"]), "detail": "%r" % e})
    for pr in taps.State.fsm_problems:
        viol.append({"key": "fsm|%s|%s" % (pr["kind"], pr.get("pair") or pr.get("action")), "detail": "%r" % pr})
    if not quiet:
        viol.append({"key": "threads-left|%s" % role, "detail": "%r" % [(a.mode, al, dl, st) for (a, al, dl, st) in taps.assoc_threads()]})


def run_requestor(case, counters):
    """pynetdicom requestor (associate, C-ECHO, release) against a scripted acceptor; cuts on the requestor's socket."""
    viol = []
    taps.reset()
    ct = case.get("ct")
    nt = case.get("nt", 3.0)
    ae = harness.make_ae(title="VERIF-SCU", timeouts=(4.0, 4.0, nt, ct), requested=[VER])
    plan = case["plan"]
    taps.State.socket_hook = lambda proxy, assoc: setattr(proxy, "recv_plan", make_plan(plan)) if assoc.is_requestor else None
    lst = vpeer.Listener()
    sent = []
    res = {}

    def seg_send(p, b):
        cut = case.get("peer_cut")
        if cut and cut < len(b):
            p.send_raw(b[:cut]); time.sleep(case["peer_gap"]); p.send_raw(b[cut:])
        else:
            p.send_raw(b)

    def acceptor_script():
        p = lst.accept(5.0)
        if p is None:
            return
        try:
            rq = p.recv_pdu(5.0)
            if not rq or rq.get("type") != "RQ":
                return
            ac = ps38.make_ac(rq)
            seg_send(p, ps38.encode(ac))
            sent.append(ps38.encode(ac))
            m = p.recv_dimse(5.0)
            if m and m.get("type") == "DIMSE":
                rsp = cmdset.c_echo_rsp(m["cmd"].get("MessageID", 1))
                for v in p.dimse_pdus(m["ctx"], rsp):
                    b = ps38.encode(v); sent.append(b); seg_send(p, b)
            r = p.recv_pdu(5.0)
            if r and r.get("type") == "RELRQ":
                b = ps38.encode({"type": "RELRP"}); sent.append(b); seg_send(p, b)
            p.wait_eof(3.0)
        finally:
            p.close()

    th = threading.Thread(target=acceptor_script, daemon=True)
    th.start()
    obs = {}
    try:
        assoc = ae.associate("127.0.0.1", lst.port)
        res["established"] = assoc.is_established
        if assoc.is_established:
            st = assoc.send_c_echo()
            res["echo_status"] = getattr(st, "Status", None)
            assoc.release()
            res["released"] = assoc.is_released
        th.join(8.0)
        quiet, _ = taps.wait_quiet(8.0)
        req = harness.requestor_assocs()
        framed = [b for (_, aid, b) in taps.State.framed if req and aid == id(req[0])]
        counters["framed_pdus_compared"] = counters.get("framed_pdus_compared", 0) + len(framed)
        obs = {"result": res, "sent_by_acceptor": len(sent), "framed": len(framed)}
        if framed != sent:
            viol.append({"key": "framed-sequence-differs|requestor|%s" % case["tag"],
                         "detail": "decoder received %d PDUs, scripted acceptor sent %d; result=%r" % (len(framed), len(sent), res)})
        if res != {"established": True, "echo_status": 0, "released": True}:
            viol.append({"key": "conversation-broken|requestor|%s" % case["tag"], "detail": "%r" % res})
        evs = [e for (_, aid, e) in taps.State.dul_events if req and aid == id(req[0])]
        if "Evt19" in evs:
            viol.append({"key": "evt19-on-valid-stream|requestor", "detail": "DUL events %r" % evs})
        _common_end(viol, quiet, "requestor")
        counters["requestor_role_cases"] = counters.get("requestor_role_cases", 0) + 1
        if cut_inside(plan, sent) or case.get("peer_cut"):
            counters["plans_with_cut_inside_pdu"] = counters.get("plans_with_cut_inside_pdu", 0) + 1
        if case.get("peer_cut"):
            counters["wire_gap_cases"] = counters.get("wire_gap_cases", 0) + 1
        if "gap" in case["tag"]:
            counters["gap_cases"] = counters.get("gap_cases", 0) + 1
    finally:
        lst.close()
        harness.stop_ae(ae)
    return viol, obs


def run_close(case, counters):
    viol = []
    taps.reset()
    ae = harness.make_ae(timeouts=(2.0, 2.0, 2.0, 2.0), supported=[VER, CT])
    server, port = harness.start_server(ae, _handlers([]))
    p = None
    obs = {}
    try:
        p = vpeer.Peer.connect(port)
        pdus = conversation(case["conv"], p)
        stream = b"".join(pdus)
        k = case["offset"]
        bounds = pdu_bounds(pdus)
        complete = [x for i, x in enumerate(pdus) if bounds[i + 1] <= k]
        l0 = len(pdus[0])
        if k:
            p.send_raw(stream[:min(k, l0)])
        if k > l0:
            p.recv_pdu(8.0)            # wait for the A-ASSOCIATE-AC before any P-DATA-TF
            p.send_raw(stream[l0:k])
        time.sleep(0.02)
        p.half_close()          # FIN: the acceptor reads EOF after the k bytes
        p.drain(quiet=0.5, limit=4.0)
        p.close()
        quiet, _ = taps.wait_quiet(8.0)
        acc = harness.acceptor_assocs()
        harness.wait_for(lambda: bool(harness.acceptor_assocs()), 1.0)
        acc = harness.acceptor_assocs()
        framed = [b for (_, aid, b) in taps.State.framed if acc and aid == id(acc[0])]
        evs = [e for (_, aid, e) in taps.State.dul_events if acc and aid == id(acc[0])]
        fsm_evs = [f["event"] for f in taps.State.fsm if acc and f["assoc"] == id(acc[0])]
        obs = {"offset": k, "complete_pdus_before_close": len(complete), "framed": len(framed), "dul_events": evs, "fsm_events": fsm_evs}
        counters["close_cases"] = counters.get("close_cases", 0) + 1
        counters["framed_pdus_compared"] = counters.get("framed_pdus_compared", 0) + len(framed)
        inside = k not in bounds
        # a RELEASE-RQ / ABORT completely sent ends the association anyway; only compare the delivered prefix
        if framed != complete[:len(framed)] or (len(framed) < len(complete) and not _ended_early(complete, framed)):
            viol.append({"key": "close-delivered-wrong-pdus|%s" % ("inside-pdu" if inside else "boundary"),
                         "detail": "close at %d: %d complete PDUs sent, decoder got %d (%s)" % (k, len(complete), len(framed), [f.hex()[:20] for f in framed])})
        if "Evt19" in evs or "Evt19" in fsm_evs:
            viol.append({"key": "close-reported-as-invalid-pdu|%s" % ("inside-pdu" if inside else "boundary"),
                         "detail": "close at offset %d (PDU bounds %r): DUL events %r" % (k, bounds, evs)})
        if acc and "Evt17" not in fsm_evs:
            viol.append({"key": "close-not-reported|%s" % ("inside-pdu" if inside else "boundary"),
                         "detail": "close at offset %d: FSM events %r" % (k, fsm_evs)})
        _common_end(viol, quiet, "acceptor")
    finally:
        if p:
            p.close()
        harness.stop_ae(ae)
    return viol, obs


def _ended_early(complete, framed):
    """After a delivered RELEASE-RQ/ABORT nothing further needs to be delivered."""
    return bool(framed) and framed[-1][0] in (5, 7)


def run_concurrent_acceptors(case, counters):
    """K scripted requestors talk to ONE acceptor AE at the same time (tiny switch interval), each with its own byte pattern: what each
    acceptor association hands to its decoder must be exactly what ITS peer sent."""
    import sys
    viol = []
    taps.reset()
    K = case["k"]
    store_log = []
    ae = harness.make_ae(timeouts=(5.0, 5.0, 6.0, 5.0), supported=[VER, CT])
    ae.maximum_associations = K + 2
    server, port = harness.start_server(ae, _handlers(store_log))
    sent, answers, errors = {}, {}, []

    def peer_thread(k):
        p = None
        try:
            p = vpeer.Peer.connect(port)
            pcs = [{"id": 1, "abs": VER, "ts": [ps38.IMPLICIT_LE]}, {"id": 3, "abs": CT, "ts": [ps38.IMPLICIT_LE]}]
            out = [ps38.encode(ps38.make_rq(pcs=pcs, maxlen=16382, calling="PEER%d" % k))]
            n = 12000 + 1500 * k
            filler = bytes((i * 7 + k * 13) % 251 for i in range(n))
            ds = struct.pack("<HHI", 0x7FE0, 0x10, n) + filler
            cmd = cmdset.make("C-STORE-RQ", AffectedSOPClassUID=CT, MessageID=20 + k, Priority=0,
                              AffectedSOPInstanceUID="1.2.3.4.5.%d" % (k + 1), CommandDataSetType=0)
            for v in p.dimse_pdus(3, cmd, ds, max_len=case["max_len"]):
                out.append(ps38.encode(v))
            for v in p.dimse_pdus(1, cmdset.c_echo_rq(40 + k)):
                out.append(ps38.encode(v))
            out.append(ps38.encode({"type": "RELRQ"}))
            sent[k] = out
            p.send_raw(out[0])
            got = [p.recv_pdu(8.0)]
            p.send_raw(b"".join(out[1:-1]))
            got.append(p.recv_dimse(10.0)); got.append(p.recv_dimse(10.0))
            p.send_raw(out[-1])
            got.append(p.recv_pdu(8.0))
            answers[k] = [(x or {}).get("type") for x in got]
        except Exception as exc:
            errors.append("peer %d: %r" % (k, exc))
        finally:
            if p:
                p.close()
    old = sys.getswitchinterval()
    sys.setswitchinterval(1e-5)
    try:
        ths = [threading.Thread(target=peer_thread, args=(k,), daemon=True) for k in range(K)]
        for t in ths:
            t.start()
        for t in ths:
            t.join(40.0)
    finally:
        sys.setswitchinterval(old)
    quiet, _ = taps.wait_quiet(8.0)
    by_assoc = {}
    for (_, aid, b) in taps.State.framed:
        by_assoc.setdefault(aid, []).append(b)
    matched = 0
    for aid, framed in by_assoc.items():
        k = next((k_ for k_, o in sent.items() if framed and framed[0] == o[0]), None)
        if k is None:
            continue
        matched += 1
        counters["framed_pdus_compared"] = counters.get("framed_pdus_compared", 0) + len(framed)
        if framed != sent[k]:
            j = next((i for i in range(min(len(framed), len(sent[k]))) if framed[i] != sent[k][i]), min(len(framed), len(sent[k])))
            viol.append({"key": "framed-sequence-differs|acceptor|concurrent-associations",
                         "detail": "association of PEER%d: decoder received %d PDUs, its peer sent %d; first difference at PDU #%d (%d associations "
                                   "receiving at the same time)" % (k, len(framed), len(sent[k]), j, K)})
        if answers.get(k) != ["AC", "DIMSE", "DIMSE", "RELRP"]:
            viol.append({"key": "conversation-broken|acceptor|concurrent-associations", "detail": "PEER%d saw %r" % (k, answers.get(k))})
    counters["concurrent_association_cases"] = 1
    counters["concurrent_associations_compared"] = matched
    harness.stop_ae(ae)
    obs = {"associations": K, "matched": matched, "errors": errors[:3], "answers": answers}
    return viol, obs


def run_case(case):
    counters = {}
    if case["kind"] == "concurrent":
        viol, obs = run_concurrent_acceptors(case, counters)
        return {"key": sha(["concurrent", case["k"], case["max_len"], case["i"]]), "nontrivial": counters.get("concurrent_associations_compared", 0) >= 2,
                "sample": {"case": case, "observed": obs}, "violations": viol, "counters": counters,
                "inconclusive": None if counters.get("concurrent_associations_compared", 0) >= 2 else "fewer than two associations completed: %r" % obs["errors"]}
    if case["kind"] == "acceptor":
        viol, obs = run_acceptor(case, counters)
    elif case["kind"] == "requestor":
        viol, obs = run_requestor(case, counters)
    else:
        viol, obs = run_close(case, counters)
    key = sha([case.get("conv"), case["kind"], case.get("mode"), case.get("plan"), case.get("cuts"), case.get("offset"), case.get("ct"), case.get("peer_cut"), case.get("peer_gap"), case.get("gap")])
    nontrivial = bool(counters.get("plans_with_cut_inside_pdu") or counters.get("close_cases"))
    return {"key": key, "nontrivial": nontrivial, "sample": {"case": case, "observed": obs},
            "violations": viol, "counters": counters}
