"""C23 - a C-CANCEL reaches exactly the operation it names.

Workload: ONE association per case between the scripted raw-socket peer (vlib.peer / vlib.cmdset / vlib.ps38 - the
reference codecs, never the code under test) and a REAL pynetdicom acceptor whose C-FIND / C-GET / C-MOVE handlers are
GATED generators: before every `event.is_cancelled` read (and once more before the generator ends) the handler parks on
a harness gate; the peer script places C-CANCEL requests (own id, id of the previous / next operation, other ids,
duplicates, more than 10 pending) and N-EVENT-REPORT requests (served by pynetdicom in their OWN thread) at ENUMERATED
points relative to 1..3 operations that REUSE message ids:

    pre(k)      before request k is sent (k = 0: before the first operation; k > 0: after `_serve_request` of operation
                k-1 returned, i.e. between two operations; k = number of operations: after the last one)
    race(k)     in the same TCP segment as request k (may land before or after handler entry: the ambiguous window)
    gate(k,j)   handler of operation k parked before read j (j = 0: before the first read; j >= 1: between reads;
                j = "x": after the last read, before the generator ends)
    sub(k,j)    while the C-STORE sub-operation that follows read j is outstanding (C-GET: the peer holds its
                C-STORE-RSP; C-MOVE: the destination's C-STORE handler is held)
    post(k)     right after the peer saw the final response of operation k (races with the end of `_serve_request`)

Observation (one lock, one sequence counter, call events recorded BEFORE and AFTER the wrapped call):
    rx      tap on DIMSEServiceProvider.receive_primitive - the P-DATA's command set is decoded with vlib.cmdset;
            the handler is released only after the tap saw the cancel's receive_primitive RETURN (cancel RECEIVED)
    serve   tap on Association._serve_request (begin / end, message type, thread) - "operation ended", and
            "N-EVENT-REPORT fully served" (additionally the peer has seen the N-EVENT-REPORT response)
    enter / read(begin, end, value) / exit  recorded by the handler itself

Oracle = reference over that ordered log (function `judge`, no pynetdicom import): for a read of operation k (id m),
with M = received cancels naming m,
    MUST be True   iff some c in M was received wholly after handler entry of k, wholly before the read began, and
                   wholly after the last read of k that already returned True (a cancel is reported at least once);
    MAY  be True   iff some c in M was received after request k itself was received and before the read ended
                   (covers the ambiguous request-arrival..handler-entry window and "sticky" implementations);
    otherwise MUST be False  (no cancel for m at all / only cancels received before request k arrived, whatever id).
The response side (handler honours the cancel -> final response 0xFE00) is only recorded (C20/C21 own it).

Mechanism keys:
    cancel-lost|n-event-report-served-during-operation        a matching cancel was received, then an N-EVENT-REPORT was
                                                              served (own thread) before the read: read returned False
    cancel-lost|over-10-pending|<point>                       >= 10 cancels naming other ids were pending
    cancel-not-seen|matching-id|<point>                       point = before-first-read | between-reads |
                                                              during-suboperation | after-reported-cancel
    stale-cancel|carried-over-to-next-operation|<during-previous-op|between-ops>
    stale-cancel|received-before-first-operation
    cancel-seen|other-id        cancel-seen|no-cancel-received
    cancel-misrouted|over-10-pending|queued-as-service-request|<Exc>-escaped   the 11th pending cancel is put on the
                                                              message queue and later served as a request: the exception
                                                              escapes and ends the association's reactor thread
Recorded only (outside the statement): counter `subop_spins_after_ner_reset_is_paused` - the N-EVENT-REPORT thread's
_serve_request also sets Association._is_paused = False; the next C-STORE sub-operation of the running C-GET then spins
forever in send_c_store()'s wait-for-pause loop (two stack snapshots; such a case is explained, not inconclusive).
Witnesses / triage: tools/triage_C23.py (plain script); candidate fix: tools/C23_candidate_fix.diff; mutants:
tools/C23_mutants.py.
"""
from __future__ import annotations

import threading
import time
import warnings

from vlib import cmdset, harness, ps38, taps
from vlib.common import rng_for, sha
from vlib.peer import Peer

PID = "C23"
LEVEL = "exploration"
RULE = ("one association per case: 1..3 gated C-FIND/C-GET/C-MOVE operations reusing message ids x 0..15 C-CANCEL "
        "requests (own / previous / next / other id, duplicates, >10 pending) and N-EVENT-REPORT requests placed at "
        "enumerated points (pre, race, gate j, sub-operation j, post, between operations); families single / other-id / "
        "reuse / next-id / cap / duplicates / n-event-report are enumerated, the rest is seeded random; distinct = SHA-1 "
        "of (operation types, read counts, honour flags, placement points with the ID RELATION of every cancel); "
        "non-trivial = at least one cancel or N-EVENT-REPORT was received and at least one is_cancelled read observed")
ASSUMPTIONS = [
    "a cancel counts as RECEIVED when DIMSEServiceProvider.receive_primitive returned for its P-DATA (tap); an "
    "operation is IN PROGRESS from handler entry; cancels received between the arrival of the request and handler "
    "entry are recorded and not asserted (either value accepted)",
    "a matching cancel must be reported by at least one read; later reads of the same operation may return either "
    "value (consume-on-read and sticky implementations both accepted)",
    "peer cancels travel on the presentation context of the operation; every cancel is a single-PDV command message",
    "observation is at Event.is_cancelled; handlers that never read are not judged; the Cancel final response is "
    "only recorded",
    "schedules are the enumerated gate points; preemption inside receive_primitive / is_cancelled is not forced",
]
WORKERS = {"quick": 16, "thorough": 16}
MAX_INCONCLUSIVE_FRAC = 0.03
REQUIRE = {"reads": 500, "reads_must_true": 90, "reads_must_false": 250, "stale_probes": 60, "other_id_probes": 100,
           "cancels_received": 400, "ner_served": 20, "ops_FIND": 80, "ops_GET": 80, "ops_MOVE": 80,
           "subop_injections": 15, "cap_cases": 6, "multi_op_cases": 80, "cancel_final_seen": 30, "cross_association_cases": 6,
           "cancels_sent_on_other_association": 6}

FIND = "1.2.840.10008.5.1.4.1.2.1.1"
MOVE = "1.2.840.10008.5.1.4.1.2.1.2"
GET = "1.2.840.10008.5.1.4.1.2.1.3"
CT = "1.2.840.10008.5.1.4.1.1.2"
SCPM = "1.2.840.10008.1.20.1"     # Storage Commitment Push Model: N-EVENT-REPORT capable
ILE = "1.2.840.10008.1.2"
CX = {"FIND": 1, "MOVE": 3, "GET": 5, "CT": 7, "NER": 9}
UID = {"FIND": FIND, "GET": GET, "MOVE": MOVE}
RQ_NAME = {"FIND": "C-FIND-RQ", "GET": "C-GET-RQ", "MOVE": "C-MOVE-RQ"}
RSP_FIELDS = {cmdset.COMMAND_FIELD[n]: n for n in ("C-FIND-RSP", "C-GET-RSP", "C-MOVE-RSP")}
OP_CLASSES = ("C_FIND", "C_GET", "C_MOVE")
IDENT = bytes.fromhex("08005200" "08000000") + b"PATIENT "      # (0008,0052) QueryRetrieveLevel = PATIENT, implicit LE
TIMEOUTS = (3.0, 3.0, 8.0, 3.0)      # acse, dimse, network, connection
WAIT = 3.0                            # driver-side bound of every wait
GATE_WAIT = 7.0                       # handler-side bound of a gate


# ====================================================================================== log + taps
class Log:
    def __init__(self):
        self.cond = threading.Condition(threading.Lock())
        self.seq = 0
        self.ev = []

    def add(self, kind, **kw):
        with self.cond:
            self.seq += 1
            kw["s"] = self.seq
            kw["k"] = kind
            self.ev.append(kw)
            self.cond.notify_all()
            return self.seq

    def snapshot(self):
        with self.cond:
            return list(self.ev)

    def count(self, pred):
        with self.cond:
            return sum(1 for e in self.ev if pred(e))

    def any(self, pred):
        with self.cond:
            return any(pred(e) for e in self.ev)


_CUR = {"log": None}
_TAPPED = {"done": False}


def _classify(primitive):
    """Command set of a complete single-PDV command message, decoded with the reference codec."""
    try:
        pdvs = primitive.presentation_data_value_list
        if len(pdvs) != 1:
            return None
        raw = pdvs[0][1]
        if not raw or (raw[0] & 3) != 3:
            return None
        cmd = cmdset.decode(bytes(raw[1:]))
        return {"name": cmdset.FIELD_NAME.get(cmd.get("CommandField"), "?"), "mid": cmd.get("MessageID"),
                "rid": cmd.get("MessageIDBeingRespondedTo")}
    except Exception:
        return None


def _is_main(assoc):
    try:
        return bool(assoc.is_acceptor) and assoc.ae.ae_title == "VERIF-SCP"
    except Exception:
        return False


def install_taps():
    if _TAPPED["done"]:
        return
    _TAPPED["done"] = True
    from pynetdicom import association, dimse

    orig_rx = dimse.DIMSEServiceProvider.receive_primitive

    def receive_primitive(self, primitive):
        log = _CUR["log"]
        if log is None or not _is_main(self.assoc):
            return orig_rx(self, primitive)
        info = _classify(primitive)
        if info is None:
            return orig_rx(self, primitive)
        a = log.add("rx-begin", **info)
        try:
            return orig_rx(self, primitive)
        finally:
            log.add("rx-end", a=a, **info)

    dimse.DIMSEServiceProvider.receive_primitive = receive_primitive

    orig_serve = association.Association._serve_request

    def _serve_request(self, msg, context_id):
        log = _CUR["log"]
        if log is None or not _is_main(self):
            return orig_serve(self, msg, context_id)
        typ = type(msg).__name__
        a = log.add("serve-begin", typ=typ, mid=getattr(msg, "MessageID", None), tid=threading.get_ident())
        exc = None
        try:
            return orig_serve(self, msg, context_id)
        except BaseException as e:
            exc = type(e).__name__
            raise
        finally:
            log.add("serve-end", a=a, typ=typ, exc=exc)

    association.Association._serve_request = _serve_request


def setup_worker():
    warnings.simplefilter("ignore")
    harness.quiet_logging()
    taps.install()
    install_taps()


# ====================================================================================== gated handlers
class Ctl:
    def __init__(self, case, log):
        self.ops = case["ops"]
        self.log = log
        self.lock = threading.Lock()
        self.gates = {}
        self.entered = 0
        self.cur = None          # (k, j) of the last read
        self.hold_sub = None     # (k, j) whose destination C-STORE is to be held (C-MOVE)
        self.dest_port = 0
        self.open = False

    def gate(self, key):
        with self.lock:
            g = self.gates.get(key)
            if g is None:
                g = self.gates[key] = threading.Event()
            return g

    def park(self, kind, k, j):
        self.log.add(kind, op=k, j=j)
        if self.open:
            return
        if not self.gate((kind, k, j)).wait(GATE_WAIT):
            self.log.add("gate-timeout", op=k, j=j, what=kind)

    def release(self, kind, k, j):
        self.gate((kind, k, j)).set()

    def release_all(self):
        self.open = True
        with self.lock:
            for g in self.gates.values():
                g.set()


def _find_ds(k, j):
    from pydicom.dataset import Dataset
    ds = Dataset()
    ds.QueryRetrieveLevel = "PATIENT"
    ds.PatientID = "P%d-%d" % (k, j)
    return ds


def _inst_ds(k, j):
    from pydicom.dataset import Dataset, FileMetaDataset
    ds = Dataset()
    ds.file_meta = FileMetaDataset()
    ds.file_meta.TransferSyntaxUID = ILE
    ds.SOPClassUID = CT
    ds.SOPInstanceUID = "1.2.826.0.1.3680043.9.3811.23.%d.%d" % (k + 1, j + 1)
    ds.PatientID = "P%d-%d" % (k, j)
    return ds


def make_handler(ctl, kind):
    def handler(event):
        log = ctl.log
        with ctl.lock:
            k = ctl.entered
            ctl.entered += 1
        op = ctl.ops[k] if k < len(ctl.ops) else {"t": kind, "id": None, "reads": 1, "honour": False}
        log.add("enter", op=k, t=kind, mid=event.request.MessageID)
        if kind == "MOVE":
            yield ("127.0.0.1", ctl.dest_port)
        if kind in ("GET", "MOVE"):
            yield op["reads"]
        for j in range(op["reads"]):
            ctl.park("parked", k, j)
            p = log.add("read-begin", op=k, j=j)
            v = event.is_cancelled
            log.add("read-end", op=k, j=j, p=p, v=bool(v))
            ctl.cur = (k, j)
            if v and op["honour"]:
                log.add("honour", op=k, j=j)
                yield 0xFE00, None
                return
            yield 0xFF00, (_find_ds(k, j) if kind == "FIND" else _inst_ds(k, j))
        ctl.park("parked", k, "x")
        log.add("exit", op=k)
    return handler


def make_dest_store(ctl):
    def handler(event):
        cur = ctl.cur
        if cur is not None and ctl.hold_sub == cur:
            ctl.park("sub-parked", cur[0], cur[1])
        return 0x0000
    return handler


def on_ner(event):
    return 0x0000, None


# ====================================================================================== peer side
class Demux:
    """Persistent DIMSE reassembly on top of Peer.recv_pdu (a short poll never loses a half-received message)."""

    def __init__(self, peer):
        self.peer = peer
        self.cmd_b = b""
        self.cmd = None
        self.data_b = None
        self.ctx = None
        self.out = []

    def poll(self, timeout):
        """-> list of items: {"type":"DIMSE",...} or control PDU dicts."""
        v = self.peer.recv_pdu(timeout)
        if v is None:
            return []
        if v["type"] != "PDATA":
            return [v]
        items = []
        for pd in v["pdvs"]:
            raw = bytes.fromhex(pd["data"])
            hdr, frag = raw[0], raw[1:]
            if self.ctx is None:
                self.ctx = pd["id"]
            if hdr & 1:
                self.cmd_b += frag
                if hdr & 2:
                    self.cmd = cmdset.decode(self.cmd_b)
                    if self.cmd.get("CommandDataSetType", 0x0101) == 0x0101:
                        items.append(self._emit())
            else:
                self.data_b = (self.data_b or b"") + frag
                if hdr & 2:
                    items.append(self._emit())
        return items

    def _emit(self):
        m = dict(type="DIMSE", ctx=self.ctx, cmd=self.cmd or {}, data=self.data_b)
        self.cmd_b, self.cmd, self.data_b, self.ctx = b"", None, None, None
        return m


class Stop(Exception):
    pass


class Driver:
    def __init__(self, case, ctl, log, peer):
        self.case = case
        self.ctl = ctl
        self.log = log
        self.peer = peer
        self.demux = Demux(peer)
        self.inj = {}
        for i in case.get("inj", []):
            self.inj.setdefault(_pt(i["at"]), []).extend(i["items"])
        self.cur_op = None
        self.rsp = []                 # dict(op, status, rid)
        self.final = {}               # op -> status
        self.dead = None
        self.hold_store = False
        self.pending_store = None
        self.ner_sent = 0
        self.ner_rsp = 0
        self.sent_cancels = []        # dict(id, point)
        self.stopped = None
        self.subop_injections = 0
        self.stores_answered = 0

    # ---- receiving
    def dispatch(self, m):
        if m["type"] != "DIMSE":
            if m["type"] in ("ABORT", "EOF", "RELRQ"):
                self.dead = m["type"]
            return
        cf = m["cmd"].get("CommandField")
        if cf in RSP_FIELDS:
            st = m["cmd"].get("Status")
            self.rsp.append(dict(op=self.cur_op, status=st, rid=m["cmd"].get("MessageIDBeingRespondedTo")))
            if st not in (0xFF00, 0xFF01) and self.cur_op is not None:
                self.final.setdefault(self.cur_op, st)
        elif cf == cmdset.COMMAND_FIELD["C-STORE-RQ"]:
            if self.hold_store:
                self.pending_store = m
            else:
                self.answer_store(m)
        elif cf == cmdset.COMMAND_FIELD["N-EVENT-REPORT-RSP"]:
            self.ner_rsp += 1

    def answer_store(self, m):
        self.peer.send_dimse(m["ctx"], cmdset.make(
            "C-STORE-RSP", AffectedSOPClassUID=m["cmd"].get("AffectedSOPClassUID", CT),
            AffectedSOPInstanceUID=m["cmd"].get("AffectedSOPInstanceUID", "1.2.3"),
            MessageIDBeingRespondedTo=m["cmd"].get("MessageID", 0), Status=0))
        self.stores_answered += 1

    def pump(self, cond, timeout=WAIT, why=""):
        deadline = time.time() + timeout
        while True:
            if cond():
                return True
            if self.dead or time.time() > deadline:
                ok = cond()
                if not ok:
                    raise Stop("%s: %s" % ("association ended (%s)" % self.dead if self.dead else "timeout", why))
                return True
            for m in self.demux.poll(0.003):
                self.dispatch(m)

    # ---- sending
    def cx(self, k):
        ops = self.case["ops"]
        k = min(max(k, 0), len(ops) - 1)
        return CX[ops[k]["t"]]

    def n_cancel_rx(self):
        return self.log.count(lambda e: e["k"] == "rx-end" and e["name"] == "C-CANCEL-RQ")

    def send_items(self, items, point, k, wait=True):
        for it in items:
            if it[0] == "c":
                self.peer.send_dimse(self.cx(k), cmdset.make("C-CANCEL-RQ", MessageIDBeingRespondedTo=it[1]))
                self.sent_cancels.append(dict(id=it[1], point=point))
                if wait:
                    n = len(self.sent_cancels)
                    self.pump(lambda: self.n_cancel_rx() >= n, why="cancel %d not received" % n)
            elif it[0] == "n":
                self.ner_sent += 1
                n = self.ner_sent
                self.peer.send_dimse(CX["NER"], cmdset.make(
                    "N-EVENT-REPORT-RQ", AffectedSOPClassUID=SCPM, AffectedSOPInstanceUID=SCPM + ".1",
                    MessageID=(40000 + n) % 65536, EventTypeID=1))
                if wait:
                    self.wait_ner(n)

    def wait_ner(self, n):
        self.pump(lambda: self.ner_rsp >= n and self.log.count(
            lambda e: e["k"] == "serve-end" and e["typ"] == "N_EVENT_REPORT") >= n,
            why="N-EVENT-REPORT %d not fully served" % n)

    def do_inj(self, pt, point, k):
        items = self.inj.get(pt)
        if items:
            self.send_items(items, point, k)

    # ---- the script
    def run(self):
        ops = self.case["ops"]
        log = self.log
        for k, op in enumerate(ops):
            self.do_inj(("pre", k), "pre", k)
            self.cur_op = k
            kw = dict(AffectedSOPClassUID=UID[op["t"]], MessageID=op["id"], Priority=0, CommandDataSetType=1)
            if op["t"] == "MOVE":
                kw["MoveDestination"] = "DEST-SCP"
            pdus = self.peer.dimse_pdus(CX[op["t"]], cmdset.make(RQ_NAME[op["t"]], **kw), IDENT)
            race = self.inj.get(("race", k)) or []
            n_c0 = len(self.sent_cancels)
            for it in race:
                if it[0] == "c":
                    pdus += self.peer.dimse_pdus(CX[op["t"]], cmdset.make("C-CANCEL-RQ", MessageIDBeingRespondedTo=it[1]))
                    self.sent_cancels.append(dict(id=it[1], point="race"))
            self.peer.send_raw(b"".join(ps38.encode(p) for p in pdus))
            if len(self.sent_cancels) > n_c0:
                n = len(self.sent_cancels)
                self.pump(lambda: self.n_cancel_rx() >= n, why="race cancel not received")
            done = set()
            while True:
                def state():
                    ev = log.snapshot()
                    for e in ev:
                        if e["k"] == "parked" and e["op"] == k and e["j"] not in done:
                            return ("parked", e["j"])
                    begins = [e["s"] for e in ev if e["k"] == "serve-begin" and e["typ"] in OP_CLASSES]
                    if len(begins) > k and any(e["k"] == "serve-end" and e["a"] == begins[k] for e in ev):
                        return ("ended", None)
                    return None
                self.pump(lambda: state() is not None, why="operation %d neither parked nor ended" % k)
                st = state()
                if st[0] == "ended":
                    break
                j = st[1]
                done.add(j)
                self.do_inj(("gate", k, j), "gate", k)
                sub_items = self.inj.get(("sub", k, j)) if j != "x" and op["t"] != "FIND" else None
                if sub_items:
                    if op["t"] == "GET":
                        self.hold_store = True
                        self.pending_store = None
                    else:
                        self.ctl.hold_sub = (k, j)
                self.ctl.release("parked", k, j)
                if sub_items:
                    def sub_state():
                        if op["t"] == "GET" and self.pending_store is not None:
                            return "held"
                        if op["t"] == "MOVE" and log.any(lambda e: e["k"] == "sub-parked" and e["op"] == k and e["j"] == j):
                            return "held"
                        if log.any(lambda e: (e["k"] == "parked" and e["op"] == k and e["j"] not in done)
                                   or (e["k"] == "honour" and e["op"] == k)):
                            return "no-subop"
                        return None
                    self.pump(lambda: sub_state() is not None, why="sub-operation %d/%s not seen" % (k, j))
                    if sub_state() == "held":
                        log.add("sub-hold", op=k, j=j)
                        self.send_items(sub_items, "sub", k)
                        self.subop_injections += 1
                        log.add("sub-unhold", op=k, j=j)
                    self.hold_store = False
                    self.ctl.hold_sub = None
                    if self.pending_store is not None:
                        m, self.pending_store = self.pending_store, None
                        self.answer_store(m)
                    self.ctl.release("sub-parked", k, j)
            self.pump(lambda: k in self.final, why="no final response for operation %d" % k)
            self.do_inj(("post", k), "post", k)
            # serve-end(k) was already observed above ("ended")
        self.cur_op = None
        self.do_inj(("pre", len(ops)), "pre", len(ops))


def _pt(at):
    return tuple(at)


# ====================================================================================== reference oracle
INF = float("inf")


def abstract(ev, sent_cancels):
    """Raw log -> (ops, cancels, ners, problems).  Pure data transformation."""
    problems = []
    cancels, requests = [], []
    for e in ev:
        if e["k"] == "rx-end":
            if e["name"] == "C-CANCEL-RQ":
                cancels.append(dict(id=e["rid"], a=e["a"], b=e["s"]))
            elif e["name"] in RQ_NAME.values():
                requests.append(dict(a=e["a"], b=e["s"], mid=e["mid"]))
    for i, c in enumerate(cancels):
        if i < len(sent_cancels):
            if sent_cancels[i]["id"] != c["id"]:
                problems.append("cancel %d: sent id %r, tap decoded %r" % (i, sent_cancels[i]["id"], c["id"]))
            c["point"] = sent_cancels[i]["point"]
        else:
            problems.append("more cancels received than sent")
            c["point"] = "?"
    serves = []
    ners = []
    for e in ev:
        if e["k"] == "serve-begin":
            rec = dict(a=e["s"], b=INF, typ=e["typ"], mid=e["mid"], exc=None)
            if e["typ"] in OP_CLASSES:
                serves.append(rec)
            elif e["typ"] == "N_EVENT_REPORT":
                ners.append(rec)
        elif e["k"] == "serve-end":
            for rec in serves + ners:
                if rec["a"] == e["a"]:
                    rec["b"] = e["s"]
                    rec["exc"] = e.get("exc")
    ops = []
    for e in ev:
        if e["k"] == "enter":
            k = e["op"]
            while len(ops) <= k:
                ops.append(None)
            ops[k] = dict(k=k, mid=e["mid"], t=e["t"], enter=e["s"], reads=[], rq_a=None, serve=None, exit=None,
                          honoured=False)
        elif e["k"] == "read-end":
            ops[e["op"]]["reads"].append(dict(j=e["j"], p=e["p"], q=e["s"], v=e["v"]))
        elif e["k"] == "exit":
            ops[e["op"]]["exit"] = e["s"]
        elif e["k"] == "honour":
            ops[e["op"]]["honoured"] = True
    for k, o in enumerate(ops):
        if o is None:
            problems.append("operation %d: no handler entry recorded" % k)
            continue
        if k < len(requests):
            o["rq_a"] = requests[k]["a"]
            if requests[k]["mid"] != o["mid"]:
                problems.append("operation %d: request id %r, handler saw %r" % (k, requests[k]["mid"], o["mid"]))
        if k < len(serves):
            o["serve"] = serves[k]
        if o["rq_a"] is None or o["serve"] is None or not (o["rq_a"] < o["serve"]["a"] < o["enter"]):
            problems.append("operation %d: request / serve / enter events inconsistent" % k)
    return [o for o in ops if o is not None], cancels, ners, problems


def judge(ops, cancels, ners):
    """Reference: -> list of verdicts, one per read.  Written from the Event.is_cancelled documentation and the
    property statement only."""
    out = []
    for o in ops:
        if o["rq_a"] is None:
            continue
        m = o["mid"]
        M = [c for c in cancels if c["id"] == m]
        last_true_q = 0
        for r in o["reads"]:
            fresh = [c for c in M if c["a"] > o["enter"] and c["b"] < r["p"] and c["a"] > last_true_q]
            must = bool(fresh)
            may = any(c["b"] > o["rq_a"] and c["a"] < r["q"] for c in M)
            v = dict(op=o["k"], j=r["j"], value=r["v"], must=must, may=may, t=o["t"], key=None, detail=None)
            stale = [c for c in M if c["b"] < o["rq_a"]]
            others_in_window = [c for c in cancels if c["id"] != m and c["b"] > o["rq_a"] and c["a"] < r["q"]]
            v["stale_probe"] = bool(stale) and not may
            v["other_probe"] = bool(others_in_window) and not may
            if must and not r["v"]:
                excuses = []
                for c in fresh:
                    ex = set()
                    if any(n["b"] > c["a"] and n["a"] < r["q"] for n in ners):
                        ex.add("ner")
                    pending_others = {c2["id"] for c2 in cancels if c2["id"] != m and c2["b"] > o["rq_a"] and c2["b"] < c["a"]}
                    if len(pending_others) >= 10:
                        ex.add("cap")
                    excuses.append(ex)
                c = fresh[-1]
                if c["point"] == "sub":
                    point = "during-suboperation"
                elif last_true_q:
                    point = "after-reported-cancel"
                elif r is o["reads"][0]:
                    point = "before-first-read"
                else:
                    point = "between-reads"
                if all("ner" in ex for ex in excuses):
                    v["key"] = "cancel-lost|n-event-report-served-during-operation"
                elif all(ex for ex in excuses):
                    v["key"] = "cancel-lost|over-10-pending|" + point
                else:
                    v["key"] = "cancel-not-seen|matching-id|" + point
                v["detail"] = ("%s operation %d (id %r) read %r returned False although C-CANCEL(%r) was received "
                               "(seq %d..%d) after handler entry (seq %d) and before the read (seq %d)"
                               % (o["t"], o["k"], m, r["j"], m, c["a"], c["b"], o["enter"], r["p"]))
            elif r["v"] and not may:
                if stale:
                    c = stale[-1]
                    prev = [x for x in ops if x["k"] < o["k"]]
                    if not prev:
                        v["key"] = "stale-cancel|received-before-first-operation"
                    else:
                        pe = prev[-1]["serve"]["b"] if prev[-1]["serve"] else INF
                        v["key"] = "stale-cancel|carried-over-to-next-operation|" + (
                            "during-previous-op" if c["a"] < pe else "between-ops")
                    v["detail"] = ("%s operation %d (id %r) read %r returned True; the only C-CANCEL(%r) was received "
                                   "(seq %d..%d) before this operation's request arrived (seq %d)"
                                   % (o["t"], o["k"], m, r["j"], m, c["a"], c["b"], o["rq_a"]))
                elif cancels:
                    v["key"] = "cancel-seen|other-id"
                    v["detail"] = ("%s operation %d (id %r) read %r returned True; cancels received so far name %r"
                                   % (o["t"], o["k"], m, r["j"], sorted({c["id"] for c in cancels if c["a"] < r["q"]})[:12]))
                else:
                    v["key"] = "cancel-seen|no-cancel-received"
                    v["detail"] = "%s operation %d (id %r) read %r returned True without any C-CANCEL" % (o["t"], o["k"], m, r["j"])
            if r["v"]:
                last_true_q = r["q"]
            out.append(v)
    return out


# ====================================================================================== run_case
def run_cross_association(case):
    """Two associations of one acceptor AE: a C-CANCEL sent on association A names the message id of the operation that is
    running on association B (A's own operation, if any, uses another id).  B's handler must never see it."""
    from pynetdicom import evt
    from vlib import peer as vpeer
    taps.reset()
    mid = case["mid"]
    svc = case["svc"]
    gate_b = threading.Event()
    parked_b = threading.Event()
    reads = {"A": [], "B": []}
    who = {}

    def handler(event):
        side = who.get(id(event.assoc), "?")
        if svc == "GET":
            yield 2
        if side == "B":
            parked_b.set()
            gate_b.wait(5.0)
        for j in range(2):
            reads.setdefault(side, []).append(bool(event.is_cancelled))
            yield 0xFF00, (_find_ds(0, j) if svc == "FIND" else _inst_ds(0, j))
    sop = FIND if svc == "FIND" else GET
    ae = harness.make_ae("VERIF-SCP", timeouts=TIMEOUTS, supported=[(FIND, [ILE]), (GET, [ILE]), ("1.2.840.10008.1.1", [ILE]),
                                                                   dict(abstract_syntax=CT, transfer_syntax=[ILE], scu_role=True, scp_role=True)])

    def on_est(event):
        who[id(event.assoc)] = "A" if not who else "B"
    server, port = harness.start_server(ae, [(evt.EVT_C_FIND, handler), (evt.EVT_C_GET, handler), (evt.EVT_ESTABLISHED, on_est),
                                             (evt.EVT_C_ECHO, lambda e: 0x0000)])
    viol, obs = [], {"fam": "cross-association", "svc": svc, "mid": mid, "cancels_on_other_association": case["n_cancels"]}
    counters = {"cases": 1, "cross_association_cases": 1}
    pa = pb = None
    inconclusive = None
    try:
        pcs = [{"id": 1, "abs": "1.2.840.10008.1.1", "ts": [ILE]}, {"id": 3, "abs": sop, "ts": [ILE]}, {"id": 5, "abs": CT, "ts": [ILE]}]
        rq = ps38.make_rq(pcs=pcs, extra_ui=[{"k": "role", "uid": CT, "scu": 1, "scp": 1}])
        pa = vpeer.Peer.connect(port)
        if (pa.associate(rq) or {}).get("type") != "AC":
            return {"key": sha(["cross", "setup"]), "nontrivial": False, "sample": obs, "violations": [], "counters": counters, "inconclusive": "A not accepted"}
        harness.wait_for(lambda: len(who) == 1, 2.0)
        pb = vpeer.Peer.connect(port)
        if (pb.associate(rq) or {}).get("type") != "AC":
            return {"key": sha(["cross", "setup"]), "nontrivial": False, "sample": obs, "violations": [], "counters": counters, "inconclusive": "B not accepted"}
        harness.wait_for(lambda: len(who) == 2, 2.0)
        kind = "C-FIND-RQ" if svc == "FIND" else "C-GET-RQ"
        pb.send_dimse(3, cmdset.make(kind, AffectedSOPClassUID=sop, MessageID=mid, Priority=0, CommandDataSetType=0), IDENT)
        if not parked_b.wait(4.0):
            inconclusive = "B's handler never parked"
        else:
            for _ in range(case["n_cancels"]):
                pa.send_dimse(3, cmdset.make("C-CANCEL-RQ", MessageIDBeingRespondedTo=mid, CommandDataSetType=0x0101))
            # (no request is sent on A afterwards: serving one would legitimately reset A's pending cancels) - give A's provider
            # time to take the cancels off its stream
            time.sleep(0.3)
            counters["cancels_sent_on_other_association"] = case["n_cancels"]
            gate_b.set()
            finals = []
            t_end = time.time() + 6.0
            while time.time() < t_end:
                m = pb.recv_dimse(0.5)
                if m is None:
                    continue
                if m.get("type") != "DIMSE":
                    break
                cf = m["cmd"].get("CommandField")
                if cf == 0x0001:      # C-STORE sub-operation of the C-GET: answer it
                    pb.send_dimse(m["ctx"], cmdset.make("C-STORE-RSP", AffectedSOPClassUID=m["cmd"].get("AffectedSOPClassUID"),
                                                        MessageIDBeingRespondedTo=m["cmd"].get("MessageID"), Status=0,
                                                        AffectedSOPInstanceUID=m["cmd"].get("AffectedSOPInstanceUID"), CommandDataSetType=0x0101))
                    continue
                if m["cmd"].get("Status") not in (0xFF00, 0xFF01):
                    finals.append(m["cmd"].get("Status"))
                    break
            obs["b_reads"] = list(reads["B"])
            obs["b_final"] = finals
            counters["reads"] = len(reads["B"])
            counters["reads_must_false"] = len(reads["B"])
            if any(reads["B"]):
                viol.append({"key": "cancel-misrouted|other-association|same-message-id|%s" % svc,
                             "detail": "%d C-CANCEL(s) naming message id %d were sent on association A; the %s handler running on association B "
                                       "(message id %d) read is_cancelled = %r" % (case["n_cancels"], mid, svc, mid, reads["B"])})
            if not reads["B"]:
                inconclusive = "B's handler never read is_cancelled"
        for p_ in (pa, pb):
            try:
                p_.release(1.0)
            except Exception:
                pass
    finally:
        gate_b.set()
        for p_ in (pa, pb):
            if p_ is not None:
                p_.close()
        harness.stop_ae(ae, 2.0)
    return {"key": sha(["cross", svc, mid, case["n_cancels"]]), "nontrivial": bool(reads["B"]), "sample": obs, "violations": viol,
            "counters": counters, "inconclusive": inconclusive}


def run_case(case):
    if case.get("cross"):
        return run_cross_association(case)
    from pynetdicom import evt
    taps.reset()
    log = Log()
    ctl = Ctl(case, log)
    _CUR["log"] = log
    ae = dest_ae = peer = None
    drv = None
    inconclusive = None
    counters = {"cases": 1}
    try:
        if any(op["t"] == "MOVE" for op in case["ops"]):
            dest_ae = harness.make_ae("DEST-SCP", timeouts=TIMEOUTS, supported=[(CT, [ILE])])
            _, ctl.dest_port = harness.start_server(dest_ae, [(evt.EVT_C_STORE, make_dest_store(ctl))])
        supported = [(FIND, [ILE]), (GET, [ILE]), (MOVE, [ILE]), (SCPM, [ILE]),
                     dict(abstract_syntax=CT, transfer_syntax=[ILE], scu_role=True, scp_role=True)]
        ae = harness.make_ae("VERIF-SCP", timeouts=TIMEOUTS, supported=supported, requested=[(CT, [ILE])])
        handlers = [(evt.EVT_C_FIND, make_handler(ctl, "FIND")), (evt.EVT_C_GET, make_handler(ctl, "GET")),
                    (evt.EVT_C_MOVE, make_handler(ctl, "MOVE")), (evt.EVT_N_EVENT_REPORT, on_ner)]
        _, port = harness.start_server(ae, handlers)
        pcs = [{"id": CX["FIND"], "abs": FIND, "ts": [ILE]}, {"id": CX["MOVE"], "abs": MOVE, "ts": [ILE]},
               {"id": CX["GET"], "abs": GET, "ts": [ILE]}, {"id": CX["CT"], "abs": CT, "ts": [ILE]},
               {"id": CX["NER"], "abs": SCPM, "ts": [ILE]}]
        peer = Peer.connect(port)
        ac = peer.associate(ps38.make_rq(called="VERIF-SCP", calling="PEER", pcs=pcs,
                                         extra_ui=[{"k": "role", "uid": CT, "scu": 1, "scp": 1}]))
        if not ac or ac.get("type") != "AC" or set(peer.accepted) != set(CX.values()):
            inconclusive = "association / contexts not accepted: %r" % (ac and ac.get("type"),)
        else:
            drv = Driver(case, ctl, log, peer)
            try:
                drv.run()
            except Stop as s:
                drv.stopped = str(s)
            if not drv.dead and not drv.stopped:
                try:
                    peer.send_pdu({"type": "RELRQ"})
                except OSError:
                    pass
                t_end = time.time() + 2.0
                while time.time() < t_end:
                    v = peer.recv_pdu(max(0.01, t_end - time.time()))
                    if v is None or v["type"] in ("RELRP", "EOF", "ABORT"):
                        break
    finally:
        spin = None
        if drv is not None and drv.stopped and not drv.dead:
            spin = _paused_spin()
        ctl.release_all()
        if spin:
            # harness clean-up only (after the observation): let the spinning thread leave its loop
            for a in list(taps.State.assocs):
                try:
                    a._is_paused = True
                except Exception:
                    pass
        try:
            if peer is not None:
                peer.close()
        except Exception:
            pass
        if ae is not None:
            harness.wait_for(lambda: not any(a.is_alive() for a in list(taps.State.assocs)), timeout=1.5)
            harness.stop_ae(ae, 3.0)
        if dest_ae is not None:
            harness.stop_ae(dest_ae, 3.0)
        _CUR["log"] = None

    ev = log.snapshot()
    excs = [dict(type=e["type"], where=e["where"], text=e["text"][:120], thread=e["thread"]) for e in taps.State.excs]
    violations = []
    sample = dict(fam=case.get("fam"), ops=case["ops"], inj=case.get("inj"))
    sig = signature(case)
    if drv is None:
        return dict(key=sig, nontrivial=False, sample=sample, violations=[], counters=counters,
                    inconclusive=inconclusive or "driver not started")

    ops, cancels, ners, problems = abstract(ev, drv.sent_cancels)
    verdicts = judge(ops, cancels, ners)
    seen = set()
    for v in verdicts:
        if v["key"] and v["key"] not in seen:
            seen.add(v["key"])
            violations.append({"key": v["key"], "detail": v["detail"] + " [%s]" % _brief(case)})

    # the 11th pending cancel is queued as an ordinary message and later served as a service request
    over = [e for e in ev if e["k"] == "serve-begin" and e["typ"] == "C_CANCEL"]
    esc = [x for x in excs if "_serve_request" in x["where"] or "run_reactor" in x["where"] or "Acceptor" in x["thread"]]
    if over:
        counters["overflow_cancel_served_as_request"] = len(over)
        if esc:
            violations.append({"key": "cancel-misrouted|over-10-pending|queued-as-service-request|%s-escaped" % esc[0]["type"],
                               "detail": "a C-CANCEL received while 10 cancels were pending was put on the message queue and "
                                         "handed to Association._serve_request: %s (%s) escaped and ended thread %s [%s]"
                                         % (esc[0]["type"], esc[0]["text"], esc[0]["thread"], _brief(case))})
    elif excs:
        counters["escaped_exceptions_other"] = len(excs)

    # ---- counters
    c = counters
    c["ops_run"] = len(ops)
    for o in ops:
        c["ops_" + o["t"]] = c.get("ops_" + o["t"], 0) + 1
    c["reads"] = len(verdicts)
    c["reads_true"] = sum(1 for v in verdicts if v["value"])
    c["reads_must_true"] = sum(1 for v in verdicts if v["must"])
    c["reads_must_false"] = sum(1 for v in verdicts if not v["may"])
    c["reads_either"] = sum(1 for v in verdicts if v["may"] and not v["must"])
    c["stale_probes"] = sum(1 for v in verdicts if v["stale_probe"])
    c["other_id_probes"] = sum(1 for v in verdicts if v["other_probe"])
    c["cancels_sent"] = len(drv.sent_cancels)
    c["cancels_received"] = len(cancels)
    c["cancels_in_ambiguous_window"] = sum(
        1 for x in cancels for o in ops if o["rq_a"] is not None and x["b"] > o["rq_a"] and x["a"] < o["enter"])
    c["ner_served"] = sum(1 for n in ners if n["b"] != INF)
    c["ner_between_cancel_and_read"] = sum(1 for v in verdicts if v["key"] and v["key"].startswith("cancel-lost|n-event"))
    c["subop_injections"] = drv.subop_injections
    c["stores_answered_by_peer"] = drv.stores_answered
    if len(case["ops"]) > 1:
        c["multi_op_cases"] = 1
    if len({x["id"] for x in cancels}) >= 11:
        c["cap_cases"] = 1
    for x in cancels:
        c["point_" + x.get("point", "?")] = c.get("point_" + x.get("point", "?"), 0) + 1
    honoured = [o for o in ops if o["honoured"]]
    c["cancel_honoured"] = len(honoured)
    for o in honoured:
        st = drv.final.get(o["k"])
        if st == 0xFE00:
            c["cancel_final_seen"] = c.get("cancel_final_seen", 0) + 1
        else:
            c["honoured_but_final_not_cancel"] = c.get("honoured_but_final_not_cancel", 0) + 1

    sample.update(reads=[[v["op"], v["j"], v["value"], "must" if v["must"] else ("may" if v["may"] else "never")]
                         for v in verdicts][:16],
                  finals={str(k): v for k, v in drv.final.items()}, stopped=drv.stopped, excs=excs[:3])
    if problems:
        inconclusive = "harness log inconsistent: " + "; ".join(problems[:3])
    elif any(e["k"] == "gate-timeout" for e in ev):
        inconclusive = "a handler gate timed out (driver stopped: %s)" % drv.stopped
    elif drv.stopped and spin and any(n["b"] != INF for n in ners):
        # outside the statement of C23 (recorded, reported in the evidence): the N-EVENT-REPORT thread's
        # _serve_request also resets Association._is_paused, and a later C-STORE sub-operation of the running C-GET
        # waits for it forever
        counters["subop_spins_after_ner_reset_is_paused"] = 1
        sample["spin"] = spin
    elif drv.stopped and not violations:
        inconclusive = "driver stopped: %s; escaped=%r" % (drv.stopped, excs[:2])
    nontrivial = bool(verdicts) and (bool(cancels) or c["ner_served"] > 0)
    return dict(key=sig, nontrivial=nontrivial, sample=sample, violations=violations, counters=counters,
                inconclusive=inconclusive)


def _paused_spin():
    """Two stack snapshots 0.25 s apart: a thread sitting in Association.send_c_*'s wait-for-pause loop."""
    import sys
    import traceback

    def snap():
        out = set()
        for tid, fr in sys._current_frames().items():
            st = traceback.extract_stack(fr)
            if st and st[-1].name.startswith("send_") and st[-1].filename.endswith("association.py") \
                    and "sleep" in (st[-1].line or ""):
                out.add((tid, st[-1].name))
        return out
    a = snap()
    if not a:
        return None
    time.sleep(0.25)
    both = a & snap()
    return sorted(n for _, n in both) or None


def _brief(case):
    return "ops=%s inj=%s" % (["%s#%d r%d%s" % (o["t"], o["id"], o["reads"], "h" if o["honour"] else "") for o in case["ops"]],
                               [[i["at"], i["items"][:4] + (["..."] if len(i["items"]) > 4 else [])] for i in case.get("inj", [])][:6])


# ====================================================================================== generation
def relation(case, k, cid):
    """ID relation of a cancel placed at operation index k (k may equal len(ops))."""
    ops = case["ops"]
    rel = []
    if k < len(ops) and ops[k]["id"] == cid:
        rel.append("own")
    if k - 1 >= 0 and k - 1 < len(ops) and ops[k - 1]["id"] == cid:
        rel.append("prev")
    if k + 1 < len(ops) and ops[k + 1]["id"] == cid:
        rel.append("next")
    return "+".join(rel) or "other"


def signature(case):
    ops = [(o["t"], o["reads"], o["honour"]) for o in case["ops"]]
    ids = [o["id"] for o in case["ops"]]
    reuse = [ids.index(i) for i in ids]
    inj = []
    for i in case.get("inj", []):
        k = i["at"][1]
        items = []
        others = {}
        for it in i["items"]:
            if it[0] == "n":
                items.append("n")
            else:
                r = relation(case, k, it[1])
                if r == "other":
                    r = "other%d" % others.setdefault(it[1], len(others))
                items.append(r)
        inj.append((i["at"], items))
    return sha([ops, reuse, inj])


TYPES = ("FIND", "GET", "MOVE")
ID_POOL = (1, 7, 0, 65535, 256, 9, 32768)


def _ids(rng, n):
    out = []
    while len(out) < n:
        x = rng.choice(ID_POOL) if rng.random() < 0.7 else rng.randrange(65536)
        if x not in out:
            out.append(x)
    return out


def _op(t, mid, reads=2, honour=False):
    return {"t": t, "id": mid, "reads": reads, "honour": honour}


def _points(k, op, subs=True):
    pts = [["gate", k, j] for j in range(op["reads"])] + [["gate", k, "x"]]
    if subs and op["t"] != "FIND":
        pts += [["sub", k, j] for j in range(op["reads"])]
    return pts


def _enumerated(rng, tier):
    cases = []

    def add(fam, ops, inj):
        cases.append({"fam": fam, "ops": ops, "inj": inj})

    reads_opts = (2,) if tier == "quick" else (1, 2, 3)
    # A single operation, matching cancel at every point; B the same with another id
    for t in TYPES:
        for reads in reads_opts:
            for honour in (True, False):
                m, o = _ids(rng, 2)
                op = _op(t, m, reads, honour)
                for at in [["pre", 0], ["race", 0]] + _points(0, op) + [["post", 0]]:
                    add("single", [dict(op)], [{"at": at, "items": [["c", m]]}])
                    if not honour:
                        add("other-id", [dict(op)], [{"at": at, "items": [["c", rng.choice([o, (m + 1) % 65536, (m - 1) % 65536])]]}])
    # C reuse of the id by the next operation(s); D cancel naming the NEXT / PREVIOUS operation's id
    for t1 in TYPES:
        for t2 in TYPES:
            m, n = _ids(rng, 2)
            o1 = _op(t1, m, 2, False)
            for at in [["gate", 0, 1], ["gate", 0, "x"], ["post", 0], ["pre", 1]] + ([["sub", 0, 1]] if t1 != "FIND" else []):
                add("reuse", [dict(o1), _op(t2, m, 2, False)], [{"at": at, "items": [["c", m]]}])
            add("reuse", [_op(t1, m, 2, True), _op(t2, m, 2, False)], [{"at": ["gate", 0, 0], "items": [["c", m], ["c", m]]}])
            add("reuse", [_op(t1, m, 1, False), _op(t2, m, 1, False), _op(t1, m, 2, False)],
                [{"at": ["gate", 0, "x"], "items": [["c", m]]}, {"at": ["pre", 2], "items": [["c", m]]}])
            for at in [["gate", 0, 0], ["gate", 0, "x"], ["post", 0], ["pre", 1], ["pre", 0]]:
                add("next-id", [_op(t1, m, 2, False), _op(t2, n, 2, False)], [{"at": at, "items": [["c", n]]}])
            for at in [["race", 1], ["gate", 1, 0], ["gate", 1, 1]]:
                add("prev-id", [_op(t1, m, 1, False), _op(t2, n, 2, False)], [{"at": at, "items": [["c", m]]}])
    # E more than 10 pending cancels
    for t in TYPES:
        for n_other in ((9, 10, 14) if tier == "quick" else (8, 9, 10, 11, 14)):
            m = _ids(rng, 1)[0]
            others = [(m + 1 + i) % 65536 for i in range(n_other)]
            add("cap", [_op(t, m, 2, False)], [{"at": ["gate", 0, 0], "items": [["c", x] for x in others] + [["c", m]]}])
        m = _ids(rng, 1)[0]
        others = [(m + 100 + i) % 65536 for i in range(12)]
        add("cap", [_op(t, m, 2, False)], [{"at": ["gate", 0, 0], "items": [["c", m]] + [["c", x] for x in others]}])
        # the pending set is filled BEFORE the operation starts: a matching cancel during the operation must be seen
        add("cap", [_op(t, m, 1, False), _op(t, (m + 1) % 65536, 2, False)],
            [{"at": ["pre", 1], "items": [["c", x] for x in others]}, {"at": ["gate", 1, 1], "items": [["c", (m + 1) % 65536]]}])
        # duplicates do not fill the pending set
        add("cap", [_op(t, m, 2, False)],
            [{"at": ["gate", 0, 0], "items": [["c", others[0]]] * 7 + [["c", others[1]]] * 7 + [["c", m]]}])
    # F duplicates of the matching cancel, and a second cancel after the first was reported
    for t in TYPES:
        m = _ids(rng, 1)[0]
        add("dups", [_op(t, m, 3, False)], [{"at": ["gate", 0, 0], "items": [["c", m]] * 3}])
        add("dups", [_op(t, m, 3, False)], [{"at": ["gate", 0, 0], "items": [["c", m]]}, {"at": ["gate", 0, 2], "items": [["c", m]]}])
        add("dups", [_op(t, m, 3, False)], [{"at": ["gate", 0, 0], "items": [["c", m]]}, {"at": ["gate", 0, 1], "items": [["c", m]]},
                                            {"at": ["gate", 0, 2], "items": [["c", m]]}])
    # G N-EVENT-REPORT served (own thread) between a cancel and the next read, and controls
    for t in TYPES:
        for j in (0, 1):
            m, n = _ids(rng, 2)
            add("ner", [_op(t, m, 2, True)], [{"at": ["gate", 0, j], "items": [["c", m], ["n"]]}])
            add("ner-control", [_op(t, m, 2, True)], [{"at": ["gate", 0, j], "items": [["n"], ["c", m]]}])
            add("ner-control", [_op(t, m, 2, False)], [{"at": ["gate", 0, j], "items": [["n"]]}])
            add("ner", [_op(t, m, 2, False)], [{"at": ["gate", 0, j], "items": [["c", m], ["n"], ["c", m]]}])
            add("ner-control", [_op(t, m, 2, False), _op(t, n, 2, False)],
                [{"at": ["gate", 0, j], "items": [["c", n]]}, {"at": ["pre", 1], "items": [["n"]]}])
        if t != "FIND":
            m = _ids(rng, 1)[0]
            add("ner", [_op(t, m, 2, True)], [{"at": ["sub", 0, 0], "items": [["c", m], ["n"]]}])
            add("ner-control", [_op(t, m, 2, True)], [{"at": ["sub", 0, 0], "items": [["n"], ["c", m]]}])
    return cases


def _random_case(rng):
    n_ops = rng.choice((1, 2, 2, 3, 3))
    pool = _ids(rng, rng.choice((1, 2, 3)))
    ops = [_op(rng.choice(TYPES), rng.choice(pool), rng.choice((1, 2, 2, 3)), rng.random() < 0.4) for _ in range(n_ops)]
    extra = [x for x in ((pool[0] + 1) % 65536, (pool[0] + 2) % 65536) if x not in pool]
    pts = [["pre", n_ops]]
    for k, op in enumerate(ops):
        pts += [["pre", k], ["race", k], ["post", k]] + _points(k, op)
    rng.shuffle(pts)
    inj = []
    budget = rng.choice((1, 2, 3, 5, 8, 15))
    use_ner = rng.random() < 0.15
    for at in pts[:rng.randint(1, 6)]:
        if budget <= 0:
            break
        n = min(budget, rng.choice((1, 1, 1, 2, 3)))
        items = []
        for _ in range(n):
            if use_ner and at[0] != "race" and rng.random() < 0.3:
                items.append(["n"])
            else:
                items.append(["c", rng.choice(pool + pool + extra)])
        budget -= n
        inj.append({"at": at, "items": items})
    return {"fam": "random", "ops": ops, "inj": inj}


def gen_cases(tier, seed):
    rng = rng_for(seed, PID, "gen", tier)
    cases = _enumerated(rng, tier)
    total = 420 if tier == "quick" else 4000
    if tier == "thorough":
        for rep in range(3):
            cases += _enumerated(rng_for(seed, PID, "gen", tier, rep), tier)
    n_rand = max(60, total - len(cases))
    for i in range(n_rand):
        cases.append(_random_case(rng_for(seed, PID, "rand", tier, i)))
    for i in range(8 if tier == "quick" else 120):
        r_ = rng_for(seed, PID, "cross", tier, i)
        cases.append({"cross": True, "svc": r_.choice(["FIND", "GET"]), "mid": r_.choice([0, 1, 7, 65535, r_.randrange(65536)]),
                      "n_cancels": r_.choice([1, 1, 3, 11])})
    for i, c in enumerate(cases):
        c["n"] = i
    return cases


def extra_evidence(tier, results):
    fams = {}
    keys = set()
    for r in results.values():
        s = r.get("sample") or {}
        fams[s.get("fam")] = fams.get(s.get("fam"), 0) + 1
        if r.get("nontrivial"):
            keys.add(r.get("key"))
    return {"families": fams, "distinct_nontrivial": len(keys)}
