"""C30 — storage apps never write outside their storage directory.

Workload (association path, primary and only path): the REAL `pynetdicom.apps.qrscp.handlers.handle_store`
and `pynetdicom.apps.common.handle_store` are bound into a real pynetdicom acceptor AE with the same
handler-argument lists and supported contexts the apps use (qrscp.py / storescp.py `main()`), listening on
loopback port 0.  A real pynetdicom requestor association sends C-STORE requests whose *data set* carries
hostile (0008,0018) SOP Instance UID / (0008,0016) SOP Class UID values.  Two sending modes:
  crafted : the C_STORE primitive is built by the harness (benign Affected SOP Class/Instance UID in the command
            set, hand-encoded data set bytes in the negotiated transfer syntax) and sent with
            `assoc.dimse.send_msg` -- exactly what an arbitrary peer can put on the wire;
  public  : `assoc.send_c_store(Dataset)` with the hostile value in the Dataset (the command set then carries it
            too); values the public API refuses are counted and skipped.

Monitors (per store, both must agree before a violation is reported):
  M1 `sys.addaudithook` (installed once per worker, recording only while a store is in flight): every `open`
     with writing flags, os.mkdir/rmdir/remove/rename/link/symlink/truncate/chmod/chown/utime, shutil.*,
     sqlite3.connect, tempfile.mkstemp/mkdtemp.  The hook lstat()s the target *before* the operation runs.
  M2 before/after snapshot (names, types, sizes, mtimes, content hashes, link targets) of a sandbox tree that
     contains the storage directory, sentinel sibling files/directories, the database file and the process cwd
     (each case chdir()s into a scratch cwd inside the sandbox so relative escapes are seen too).
A violation is an observed *effect* (lstat before != after, or a snapshot difference) on a path whose
os.path.realpath is outside {storage directory, database file and its -journal/-wal/-shm}.  Write attempts
outside that had no effect (ENOENT, EISDIR, ...) are counted, not reported.
Mechanism keys: "escape|<app>.handle_store|<class>", class in dotdot / absolute / subdir-separator / other.
"""
import argparse
import hashlib
import logging
import os
import shutil
import stat as statmod
import sys
import tempfile
import threading
import time
import warnings
import zlib
from io import BytesIO

from vlib.common import rng_for, sha

PID = "C30"
LEVEL = "exploration"
RULE = ("C-STORE requests sent over a real loopback association to the real qrscp / storescp store handlers (4 "
        "bindings: qrscp, storescp -od DIR, storescp -od DIR not yet existing, storescp without -od = cwd) x 4 "
        "transfer syntaxes (implicit LE, explicit LE, explicit BE, deflated) x 2 sending modes x a fixed catalogue of "
        "hostile SOP Instance UID / SOP Class UID strings ('../x', '../../x', absolute paths into the sandbox, 'a/b', "
        "'..', '.', empty, backslashes, NUL, 300 chars, unicode, spaces, trailing '/', ...) plus seeded random token "
        "compositions; distinct = (binding, transfer syntax, mode, instance bytes, class bytes); non-trivial = the "
        "handler produced a response and at least one of the two identifiers is not a well-formed UID")
ASSUMPTIONS = [
    "file-system mutations by Python code raise audit events (PEP 578); C-level writes (sqlite) are seen only by the snapshot",
    "the handler has finished all file operations for a request when its C-STORE response has been received",
    "'storage directory' of storescp without --output-directory is the process working directory",
    "a path is inside the storage directory iff its os.path.realpath is the directory or below it; the sandbox contains no symlinks planted by the harness",
    "hostile values that would resolve outside the per-case sandbox (more '..' than its depth) are not generated",
    "a write attempt outside the storage directory that fails without any file-system effect is not a violation of the statement",
]
WORKERS = {"quick": 16, "thorough": 16}
REQUIRE = {"responses": 300, "nontrivial_stores": 250, "responses|qrscp": 60, "responses|storescp": 60,
           "responses|storescp-newdir": 30, "responses|storescp-cwd": 30, "effects_inside_storage": 100,
           "audit_write_events_in_handler": 100, "mode|crafted": 150, "mode|public": 40,
           "ts|implicit": 40, "ts|explicit": 40, "ts|big": 40, "ts|deflated": 40, "db_effects_allowed": 30}
MAX_INCONCLUSIVE_FRAC = 0.02

CT = "1.2.840.10008.5.1.4.1.1.2"          # in storescp's SOP_CLASS_PREFIXES ("CT")
PDF = "1.2.840.10008.5.1.4.1.1.104.1"     # a storage class not in SOP_CLASS_PREFIXES ("UN")
TS = {"implicit": "1.2.840.10008.1.2", "explicit": "1.2.840.10008.1.2.1", "big": "1.2.840.10008.1.2.2",
      "deflated": "1.2.840.10008.1.2.1.99"}
TS_ORDER = ["implicit", "explicit", "big", "deflated"]
APPS = ["qrscp", "storescp", "storescp-newdir", "storescp-cwd"]
BENIGN_AFFECTED = "1.2.826.0.1.3680043.9.3811.30."

# ------------------------------------------------------------------ hostile catalogue
# strings; {TOKENS} are replaced by the per-case sandbox paths at run time; ("hex", "..") = raw bytes
INST_VALUES = [
    "1.2.3.4.5", "1.2.840.10008.99.1.2.3.4.5.6.7.8.9.10.11.12.13.14.15.16.17.18.19.20",
    # dotdot
    "../x", "../../x", "../../../x", "../sentinel.txt", "../sibling/keep.txt", "../sibling/new", "../instances_evil/x",
    "..", "../", "../..", "1.2.3/../../x", "./../x", "..//x", "../x/", "sub/../../x", "sub/../x", "x/../../y",
    "../.hidden", "../cwd/x", "../instances.sqlite.bak", "....//x", ".../x", "%2e%2e/x", "..%2fx", "../1.2.3",
    "../../sentinel_root.txt",
    # the storage directory already holds sub-directories named <prefix>.d (see Sandbox): a prefixed but unsanitised
    # file name "<prefix>." + value can climb out through them
    "d/../../x", "d/../../sentinel.txt", "d/../../sibling/keep.txt", "d/../x",
    # absolute
    "{LV}/abs_x", "{ROOT}/abs_x", "{BASE}/abs_x", "{LV}/sentinel.txt", "{CWD}/abs_in_cwd", "{STORAGE}/../abs_y",
    "{STORAGE}_evil/x", "/{LV}/x", "{STORAGE}/inside_abs", "{LV}/sibling/keep.txt", "/",
    # separators
    "a/b", "a/", "sub/x", "sub/", "{LV}/x/", "1.2.3/4.5.6",
    # other
    ".", "", " ", " ../x", "../x ", "\x00", "../x\x00", "..\x00/x", "1." * 150, "../" + "A" * 297, "\u00fcn\u00ef/c\u00f4de",
    "../\u00e9", "\\", "a\\b", "..\\..\\x", "..\\x", "C:\\x", "~", "~/x", "$HOME/x", "-rf", "*", "?", "|", "a\nb", "\t",
    "1.2.3;rm", "\uff0e\uff0e/x", "\u2025/x", "1.2.3\r\n", ("hex", "2e2e2fff"), ("hex", "2e2e2f7800"), "../x\\y",
    None,   # element absent
]
CLS_HOSTILE = ["../x", "../../x", "{LV}/abs_c", "{ROOT}/abs_c", "..", ".", "", "a/b", "/", "../sentinel.txt",
               "../sibling/", "sub/", "sub/../..", "..\\x", "\x00", "../x\x00", "1." * 150, "{STORAGE}/../abs_c2", None]
TOKENS = ["..", "..", ".", "/", "/", "//", "\\", "a", "x", "1.2.3", " ", "\x00", "\u00e9", "{LV}", "{ROOT}", "{STORAGE}",
          "{CWD}", "sentinel.txt", "sibling", "instances_evil", "sub", "~", "%2e", "UN.", "CT.", "cwd", "...", "d", "d/.."]


def _is_plain_uid(v):
    if v is None or isinstance(v, (tuple, list)):
        return False
    return 0 < len(v) <= 64 and all(c in "0123456789." for c in v)


def _store(ts, mode, inst, cls):
    return {"ts": ts, "mode": mode, "inst": list(inst) if isinstance(inst, tuple) else inst,
            "cls": list(cls) if isinstance(cls, tuple) else cls}


def gen_cases(tier, seed):
    rng = rng_for(seed, PID, tier, "gen")
    per_app = {a: [] for a in APPS}
    n = 0
    for app in APPS:
        lst = per_app[app]
        # (1) instance-UID catalogue; benign known / benign unknown class
        for i, v in enumerate(INST_VALUES):
            if tier == "thorough":
                for ts in TS_ORDER:
                    for cls in (CT, PDF):
                        lst.append(_store(ts, "crafted", v, cls))
            else:
                n += 1
                lst.append(_store(TS_ORDER[n % 4], "crafted", v, (CT, PDF)[(n // 4) % 2]))
        # (2) hostile class UID in the data set (command set keeps a real storage class)
        for v in CLS_HOSTILE:
            for inst in ("1.2.3.4", "../x"):
                tss = TS_ORDER if tier == "thorough" else [TS_ORDER[(n := n + 1) % 4]]
                for ts in tss:
                    lst.append(_store(ts, "crafted", inst, v))
        # (3) public send_c_store path (values the API accepts: <= 64 chars)
        for v in INST_VALUES:
            if v is None or isinstance(v, tuple) or len(v) > 64 or not v.strip(" \x00\t\r\n"):
                continue   # the command set cannot carry an empty Affected SOP Instance UID
            tss = TS_ORDER if tier == "thorough" else [TS_ORDER[(n := n + 1) % 4]]
            for ts in tss:
                lst.append(_store(ts, "public", v, CT))
        # (4) seeded random token compositions
        for _ in range(40 if tier == "quick" else 1500):
            inst = "".join(rng.choice(TOKENS) for _ in range(rng.randint(1, 6)))
            r = rng.random()
            cls = CT if r < 0.5 else PDF if r < 0.7 else "".join(rng.choice(TOKENS) for _ in range(rng.randint(1, 4)))
            mode = "public" if (cls == CT and rng.random() < 0.3 and inst.strip(" \x00\t\r\n")) else "crafted"
            lst.append(_store(rng.choice(TS_ORDER), mode, inst, cls))
    per = 12 if tier == "quick" else 40
    cases = []
    for app in APPS:
        lst = per_app[app]
        rng_for(seed, PID, tier, "shuffle", app).shuffle(lst)
        for b in range(0, len(lst), per):
            cases.append({"app": app, "stores": lst[b:b + per]})
    return cases


# ------------------------------------------------------------------ M1: audit hook
_MON = {"on": False, "events": [], "installed": False, "errors": 0}
_MON_LOCK = threading.Lock()
_TLS = threading.local()
_WFLAGS = os.O_WRONLY | os.O_RDWR | os.O_CREAT | os.O_TRUNC | os.O_APPEND
# event -> indexes of the arguments naming a path that is created / modified / removed
_PATH_ARGS = {
    "os.mkdir": (0,), "os.rmdir": (0,), "os.remove": (0,), "os.rename": (0, 1), "os.link": (1,), "os.symlink": (1,),
    "os.truncate": (0,), "os.chmod": (0,), "os.chown": (0,), "os.utime": (0,), "os.setxattr": (0,),
    "os.removexattr": (0,), "os.mkfifo": (0,), "os.mknod": (0,),
    "shutil.copyfile": (1,), "shutil.copymode": (1,), "shutil.copystat": (1,), "shutil.copytree": (1,),
    "shutil.move": (0, 1), "shutil.rmtree": (0,), "shutil.make_archive": (0,), "shutil.unpack_archive": (1,),
    "shutil.chown": (0,), "sqlite3.connect": (0,), "tempfile.mkstemp": (0,), "tempfile.mkdtemp": (0,),
}
_SPAWN = {"subprocess.Popen", "os.system", "os.exec", "os.posix_spawn", "os.spawn", "os.fork", "os.forkpty"}


def _lstat_sig(path):
    try:
        st = os.lstat(path)
    except (OSError, ValueError, TypeError):
        return None
    return (statmod.S_IFMT(st.st_mode), st.st_size, st.st_mtime_ns, st.st_ino, st.st_nlink)


def _audit(event, args):
    if not _MON["on"]:
        return
    if event != "open" and event not in _PATH_ARGS and event not in _SPAWN:
        return
    if getattr(_TLS, "busy", False):
        return
    _TLS.busy = True
    try:
        paths = []
        if event == "open":
            path, _mode, flags = args[0], args[1], args[2]
            if not isinstance(flags, int) or not (flags & _WFLAGS):
                return
            if isinstance(path, int):
                return
            paths = [path]
        elif event in _SPAWN:
            paths = []
        else:
            for i in _PATH_ARGS[event]:
                if i < len(args) and not isinstance(args[i], int) and args[i] is not None:
                    paths.append(args[i])
        in_handler = importer = False
        f = sys._getframe(1)
        depth = 0
        while f is not None and depth < 80:
            co = f.f_code
            if co.co_name == "handle_store" and "apps" in co.co_filename:
                in_handler = True
            if "importlib" in co.co_filename and "_bootstrap" in co.co_filename:
                importer = True
            f = f.f_back
            depth += 1
        rec = {"ev": event, "paths": [], "in_handler": in_handler, "importer": importer,
               "spawn": event in _SPAWN, "thread": threading.current_thread().name}
        for p in paths:
            try:
                p = os.fspath(p)
            except TypeError:
                p = repr(p)
            rec["paths"].append((p, _lstat_sig(p)))
        with _MON_LOCK:
            _MON["events"].append(rec)
    except BaseException:  # an audit hook must never break the operation it observes
        _MON["errors"] += 1
    finally:
        _TLS.busy = False


def _ensure_hook():
    if not _MON["installed"]:
        sys.addaudithook(_audit)
        _MON["installed"] = True


def _mon_begin():
    with _MON_LOCK:
        _MON["events"] = []
    _MON["on"] = True


def _mon_end():
    _MON["on"] = False
    with _MON_LOCK:
        ev, _MON["events"] = _MON["events"], []
    return ev


# ------------------------------------------------------------------ M2: snapshot
def snapshot(base):
    out = {}
    stack = [base]
    while stack:
        d = stack.pop()
        try:
            entries = list(os.scandir(d))
        except OSError:
            continue
        for e in entries:
            p = e.path
            try:
                st = e.stat(follow_symlinks=False)
            except OSError:
                continue
            if statmod.S_ISLNK(st.st_mode):
                out[p] = ("l", os.readlink(p))
            elif statmod.S_ISDIR(st.st_mode):
                out[p] = ("d",)
                stack.append(p)
            elif statmod.S_ISREG(st.st_mode):
                h = ""
                if st.st_size <= (1 << 20):
                    try:
                        with open(p, "rb") as fh:
                            h = hashlib.sha1(fh.read()).hexdigest()[:12]
                    except OSError:
                        h = "unreadable"
                out[p] = ("f", st.st_size, st.st_mtime_ns, h)
            else:
                out[p] = ("o", st.st_mode)
    return out


def snap_diff(a, b):
    return sorted(p for p in set(a) | set(b) if a.get(p) != b.get(p))


# ------------------------------------------------------------------ data set bytes (hand encoded)
def _val_bytes(v, sub):
    if v is None:
        return None
    if isinstance(v, (list, tuple)):
        return bytes.fromhex(v[1])
    for k, p in sub.items():
        v = v.replace("{" + k + "}", p)
    return v.encode("utf-8")


def _val_text(v, sub):
    b = _val_bytes(v, sub)
    return None if b is None else b.decode("utf-8", "replace")


def encode_dataset(ts, inst_b, cls_b):
    elems = [(0x0008, 0x0016, b"UI", cls_b), (0x0008, 0x0018, b"UI", inst_b), (0x0008, 0x0060, b"CS", b"CT"),
             (0x0010, 0x0010, b"PN", b"Doe^Jane"), (0x0010, 0x0020, b"LO", b"PID-30"),
             (0x0020, 0x000D, b"UI", b"1.2.826.0.1.3680043.9.3811.30.1"),
             (0x0020, 0x000E, b"UI", b"1.2.826.0.1.3680043.9.3811.30.1.1"), (0x0020, 0x0013, b"IS", b"1")]
    big = ts == "big"
    bo = "big" if big else "little"
    out = bytearray()
    for g, e, vr, val in elems:
        if val is None:
            continue
        if len(val) % 2:
            val = val + (b"\x00" if vr == b"UI" else b" ")
        out += g.to_bytes(2, bo) + e.to_bytes(2, bo)
        if ts == "implicit":
            out += len(val).to_bytes(4, bo)
        else:
            out += vr + len(val).to_bytes(2, bo)
        out += val
    out = bytes(out)
    if ts == "deflated":
        c = zlib.compressobj(wbits=-zlib.MAX_WBITS)
        out = c.compress(out) + c.flush()
        if len(out) % 2:
            out += b"\x00"
    return out


# ------------------------------------------------------------------ sandbox
class Sandbox:
    """base/root/lv/{instances/{sub,CT.d,UN.d}, instances_evil, sibling, sentinel.txt, cwd, instances.sqlite}"""

    def __init__(self, app):
        self.app = app
        self.base = os.path.realpath(tempfile.mkdtemp(prefix="c30_"))
        self.root = os.path.join(self.base, "root")
        self.lv = os.path.join(self.root, "lv")
        self.cwd = os.path.join(self.lv, "cwd")
        self.storage = self.cwd if app == "storescp-cwd" else os.path.join(self.lv, "instances")
        self.db_file = os.path.join(self.lv, "instances.sqlite")
        os.makedirs(self.cwd)
        for d in ("instances_evil", "sibling"):
            os.makedirs(os.path.join(self.lv, d))
            self._w(os.path.join(self.lv, d, "keep.txt"), "keep " + d)
        self._w(os.path.join(self.lv, "sentinel.txt"), "sentinel lv")
        self._w(os.path.join(self.root, "sentinel_root.txt"), "sentinel root")
        self._w(os.path.join(self.base, "sentinel_base.txt"), "sentinel base")
        if app != "storescp-cwd":
            self._w(os.path.join(self.cwd, "cwd_sentinel.txt"), "sentinel cwd")
        if app != "storescp-newdir":
            for d in ("sub", "CT.d", "UN.d"):
                os.makedirs(os.path.join(self.storage, d), exist_ok=True)
            self._w(os.path.join(self.storage, "CT.1.2.3.4.5"), "pre-existing instance")
        self.allowed_files = set()
        if app == "qrscp":
            self.allowed_files = {self.db_file + s for s in ("", "-journal", "-wal", "-shm")}
        self.sub = {"BASE": self.base, "ROOT": self.root, "LV": self.lv, "STORAGE": self.storage, "CWD": self.cwd}

    @staticmethod
    def _w(path, text):
        with open(path, "w") as fh:
            fh.write(text)

    def inside_base(self, rp):
        return rp == self.base or rp.startswith(self.base + os.sep)

    def allowed(self, rp):
        return rp == self.storage or rp.startswith(self.storage + os.sep) or rp in self.allowed_files

    def resolve(self, p):
        if isinstance(p, bytes):
            p = os.fsdecode(p)
        if not os.path.isabs(p):
            p = os.path.join(self.cwd, p)
        try:
            return os.path.realpath(p)
        except (ValueError, OSError):
            return None

    def safe_value(self, text):
        """All plausible ways a handler could combine the value with its directories stay inside the sandbox."""
        if text is None:
            return True
        if not getattr(self, "_in_variant", False):
            # pydicom / pynetdicom strip padding (and split UI values at backslashes) on the way: every such
            # derived string must be safe too
            junk = " \x00\t\r\n"
            variants = {text.strip(junk), text.lstrip(junk), text.rstrip(junk)}
            for part in text.split("\\"):
                variants |= {part, part.strip(junk)}
            variants.discard(text)
            self._in_variant = True
            try:
                if not all(self.safe_value(v) for v in variants):
                    return False
            finally:
                self._in_variant = False
        cands = []
        for pre in ("", "UN.", "CT.", "UN", "CT"):
            for d in (self.storage, self.cwd):
                cands.append(os.path.join(d, pre + text))
        t = text.replace("\\", "/")
        for d in (self.storage, self.cwd):
            cands.append(os.path.join(d, t))
        for c in cands:
            c = c.split("\x00")[0]
            n = os.path.normpath(c)
            if n.startswith("//"):
                n = n[1:]
            if not self.inside_base(n):
                # '/' itself (a directory, cannot be opened for writing) is harmless
                if n == "/":
                    continue
                return False
        return True


def classify(raw, sb, hostile_texts):
    """Escape class from the path the code under test actually used (raw) and the hostile strings sent."""
    if isinstance(raw, bytes):
        raw = os.fsdecode(raw)
    rel = None
    if raw.startswith(sb.storage + os.sep):
        rel = raw[len(sb.storage) + 1:]
    elif not os.path.isabs(raw) and sb.app == "storescp-cwd":
        rel = raw
    if rel is not None:
        parts = rel.split(os.sep)
        if ".." in parts:
            return "dotdot"
        if len(parts) > 1:
            return "subdir-separator"
        return "other"
    junk = " \x00\t\r\n"
    if os.path.isabs(raw):
        # the path is not (lexically) under the storage directory: "absolute" only if it is the peer's own
        # absolute string that was used as the path, otherwise the code under test chose the location itself
        nraw = os.path.normpath(raw)
        nraw = nraw[1:] if nraw.startswith("//") else nraw
        for h in hostile_texts:
            for part in [h] + h.split("\\"):
                part = part.strip(junk).split("\x00")[0]
                if part.startswith("/"):
                    nh = os.path.normpath(part)
                    nh = nh[1:] if nh.startswith("//") else nh
                    if len(nh) > 1 and (nraw == nh or nraw.startswith(nh) or nh.startswith(nraw)):
                        return "absolute"
    elif ".." in raw.split(os.sep):
        return "dotdot"
    return "other"


# ------------------------------------------------------------------ the apps' bindings
def start_acceptor(sb):
    """Mirror of qrscp.py / storescp.py main(): same handler tuple shapes, contexts and timeouts."""
    from pynetdicom import AE, evt, AllStoragePresentationContexts, ALL_TRANSFER_SYNTAXES
    if sb.app == "qrscp":
        from pynetdicom.apps.qrscp.handlers import handle_store
        from pynetdicom.apps.qrscp import db
        db_path = "sqlite:///" + sb.db_file
        db.create(db_path)
        os.makedirs(sb.storage, exist_ok=True)
        ae = AE("QRSCP")
        ae.maximum_pdu_size = 16382
        for cx in AllStoragePresentationContexts:
            ae.add_supported_context(cx.abstract_syntax, ALL_TRANSFER_SYNTAXES, scp_role=True, scu_role=False)
        args = argparse.Namespace(config=None, version=False, ae_title=None, port=None, bind_address=None,
                                  database_location=None, instance_location=None, clean=False, log_type=None,
                                  log_level=None)
        handlers = [(evt.EVT_C_STORE, handle_store, [sb.storage, db_path, args, logging.getLogger("qrscp")])]
    else:
        from pynetdicom.apps.common import handle_store
        ae = AE(ae_title="STORESCP")
        ae.maximum_pdu_size = 16382
        for cx in AllStoragePresentationContexts:
            ae.add_supported_context(cx.abstract_syntax, ALL_TRANSFER_SYNTAXES[:])
        outdir = None if sb.app == "storescp-cwd" else sb.storage
        args = argparse.Namespace(ignore=False, output_directory=outdir, port=0, ae_title="STORESCP",
                                  bind_address="127.0.0.1", no_echo=False, max_pdu=16382)
        handlers = [(evt.EVT_C_STORE, handle_store, [args, logging.getLogger("storescp")])]
    ae.acse_timeout = 30
    ae.dimse_timeout = 30
    ae.network_timeout = 30
    srv = ae.start_server(("127.0.0.1", 0), block=False, evt_handlers=handlers)
    return ae, srv


def connect(port):
    from pynetdicom import AE
    scu = AE("C30PEER")
    scu.acse_timeout = 10
    scu.dimse_timeout = 15
    scu.network_timeout = 30
    for abstract in (CT, PDF):
        for name in TS_ORDER:
            scu.add_requested_context(abstract, TS[name])
    assoc = scu.associate("127.0.0.1", port)
    return assoc


def _context_id(assoc, abstract, tsuid):
    for cx in assoc.accepted_contexts:
        if cx.abstract_syntax == abstract and cx.transfer_syntax[0] == tsuid:
            return cx.context_id
    return None


def send_crafted(assoc, msg_id, ts, affected_cls, data):
    from pynetdicom.dimse_primitives import C_STORE
    cx_id = _context_id(assoc, affected_cls, TS[ts])
    if cx_id is None:
        return "no-context", None
    req = C_STORE()
    req.MessageID = msg_id
    req.Priority = 2
    req.AffectedSOPClassUID = affected_cls
    req.AffectedSOPInstanceUID = BENIGN_AFFECTED + str(msg_id)
    req.DataSet = BytesIO(data)
    assoc._reactor_checkpoint.clear()
    t0 = time.time()
    while not assoc._is_paused and time.time() - t0 < 5:
        time.sleep(0.0001)
    try:
        assoc.dimse.send_msg(req, cx_id)
        _, rsp = assoc.dimse.get_msg(block=True)
    finally:
        assoc._reactor_checkpoint.set()
    if rsp is None:
        return "no-response", None
    return "ok", getattr(rsp, "Status", None)


def send_public(assoc, msg_id, ts, inst_text, cls_text):
    from pydicom.dataset import Dataset, FileMetaDataset
    from pydicom.uid import UID
    try:
        ds = Dataset()
        ds.SOPClassUID = cls_text
        ds.SOPInstanceUID = inst_text
        ds.Modality = "CT"
        ds.PatientName = "Doe^Jane"
        ds.PatientID = "PID-30"
        ds.StudyInstanceUID = "1.2.826.0.1.3680043.9.3811.30.1"
        ds.SeriesInstanceUID = "1.2.826.0.1.3680043.9.3811.30.1.1"
        ds.InstanceNumber = "1"
        ds.file_meta = FileMetaDataset()
        ds.file_meta.TransferSyntaxUID = UID(TS[ts])
        st = assoc.send_c_store(ds, msg_id=msg_id)
    except (ValueError, AttributeError, TypeError, UnicodeError) as exc:
        return "rejected:" + type(exc).__name__, None
    if "Status" not in st:
        return "no-response", None
    return "ok", st.Status


# ------------------------------------------------------------------ case execution
def setup_worker():
    logging.disable(logging.CRITICAL)
    warnings.simplefilter("ignore")
    sys.dont_write_bytecode = True
    _ensure_hook()
    # warm-up outside any monitoring window: lazy imports (sqlalchemy dialect, pydicom writers) happen here
    for app in ("qrscp", "storescp"):
        try:
            _run({"app": app, "stores": [_store("explicit", "crafted", "1.2.3.4.5.6", CT),
                                           _store("deflated", "public", "1.2.3.4.5.7", CT)]})
        except Exception:
            pass


def _bump(c, k, n=1):
    c[k] = c.get(k, 0) + n


def _run(case):
    app = case["app"]
    appkey = "qrscp" if app == "qrscp" else "storescp"
    counters, viols, keys, samples = {}, [], [], []
    inconclusive = None
    home = os.getcwd()
    sb = Sandbox(app)
    srv = assoc = None
    created_outside = []
    try:
        os.chdir(sb.cwd)
        ae, srv = start_acceptor(sb)
        port = srv.socket.getsockname()[1]
        assoc = connect(port)
        if not assoc.is_established:
            return {"key": "no-assoc", "nontrivial": False, "violations": [], "counters": counters,
                    "inconclusive": "association not established"}
        msg_id = 0
        pending = list(case["stores"])
        retried = set()
        while pending:
            s = pending.pop(0)
            msg_id += 1
            inst_t, cls_t = _val_text(s["inst"], sb.sub), _val_text(s["cls"], sb.sub)
            inst_b, cls_b = _val_bytes(s["inst"], sb.sub), _val_bytes(s["cls"], sb.sub)
            if id(s) not in retried:
                _bump(counters, "stores_generated")
            if not (sb.safe_value(inst_t) and sb.safe_value(cls_t)):
                _bump(counters, "skipped_target_outside_sandbox")
                continue
            if not assoc.is_established:
                inconclusive = "association lost before store #%d (%r)" % (msg_id, s)
                break
            hostile = not (_is_plain_uid(s["inst"]) and _is_plain_uid(s["cls"]))
            snap0 = snapshot(sb.base)
            _mon_begin()
            try:
                if s["mode"] == "public":
                    how, status = send_public(assoc, msg_id, s["ts"], inst_t, cls_t)
                else:
                    affected = cls_t if cls_t in (CT, PDF) else CT
                    how, status = send_crafted(assoc, msg_id, s["ts"], affected,
                                               encode_dataset(s["ts"], inst_b, cls_b))
            finally:
                events = _mon_end()
            snap1 = snapshot(sb.base)
            _bump(counters, "stores_sent")
            if how.startswith("rejected"):
                _bump(counters, "public_api_rejected")
                if events or snap_diff(snap0, snap1):
                    inconclusive = "file activity although the public API rejected the value %r" % (s,)
                continue
            if how != "ok" and s["mode"] == "crafted":
                # every crafted request is a well-formed DIMSE message, so a response is owed.  A missing one is a
                # harness/scheduling problem: judge what the monitors saw, then retry once on a fresh association.
                if id(s) in retried:
                    inconclusive = "%s (twice) for store %r" % (how, s)
                    break
                retried.add(id(s))
                pending.insert(0, s)
                _bump(counters, "crafted_no_response_retried")
                status = how
            elif how != "ok":
                # public path: the hostile value made the *command set* unusable for the acceptor (handler not
                # reached).  The monitors still judge whatever happened; then carry on with a new association.
                _bump(counters, "public_no_response")
                status = how
            else:
                _bump(counters, "responses")
                _bump(counters, "responses|" + app)
                _bump(counters, "status|0x%04X" % status if isinstance(status, int) else "status|none")
                _bump(counters, "mode|" + s["mode"])
                _bump(counters, "ts|" + s["ts"])
            if hostile and how == "ok":
                _bump(counters, "nontrivial_stores")
                keys.append(sha([app, s["ts"], s["mode"], s["inst"], s["cls"]]))

            # ---- verdict for this store
            hostile_texts = [t for t in (inst_t, cls_t) if t is not None]
            hostile_texts += [b.decode("latin-1") for b in (inst_b, cls_b) if b is not None]   # pydicom's default
            store_v = {}
            observed = []
            wrote_somewhere = False
            diff = snap_diff(snap0, snap1)
            explained = set()
            for ev in events:
                if ev["importer"]:
                    _bump(counters, "importer_writes_ignored")
                    continue
                if ev["spawn"]:
                    inconclusive = "process spawn (%s) during store %r: its writes cannot be audited" % (ev["ev"], s)
                    continue
                _bump(counters, "audit_write_events")
                if ev["in_handler"]:
                    _bump(counters, "audit_write_events_in_handler")
                for raw, pre in ev["paths"]:
                    if ev["ev"] == "sqlite3.connect" and raw in (":memory:", ""):
                        continue
                    rp = sb.resolve(raw)
                    post = _lstat_sig(raw if isinstance(raw, bytes) or os.path.isabs(raw) else os.path.join(sb.cwd, raw))
                    effect = pre != post
                    if rp is None:
                        _bump(counters, "unresolvable_paths_no_effect")
                        continue
                    explained.add(rp)
                    if effect:
                        wrote_somewhere = True
                    if sb.allowed(rp):
                        if effect:
                            _bump(counters, "db_effects_allowed" if rp in sb.allowed_files else "effects_inside_storage")
                        continue
                    if not effect and rp not in diff:
                        _bump(counters, "outside_attempts_without_effect|" + appkey)
                        observed.append("attempt %s %r (no effect)" % (ev["ev"], raw))
                        continue
                    if not sb.inside_base(rp) and pre is None and post is not None:
                        created_outside.append(rp)
                    k = "escape|%s.handle_store|%s" % (appkey, classify(raw, sb, hostile_texts))
                    store_v.setdefault(k, []).append("%s(%r) -> %s [lstat %s -> %s]%s" % (
                        ev["ev"], raw, rp, "absent" if pre is None else pre[1:3], "absent" if post is None else post[1:3],
                        "" if ev["in_handler"] else " (not under handle_store frame, thread %s)" % ev["thread"]))
            for p in diff:
                rp = os.path.realpath(p)
                if sb.allowed(rp):
                    wrote_somewhere = True
                    if rp in sb.allowed_files:
                        _bump(counters, "db_effects_allowed")
                    elif rp not in explained:
                        _bump(counters, "effects_inside_storage_snapshot_only")
                    continue
                wrote_somewhere = True
                already = any(rp in d for ds_ in store_v.values() for d in ds_)
                if already:
                    continue
                k = "escape|%s.handle_store|%s" % (appkey, classify(p, sb, hostile_texts))
                store_v.setdefault(k, []).append("snapshot: %s %s -> %s (no audit event named it)" % (
                    os.path.relpath(p, sb.base), snap0.get(p, "absent"), snap1.get(p, "absent")))
            if status == 0x0000 and not wrote_somewhere:
                inconclusive = "Success status but neither monitor saw a write for store %r" % (s,)
            for k, details in store_v.items():
                viols.append({"key": k, "detail": "binding=%s ts=%s mode=%s dataset (0008,0018)=%r (0008,0016)=%r status=%s "
                              "storage_dir=<S>=%s :: %s" % (app, s["ts"], s["mode"], inst_t, cls_t,
                                                             "0x%04X" % status if isinstance(status, int) else status,
                                                             sb.storage, "; ".join(details)[:900])})
            if how != "ok" or not assoc.is_established:
                try:
                    if assoc.is_established:
                        assoc.abort()
                except Exception:
                    pass
                t0 = time.time()
                while srv.active_associations and time.time() - t0 < 5:   # let a late handler finish
                    time.sleep(0.01)
                _bump(counters, "reassociations")
                assoc = connect(port)
            if len(samples) < 3 and hostile:
                samples.append({"binding": app, "ts": s["ts"], "mode": s["mode"], "inst": inst_t, "cls": cls_t,
                                "status": "0x%04X" % status if isinstance(status, int) else status,
                                "changed": [os.path.relpath(p, sb.base) for p in diff][:6],
                                "audit": ["%s %s" % (e["ev"], [os.path.relpath(sb.resolve(r) or "?", sb.base) for r, _ in e["paths"]])
                                          for e in events if not e["importer"]][:6],
                                "notes": observed[:3]})
    finally:
        _MON["on"] = False
        try:
            if assoc is not None and assoc.is_established:
                assoc.release()
        except Exception:
            pass
        try:
            if srv is not None:
                t0 = time.time()
                while srv.active_associations and time.time() - t0 < 2:
                    time.sleep(0.005)
                srv.shutdown()
        except Exception:
            pass
        os.chdir(home)
        shutil.rmtree(sb.base, ignore_errors=True)
        for p in created_outside:  # never leave anything behind, wherever a broken handler put it
            try:
                if os.path.isdir(p) and not os.path.islink(p):
                    shutil.rmtree(p, ignore_errors=True)
                else:
                    os.remove(p)
            except OSError:
                pass
    if _MON["errors"]:
        counters["audit_hook_errors"] = _MON["errors"]
        _MON["errors"] = 0
        inconclusive = inconclusive or "audit hook raised internally"
    counters["distinct_nontrivial_stores"] = len(set(keys))
    # one report per mechanism key per case
    seen, out_v = set(), []
    for v in viols:
        if v["key"] not in seen:
            seen.add(v["key"])
            out_v.append(v)
    _bump(counters, "violating_stores", len(viols)) if viols else None
    return {"key": sha(sorted(set(keys))), "nontrivial": bool(keys), "sample": samples or None, "violations": out_v,
            "counters": counters, "inconclusive": inconclusive, "store_keys": sorted(set(keys))}


def run_case(case):
    _ensure_hook()
    return _run(case)


def extra_evidence(tier, results):
    allk = set()
    for r in results.values():
        allk.update(r.get("store_keys") or [])
    return {"distinct_nontrivial": len(allk),
            "note": "distinct_nontrivial counts distinct (binding, transfer syntax, mode, instance value, class value) "
                    "stores with a hostile identifier that reached the handler and got a response"}
