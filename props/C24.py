"""C24 - SCU calls surface each response exactly once and fail cleanly.

Workload : a REAL pynetdicom requestor (AE.associate + Association.send_c_* / send_n_*) against the scripted
           acceptor of vlib.peer (reference codecs only).  One case = one association = one operation whose response
           stream is played by the acceptor: valid Pending* + final, extras after the final, wrong-type response,
           invalid response (no Status / no MessageIDBeingRespondedTo), undecodable identifier bytes, Pending without
           identifier, silence (DIMSE timeout), connection close, A-ABORT, C-GET with interleaved C-STORE-RQ
           sub-operations, Repository Query 0xB001.
Oracle   : `reference()` - a small model written from the send_* docstrings (and docs/changelog v1.2.0: a DIMSE timeout
           aborts the association): the list of (status, identifier) pairs handed to the caller must equal the
           reference list, one per response, in order, stopping at the first non-Pending (0xB001 for Repository Query
           continues); `(Dataset(), None)` once on silence / abort / close / invalid / unexpected message.
           Lock probe after every next(): `ae._lock.acquire(blocking=False)` from the calling thread, and (once per
           case) a second association of the same AE must complete a C-ECHO while the iterator is suspended.
           Clean failure: no exception reaches the caller, nothing hangs (watchdog), and when the reference says the
           association is still established a following C-ECHO + release() (or a peer initiated release) succeed;
           after a peer A-ABORT / close / DIMSE timeout the association thread ends.
           A tap on Association._serve_request tells when the association reactor (not the calling send_* method) took
           a response off the DIMSE queue; six "valid-delayed-threads" cases per repetition add two pure scheduling
           delays (reactor thread late after its checkpoint wait(), caller late between send_msg and get_msg).
Keys     : <op>|<category>|<what> (e.g. find|undecodable-identifier|yielded-twice), <op>|lock-held-while-suspended|<cat>,
           <op>|second-association-blocked-while-suspended|<cat>, wrong-type|<op>|accepted-as-response|exception-escaped|..,
           reactor-consumed-response|delays-injected|natural, followup|echo-failed|release-failed|peer-release-unanswered|..,
           <op>|<cat>|hang|<phase>.
A case with violations is re-run once at once; only keys seen in both runs are reported (else inconclusive), except
the reactor tap which is a definite observation.
"""
from __future__ import annotations

import struct
import sys
import threading
import time
import traceback

from vlib import cmdset, common, harness, ps38, taps
from vlib import peer as vpeer

PID = "C24"
LEVEL = "exploration"
RULE = ("case = (operation in 11 send_* calls) x (response-stream category: valid / extra-after-final / wrong-type / "
        "invalid-response / undecodable-identifier / lenient-garbage / pending-without-identifier / silence / "
        "peer-close / peer-abort / get-suboperations / repository-b001) x (position of the disturbance, statuses of "
        "every category, number of Pendings, consumption mode exhaust|drop, follow-up echo+release | peer release); "
        "distinct = distinct (op, category, script signature, mode, follow-up); non-trivial = the real call ran "
        "against the scripted acceptor and was compared with the docstring reference")
ASSUMPTIONS = [
    "Expected values come from the send_* docstrings: empty Dataset (and None) when the peer timed out, aborted or sent "
    "an invalid response; an unexpected (wrong type) response is treated as an invalid response (property statement: "
    "'invalid or unexpected message').",
    "docs/changelog v1.2.0 documents that a DIMSE timeout aborts the association: is_aborted asserted for silence and "
    "(by the meaning of the attribute) after a peer A-ABORT; after invalid/unexpected/close it is only recorded.",
    "Not asserted because the documentation is silent (recorded in counters/sample): identifier value for an "
    "undecodable / missing / lenient-garbage identifier (only 'exactly one yield with that status' is asserted); the "
    "status/dataset returned by N-* calls for an undecodable reply data set; identifier for a C-GET/C-MOVE "
    "Warning/Failure/Cancel response without identifier (docstring says Dataset, code gives None); follow-up "
    "behaviour after extra responses behind the final one; MessageIDBeingRespondedTo mismatch.",
    "All contexts use Implicit VR Little Endian; identifiers are hand-encoded by struct.",
    "Hang verdicts need two identical stack snapshots 1 s apart of the calling thread, else the case is inconclusive.",
    "DIMSE timeout 0.4 s only in streams that contain silence, 2.5 s elsewhere (those never wait for it); a case with "
    "violations is re-run once and only reproduced mechanism keys count (unreproduced => inconclusive).",
    "The scripted acceptor runs in the worker process (threads): response latency is loopback + GIL scheduling.",
    "Consumption modes: exhaust (like a for loop) and drop (caller stops at the first non-Pending and discards the "
    "iterator); abandoning an iterator at a Pending response is not exercised (C-CANCEL is property C23's).",
]
WORKERS = {"quick": 16, "thorough": 16}
REQUIRE = {
    "streams_compared": 200,
    "yields_compared": 300,
    "lock_probes": 300,
    "second_assoc_probes_ok": 20,
    "undecodable_pending_identifier_none": 4,
    "subop_requests_served": 5,
    "followup_echo_release_ok": 40,
    "followup_peer_release_ok": 10,
    "silence_aborted": 10, "race_window_calls": 5,
}
REQUIRE.update({"op_%s" % _o: 8 for _o in ("echo", "store", "find", "get", "move", "n_get", "n_set", "n_action",
                                           "n_create", "n_delete", "n_event_report")})
MAX_INCONCLUSIVE_FRAC = 0.03

DIMSE_TIMEOUT = 0.4               # streams that contain silence
DIMSE_TIMEOUT_NO_SILENCE = 2.5    # all other streams never wait for it (robust under machine load)
WATCHDOG = 12.0

VER = "1.2.840.10008.1.1"
CT = "1.2.840.10008.5.1.4.1.1.2"
FIND = "1.2.840.10008.5.1.4.1.2.1.1"
MOVE = "1.2.840.10008.5.1.4.1.2.1.2"
GET = "1.2.840.10008.5.1.4.1.2.1.3"
REPO = "1.2.840.10008.5.1.4.1.1.201.6"
MPPS = "1.2.840.10008.3.1.2.3.3"
INST = "1.2.826.0.1.3680043.9.3811.24.1"
ALL_ABSTRACT = [VER, CT, FIND, MOVE, GET, REPO, MPPS]

ITER_OPS = ("find", "get", "move")
STATUS_ONLY_OPS = ("echo", "store", "n_delete")
PAIR_OPS = ("n_get", "n_set", "n_action", "n_create", "n_event_report")
OPS = ("echo", "store") + ITER_OPS + PAIR_OPS + ("n_delete",)
RSP_KIND = {
    "echo": "C-ECHO-RSP", "store": "C-STORE-RSP", "find": "C-FIND-RSP", "get": "C-GET-RSP", "move": "C-MOVE-RSP",
    "n_get": "N-GET-RSP", "n_set": "N-SET-RSP", "n_action": "N-ACTION-RSP", "n_create": "N-CREATE-RSP",
    "n_delete": "N-DELETE-RSP", "n_event_report": "N-EVENT-REPORT-RSP",
}
RQ_KIND = {k: v.replace("-RSP", "-RQ") for k, v in RSP_KIND.items()}


# ===================================================================== reference side (no pynetdicom below this line
# until "real side"): status categories per PS3.7 Annex C / the docstrings, identifier encoding, expected results

_GENERAL_FAILURES = {0x0105, 0x0106, 0x0110, 0x0111, 0x0112, 0x0113, 0x0114, 0x0115, 0x0117, 0x0118, 0x0119, 0x0120, 0x0121,
                     0x0122, 0x0123, 0x0124, 0x0210, 0x0211, 0x0212, 0x0213}      # PS3.7 Annex C


def ref_category(status: int) -> str:
    if status == 0x0000:
        return "Success"
    if status in (0xFF00, 0xFF01):
        return "Pending"
    if status == 0xFE00:
        return "Cancel"
    if status in (0x0001, 0x0107, 0x0116) or 0xB000 <= status <= 0xBFFF:
        return "Warning"
    if 0xA000 <= status <= 0xAFFF or 0xC000 <= status <= 0xCFFF or status in _GENERAL_FAILURES:
        return "Failure"
    return "Unknown"      # never generated


def enc_ds(els) -> bytes:
    """[[group, element, value(str)], ...] -> implicit VR little endian bytes (text VRs only, even padded)."""
    out = b""
    for g, e, v in els:
        b = v.encode("ascii")
        if len(b) % 2:
            b += b"\0" if (g, e) in ((0x0008, 0x0016), (0x0008, 0x0018), (0x0008, 0x0058)) else b" "
        out += struct.pack("<HHI", g, e, len(b)) + b
    return out


def ds_expect(els) -> dict:
    return {"%04x,%04x" % (g, e): v for g, e, v in els}


def ds_bytes(ds) -> bytes | None:
    if ds is None:
        return None
    if "els" in ds:
        return enc_ds(ds["els"])
    return bytes.fromhex(ds["raw"])


EMPTY = {"status": None, "ident": "none", "opt": {}}


def reference(case) -> dict:
    """Expected caller-visible result of the scripted stream, from the documentation only."""
    op = case["op"]
    empty = dict(EMPTY, ident="na") if op in STATUS_ONLY_OPS else dict(EMPTY)
    exp = []
    handler_uids = []
    end = "established"
    stopped = False
    extras = 0
    for step in case["script"]:
        a = step["a"]
        if stopped:
            extras += 1
            continue
        if a == "store_rq":
            handler_uids.append(step["uid"])
            continue
        if a == "abort-racing":
            exp.append(dict(empty))
            end = "peer-aborted"
            stopped = True
            continue
        if a in ("silence", "close", "abort", "relrq-silence"):
            exp.append(dict(empty))
            # (an A-RELEASE-RQ instead of the awaited response changes nothing: the DIMSE timeout expires and the association is aborted)
            end = {"silence": "timeout-aborted", "relrq-silence": "timeout-aborted", "close": "peer-closed", "abort": "peer-aborted"}[a]
            stopped = True
            continue
        # a response message
        if step["kind"] != RSP_KIND[op] or step.get("omit"):
            exp.append(dict(empty))
            end = "ended-undocumented"
            stopped = True
            continue
        status = step["status"]
        cat = ref_category(status)
        ds = step.get("ds")
        opt = dict(step.get("extra") or {})
        decodable = ds is not None and "els" in ds
        if op in STATUS_ONLY_OPS:
            exp.append({"status": status, "ident": "na", "opt": opt})
            stopped = True
        elif op in PAIR_OPS:
            if cat in ("Success", "Warning"):
                if ds is None:
                    exp.append({"status": status, "ident": "empty", "opt": opt})
                elif decodable:
                    exp.append({"status": status, "ident": ds_expect(ds["els"]), "opt": opt})
                else:   # documentation silent about an undecodable reply
                    exp.append({"status": "any", "ident": "any", "opt": {}})
            else:
                exp.append({"status": status, "ident": "none", "opt": opt})
            stopped = True
        elif op == "find":
            if cat == "Pending":
                ident = ds_expect(ds["els"]) if decodable else "any"
                exp.append({"status": status, "ident": ident, "opt": opt})
            elif case.get("model") == "repo" and status == 0xB001:
                exp.append({"status": status, "ident": "none", "opt": opt})
            else:
                exp.append({"status": status, "ident": "none", "opt": opt})
                stopped = True
        else:   # get / move
            if cat == "Pending":
                exp.append({"status": status, "ident": "none", "opt": opt})
            elif cat == "Success":
                exp.append({"status": status, "ident": "none", "opt": opt})
                stopped = True
            else:
                ident = ds_expect(ds["els"]) if decodable else "any"
                exp.append({"status": status, "ident": ident, "opt": opt})
                stopped = True
    if not stopped:
        raise ValueError("script without a terminating step")
    if end == "established" and extras:
        end = "established-extras"
    return {"yields": exp, "end": end, "handler_uids": handler_uids}


# ===================================================================== case generation

def rsp(kind, status, ds=None, omit=(), extra=None):
    d = {"a": "rsp", "kind": kind, "status": status}
    if ds is not None:
        d["ds"] = ds
    if omit:
        d["omit"] = list(omit)
    if extra:
        d["extra"] = extra
    return d


def ident_els(i):
    return {"els": [[0x0008, 0x0052, "PATIENT"], [0x0010, 0x0010, "NAME^N%d" % i], [0x0010, 0x0020, "PID%d" % i]]}


def failed_list(i):
    return {"els": [[0x0008, 0x0058, "1.2.3.%d" % (i + 1)]]}


def attr_ds(i):
    return {"els": [[0x0010, 0x0010, "ATTR^%d" % i], [0x0010, 0x0020, "A%d" % i]]}


UNDECODABLE = [            # pydicom raises on these (checked by the counter undecodable_*_none)
    "ff" * 8,                                                     # element with undefined length, nothing behind it
    struct.pack("<HHI", 0x0008, 0x1115, 0xFFFFFFFF).hex() + "0102030405060708",   # sequence with garbage items
    (struct.pack("<HHI", 0x0008, 0x1115, 0xFFFFFFFF) + struct.pack("<HHI", 0xFFFE, 0xE000, 0xFFFFFFFF)
     + struct.pack("<HHI", 0x0010, 0x0020, 2) + b"AB").hex(),     # item without delimiter: truncated
]
LENIENT_GARBAGE = [        # not DICOM, but pydicom's reader is tolerant: only exactly-once is asserted
    (struct.pack("<HHI", 0x0010, 0x0020, 100) + b"ABCD").hex(),   # truncated element value
    (struct.pack("<HHI", 0x0010, 0x0020, 2) + b"AB" + b"\x10\x00\x10").hex(),   # truncated element header
    b"this is not a dicom data set at all....".hex(),
    bytes(range(7, 60)).hex(),
    "000102",
]

FINALS = {
    "find": [0x0000, 0xFE00, 0xA700, 0xA900, 0xC001, 0x0122, 0xB000],
    "get": [0x0000, 0xFE00, 0xA701, 0xA900, 0xC123, 0xB000, 0x0122],
    "move": [0x0000, 0xFE00, 0xA702, 0xA801, 0xC0FF, 0xB000, 0x0122],
}
SINGLE_STATUSES = {
    "echo": [0x0000, 0x0122, 0x0210, 0x0211, 0x0212, 0xB000, 0xFE00, 0xFF00],
    "store": [0x0000, 0x0117, 0xA700, 0xA900, 0xC000, 0xB000, 0xB006, 0xB007, 0xFE00],
    "n_delete": [0x0000, 0x0112, 0x0210, 0x0110, 0x0107],
    "n_get": [0x0000, 0x0107, 0x0110, 0x0112, 0x0117, 0xC123],
    "n_set": [0x0000, 0x0116, 0x0110, 0x0106, 0xC310, 0xB600],
    "n_action": [0x0000, 0xB101, 0x0123, 0x0114, 0xC101],
    "n_create": [0x0000, 0x0116, 0xB605, 0x0111, 0x0120, 0xC616],
    "n_event_report": [0x0000, 0x0001, 0x0113, 0x0115, 0x0110],
}
WRONG_KINDS = {
    "echo": ["C-STORE-RSP", "C-FIND-RSP", "N-GET-RSP"],
    "store": ["C-ECHO-RSP", "C-FIND-RSP", "N-SET-RSP"],
    "find": ["C-STORE-RSP", "C-ECHO-RSP", "C-GET-RSP", "N-GET-RSP"],
    "get": ["C-FIND-RSP", "C-ECHO-RSP", "C-MOVE-RSP", "C-STORE-RSP", "N-ACTION-RSP"],
    "move": ["C-FIND-RSP", "C-ECHO-RSP", "C-GET-RSP", "C-STORE-RSP", "N-DELETE-RSP"],
    "n_get": ["N-SET-RSP", "C-ECHO-RSP", "C-STORE-RSP"],
    "n_set": ["N-GET-RSP", "C-ECHO-RSP", "C-FIND-RSP"],
    "n_action": ["N-EVENT-REPORT-RSP", "C-STORE-RSP", "C-ECHO-RSP"],
    "n_create": ["N-SET-RSP", "C-ECHO-RSP", "C-STORE-RSP"],
    "n_delete": ["N-CREATE-RSP", "C-ECHO-RSP", "C-STORE-RSP"],
    "n_event_report": ["N-ACTION-RSP", "C-ECHO-RSP", "C-STORE-RSP"],
}


def pendings(op, n, start=0, rng=None):
    out = []
    for i in range(n):
        k = start + i
        if op == "find":
            st = 0xFF01 if (rng and rng.random() < 0.25) else 0xFF00
            out.append(rsp("C-FIND-RSP", st, ds=ident_els(k)))
        else:
            out.append(rsp(RSP_KIND[op], 0xFF00, extra={"NumberOfRemainingSuboperations": 20 - k,
                                                        "NumberOfCompletedSuboperations": k,
                                                        "NumberOfFailedSuboperations": 0,
                                                        "NumberOfWarningSuboperations": 0}))
    return out


def final(op, status, i=0, with_ds=True):
    if op == "find":
        return rsp("C-FIND-RSP", status)
    cat = ref_category(status)
    extra = {"NumberOfCompletedSuboperations": i, "NumberOfFailedSuboperations": 1 if cat != "Success" else 0,
             "NumberOfWarningSuboperations": 0}
    if cat != "Success" and with_ds:
        return rsp(RSP_KIND[op], status, ds=failed_list(i), extra=extra)
    return rsp(RSP_KIND[op], status, extra=extra)


def single_rsp(op, status, i=0, ds="auto"):
    kind = RSP_KIND[op]
    if ds == "auto":
        ds = attr_ds(i) if (op in PAIR_OPS and ref_category(status) in ("Success", "Warning")) else None
    return rsp(kind, status, ds=ds)


def vary(script, rng, rep, model=None):
    """Later repetitions (thorough tier) draw the service specific statuses from their whole documented ranges."""
    if rep == 0:
        return script
    for s in script:
        if s["a"] != "rsp" or s.get("omit"):
            continue
        st = s["status"]
        if model == "repo" and st == 0xB001:
            continue
        if 0xA000 <= st <= 0xAFFF and rng.random() < 0.6:
            s["status"] = rng.randrange(0xA000, 0xB000)
        elif 0xC000 <= st <= 0xCFFF and rng.random() < 0.6:
            s["status"] = rng.randrange(0xC000, 0xD000)
        elif 0xB000 <= st <= 0xBFFF and rng.random() < 0.6:
            s["status"] = rng.choice([x for x in range(0xB000, 0xC000) if not (model == "repo" and x == 0xB001)])
    return script


def _case(op, cat, script, rng, model=None, mode=None, followup=None):
    nsusp = sum(1 for s in script if s["a"] == "rsp")
    c = {"op": op, "cat": cat, "script": script,
         "mode": mode or ("exhaust" if rng.random() < 0.7 else "drop"),
         "followup": followup or ("echo_release" if rng.random() < 0.7 else "peer_release"),
         "probe_at": rng.randrange(0, max(1, min(nsusp, 3))),
         "msg_id": rng.choice([1, 2, 7, 255, 4660, 65535])}
    if model:
        c["model"] = model
    return c


def gen_cases(tier, seed):
    rng = common.rng_for(seed, PID, "cases", tier)
    reps = 1 if tier == "quick" else 40
    cases = []
    for rep in range(reps):
        n_before = len(cases)
        # ---------------- iterator operations
        for op in ITER_OPS:
            model = None
            fin = FINALS[op]
            kind = RSP_KIND[op]
            # valid: every final status, 0..4 Pendings
            for st in fin:
                for n in (rng.choice([0, 1]), rng.choice([2, 3, 4, 5])):
                    cases.append(_case(op, "valid", pendings(op, n, rng=rng) + [final(op, st, n)], rng))
            cases.append(_case(op, "valid", pendings(op, 6, rng=rng) + [final(op, 0x0000, 6)], rng, mode="drop",
                               followup="peer_release"))
            cases.append(_case(op, "valid", pendings(op, 2, rng=rng) + [final(op, rng.choice(fin), 2)], rng,
                               mode="drop", followup="echo_release"))
            if op != "find":
                st = rng.choice([s for s in fin if s not in (0,)])
                cases.append(_case(op, "valid", pendings(op, 1) + [final(op, st, 1, with_ds=False)], rng))
            # extras after the final
            for _ in range(3):
                n = rng.choice([0, 1, 2])
                ex = rng.choice([pendings(op, 1, 9), [final(op, 0x0000, 9)], pendings(op, 2, 9) + [final(op, 0xA900, 9)]])
                cases.append(_case(op, "extra-after-final", pendings(op, n, rng=rng) + [final(op, rng.choice(fin), n)] + ex, rng))
            # wrong type at position k
            for wk in WRONG_KINDS[op]:
                k = rng.choice([0, 1, 2])
                tail = [final(op, 0x0000, k)] if rng.random() < 0.5 else []
                wst = rng.choice([0x0000, 0xFF00, 0xA700])
                cases.append(_case(op, "wrong-type", pendings(op, k, rng=rng) + [rsp(wk, wst)] + tail, rng))
            # invalid at position k
            for om in ("Status", "MessageIDBeingRespondedTo"):
                for k in (0, rng.choice([1, 2, 3])):
                    st = rng.choice([0xFF00, 0x0000])
                    ds = ident_els(k) if (op == "find" and st == 0xFF00) else None
                    cases.append(_case(op, "invalid-response", pendings(op, k, rng=rng)
                                       + [rsp(kind, st, ds=ds, omit=[om])] + [final(op, 0x0000, k)], rng))
            # undecodable identifier
            for raw in (UNDECODABLE + UNDECODABLE if op == "find" else UNDECODABLE):
                if op == "find":
                    k = rng.choice([0, 1, 2])
                    after = rng.choice([0, 1, 2])
                    sc = (pendings(op, k, rng=rng) + [rsp(kind, 0xFF00, ds={"raw": raw})]
                          + pendings(op, after, k + 1, rng=rng) + [final(op, rng.choice(fin), k)])
                else:
                    k = rng.choice([0, 1, 2])
                    st = rng.choice([s for s in fin if s != 0])
                    sc = pendings(op, k) + [rsp(kind, st, ds={"raw": raw})]
                cases.append(_case(op, "undecodable-identifier", sc, rng))
            if op == "find":
                for raw in LENIENT_GARBAGE:
                    k = rng.choice([0, 1])
                    sc = (pendings(op, k, rng=rng) + [rsp(kind, 0xFF00, ds={"raw": raw})] + pendings(op, 1, k + 1)
                          + [final(op, 0x0000)])
                    cases.append(_case(op, "lenient-garbage-identifier", sc, rng))
                for k in (0, 1, 2):
                    sc = (pendings(op, k, rng=rng) + [rsp(kind, rng.choice([0xFF00, 0xFF01]))]
                          + pendings(op, rng.choice([0, 1]), k + 1) + [final(op, rng.choice(fin))])
                    cases.append(_case(op, "pending-without-identifier", sc, rng))
                # Repository Query: 0xB001 is not final
                for _ in range(3):
                    k = rng.choice([0, 1, 3])
                    sc = (pendings(op, k, rng=rng) + [rsp(kind, 0xB001)] + pendings(op, rng.choice([0, 1]), k)
                          + [final(op, rng.choice([0x0000, 0xA710, 0xFE00]))])
                    cases.append(_case(op, "repository-b001", sc, rng, model="repo"))
                # ... but it is final for another query model
                cases.append(_case(op, "valid", pendings(op, 1, rng=rng) + [rsp(kind, 0xB001)], rng))
            if op == "get":
                for _ in range(6):
                    n = rng.choice([1, 2, 3])
                    sc = []
                    for i in range(n):
                        sc.append({"a": "store_rq", "uid": "1.2.826.0.1.3680043.9.3811.24.9.%d" % (i + 1)})
                        sc += pendings(op, 1, i)
                    if rng.random() < 0.5:
                        sc.append({"a": "store_rq", "uid": "1.2.826.0.1.3680043.9.3811.24.9.%d" % (n + 1)})
                    sc.append(final(op, rng.choice([0x0000, 0xB000, 0xFE00]), n))
                    cases.append(_case(op, "get-suboperations", sc, rng))
            # silence / close / abort at position k
            for a in ("silence", "close", "abort"):
                for k in (0, rng.choice([1, 2, 3])):
                    cases.append(_case(op, {"silence": "silence", "close": "peer-close", "abort": "peer-abort"}[a],
                                       pendings(op, k, rng=rng) + [{"a": a}], rng))
            # the peer asks for a release instead of sending the (final) response, then stays silent
            for k in (0, rng.choice([1, 2])):
                cases.append(_case(op, "release-rq-then-silence", pendings(op, k, rng=rng) + [{"a": "relrq-silence"}], rng))
        for op in ("echo", "store", "n_get"):
            cases.append(_case(op, "release-rq-then-silence", [{"a": "relrq-silence"}], rng))
        for op in ("echo", "store", "find", "get", "move", "n_get", "n_set"):
            cases.append(_case(op, "peer-abort-racing-the-call", [{"a": "abort-racing"}], rng))
        # ---------------- single response operations
        for op in STATUS_ONLY_OPS + PAIR_OPS:
            kind = RSP_KIND[op]
            for i, st in enumerate(SINGLE_STATUSES[op]):
                cases.append(_case(op, "valid", [single_rsp(op, st, i)], rng))
            if op in PAIR_OPS:
                cases.append(_case(op, "valid", [single_rsp(op, 0x0000, 0, ds=None)], rng))
                for raw in UNDECODABLE[:2]:
                    cases.append(_case(op, "undecodable-dataset", [rsp(kind, 0x0000, ds={"raw": raw})], rng))
            cases.append(_case(op, "extra-after-final", [single_rsp(op, 0x0000), single_rsp(op, rng.choice(SINGLE_STATUSES[op]))], rng))
            for wk in WRONG_KINDS[op]:
                cases.append(_case(op, "wrong-type", [rsp(wk, rng.choice([0x0000, 0x0000, 0xA700]))], rng))
            for om in ("Status", "MessageIDBeingRespondedTo"):
                cases.append(_case(op, "invalid-response", [rsp(kind, 0x0000, omit=[om])], rng))
            for a in ("silence", "close", "abort"):
                cases.append(_case(op, {"silence": "silence", "close": "peer-close", "abort": "peer-abort"}[a], [{"a": a}], rng))
        # ---------------- back-to-back operations with two pure scheduling delays (reactor thread late after its
        # checkpoint wait(), calling thread late between send_msg() and get_msg()): nothing else differs from "valid"
        for op in ("echo", "find", "get", "n_get", "store", "move"):
            if op in ITER_OPS:
                sc = pendings(op, 1, rng=rng) + [final(op, 0x0000, 1)]
            else:
                sc = [single_rsp(op, 0x0000)]
            c = _case(op, "valid-delayed-threads", sc, rng, mode="exhaust", followup="echo_release")
            c["sched"] = {"reactor_late": 0.15, "caller_late": 0.3}
            cases.append(c)
        for c in cases[n_before:]:
            vary(c["script"], rng, rep, c.get("model"))
    rng.shuffle(cases)
    for c in cases:
        reference(c)    # every generated script must be well-formed for the reference
    return cases


# ===================================================================== scripted acceptor (reference codecs only)

def _rsp_cmd(step, rq_cmd):
    kind = step["kind"]
    sop_class = rq_cmd.get("AffectedSOPClassUID") or rq_cmd.get("RequestedSOPClassUID") or VER
    sop_inst = rq_cmd.get("AffectedSOPInstanceUID") or rq_cmd.get("RequestedSOPInstanceUID") or INST
    kw = {"AffectedSOPClassUID": sop_class, "MessageIDBeingRespondedTo": rq_cmd.get("MessageID", 1),
          "Status": step["status"]}
    if kind in ("C-STORE-RSP",) or kind.startswith("N-"):
        kw["AffectedSOPInstanceUID"] = sop_inst
    if kind == "N-ACTION-RSP":
        kw["ActionTypeID"] = rq_cmd.get("ActionTypeID", 1)
    if kind == "N-EVENT-REPORT-RSP":
        kw["EventTypeID"] = rq_cmd.get("EventTypeID", 1)
    kw.update(step.get("extra") or {})
    for o in step.get("omit") or ():
        kw.pop(o, None)
    if step.get("ds") is not None:
        kw["CommandDataSetType"] = 0x0001
    return cmdset.make(kind, **kw)


class Acceptor:
    """Accept loop: the first connection plays the case script, later ones (second-association probes) only serve
    C-ECHO and release."""

    def __init__(self, case):
        self.case = case
        self.lst = vpeer.Listener()
        self.stop = threading.Event()
        self.op_done = threading.Event()       # set by the driver when the caller-side operation returned
        self.script_done = threading.Event()
        self.log = {"request": None, "subop_rsp": [], "saw_abort": False, "saw_eof": False, "served_echo": 0,
                    "release_rq_answered": False, "peer_release_rp": None, "errors": [], "sent": 0}
        self.threads = []
        self.deadline = time.time() + WATCHDOG + 6
        self.race_go = threading.Event()       # set by the caller side when its send_* call is past the is_established check

    def start(self):
        t = threading.Thread(target=self._accept_loop, daemon=True)
        t.start()
        self.threads.append(t)

    def _accept_loop(self):
        first = True
        while not self.stop.is_set() and time.time() < self.deadline:
            try:
                p = self.lst.accept(0.2)
            except OSError:     # listener closed by close()
                return
            if p is None:
                continue
            t = threading.Thread(target=self._guard, args=(self._scripted if first else self._plain, p), daemon=True)
            first = False
            t.start()
            self.threads.append(t)

    def _guard(self, fn, p):
        try:
            fn(p)
        except Exception as exc:   # peer-side problem (e.g. the other side reset the connection): observation only
            self.log["errors"].append("%s: %r" % (fn.__name__, exc))
        finally:
            if fn == self._scripted:
                self.script_done.set()
            p.close()

    def _associate(self, p):
        extra = [{"k": "role", "uid": CT, "scu": 1, "scp": 1}]
        rq, ac = vpeer.accept_association(p, extra_ui=extra)
        if ac is None:
            return None
        return {pc["abs"]: pc["id"] for pc in rq["pcs"]}

    def _serve(self, p, main):
        while not self.stop.is_set() and time.time() < self.deadline:
            m = p.recv_dimse(0.2)
            if m is None:
                continue
            t = m.get("type")
            if t == "DIMSE":
                if m["cmd"].get("CommandField") == cmdset.COMMAND_FIELD["C-ECHO-RQ"]:
                    p.send_dimse(m["ctx"], cmdset.c_echo_rsp(m["cmd"].get("MessageID", 1)))
                    if main:
                        self.log["served_echo"] += 1
                elif main:
                    self.log.setdefault("late_dimse", []).append(m["cmd"].get("CommandField"))
            elif t == "RELRQ":
                p.send_pdu({"type": "RELRP"})
                if main:
                    self.log["release_rq_answered"] = True
                p.wait_eof(2.0)
                return
            elif t == "ABORT":
                if main:
                    self.log["saw_abort"] = True
                return
            elif t == "EOF":
                if main:
                    self.log["saw_eof"] = True
                return

    def _plain(self, p):
        if self._associate(p) is None:
            return
        self._serve(p, False)

    def _scripted(self, p):
        ctx = self._associate(p)
        if ctx is None:
            self.log["errors"].append("no A-ASSOCIATE-RQ")
            return
        if self.case["script"] and self.case["script"][0]["a"] == "abort-racing":
            # the peer aborts while the caller's send_* call has passed its is_established check but not yet sent anything
            if self.race_go.wait(6.0):
                p.abort(source=0, reason=0)
                p.wait_eof(2.0)
            else:
                self.log["errors"].append("the call never reached the race window")
            return
        m = p.recv_dimse(5.0)
        if not m or m.get("type") != "DIMSE":
            self.log["errors"].append("no request: %r" % (m and m.get("type")))
            return
        self.log["request"] = {"cmd": m["cmd"], "ctx": m["ctx"], "has_data": m["data"] is not None}
        rq_cmd, rq_ctx = m["cmd"], m["ctx"]
        sub_id = 100
        for step in self.case["script"]:
            a = step["a"]
            if a == "rsp":
                p.send_dimse(rq_ctx, _rsp_cmd(step, rq_cmd), ds_bytes(step.get("ds")))
                self.log["sent"] += 1
            elif a == "store_rq":
                sub_id += 1
                cmd = cmdset.make("C-STORE-RQ", AffectedSOPClassUID=CT, AffectedSOPInstanceUID=step["uid"],
                                  MessageID=sub_id, Priority=2, CommandDataSetType=0x0001)
                data = enc_ds([[0x0008, 0x0016, CT], [0x0008, 0x0018, step["uid"]], [0x0010, 0x0020, "SUBOP"]])
                p.send_dimse(ctx[CT], cmd, data)
                r = p.recv_dimse(4.0)
                if r and r.get("type") == "DIMSE":
                    self.log["subop_rsp"].append({"cf": r["cmd"].get("CommandField"), "status": r["cmd"].get("Status"),
                                                  "mid": r["cmd"].get("MessageIDBeingRespondedTo"), "want_mid": sub_id,
                                                  "uid": r["cmd"].get("AffectedSOPInstanceUID")})
                else:
                    self.log["subop_rsp"].append({"missing": True, "got": r and r.get("type")})
                    if r and r.get("type") in ("ABORT", "EOF"):
                        self.log["saw_abort" if r["type"] == "ABORT" else "saw_eof"] = True
                        return
            elif a == "close":
                p.close()
                return
            elif a == "abort":
                p.abort(source=0, reason=0)
                p.wait_eof(2.0)
                return
            elif a == "silence":
                break
            elif a == "relrq-silence":
                p.send_pdu({"type": "RELRQ"})
                break
        self.script_done.set()
        if self.case["followup"] == "peer_release" and reference(self.case)["end"] == "established":
            # peer initiated release once the caller's operation is over
            t_end = time.time() + WATCHDOG
            while not self.op_done.is_set() and time.time() < t_end and not self.stop.is_set():
                time.sleep(0.005)
            if self.op_done.is_set():
                time.sleep(0.02)
                r = p.release(3.0)
                self.log["peer_release_rp"] = bool(r and r.get("type") == "RELRP")
                if r and r.get("type") not in ("RELRP",):
                    self.log["peer_release_got"] = r.get("type")
                return
        self._serve(p, True)

    def close(self):
        self.stop.set()
        self.lst.close()


# ===================================================================== real side

REACTOR_GOT = []      # (assoc id, message type name, valid request?) every message the reactor took off the DIMSE queue
_TAPPED = False


def setup_worker():
    global _TAPPED
    harness.quiet_logging()
    taps.install()
    import warnings
    warnings.simplefilter("ignore")
    if not _TAPPED:
        _TAPPED = True
        from pynetdicom.association import Association
        orig = Association._serve_request

        def _serve_request(self, msg, context_id):
            try:
                REACTOR_GOT.append((id(self), msg.__class__.__name__, bool(msg.is_valid_request)))
            except Exception:
                pass
            return orig(self, msg, context_id)
        Association._serve_request = _serve_request


def _norm_value(v):
    if isinstance(v, (bytes, bytearray)):
        return bytes(v).hex()
    if isinstance(v, (list, tuple)) or v.__class__.__name__ == "MultiValue":
        return "\\".join(str(x) for x in v)
    if isinstance(v, int):
        return v
    return str(v)


def _norm_status(ds):
    try:
        return {e.keyword or str(e.tag): _norm_value(e.value) for e in ds}
    except Exception as exc:
        return {"_error": repr(exc)}


def _norm_ident(ds):
    if ds is None:
        return None
    try:
        return {"%04x,%04x" % (e.tag.group, e.tag.element): _norm_value(e.value) for e in ds}
    except Exception as exc:
        return {"_error": repr(exc)[:120]}


class _LateEvent(threading.Event):
    """threading.Event whose waiter is scheduled `late` seconds after wait() returned (a pure delay)."""

    def __init__(self, late):
        super().__init__()
        self._late = late

    def wait(self, timeout=None):
        r = super().wait(timeout)
        time.sleep(self._late)
        return r


def _inject_delays(assoc, caller, sched):
    ev = _LateEvent(sched["reactor_late"])
    if assoc._reactor_checkpoint.is_set():
        ev.set()
    assoc._reactor_checkpoint = ev
    time.sleep(0.05)          # the reactor picks the new event object up at its next iteration
    orig = assoc.dimse.send_msg

    def send_msg(*a, **kw):
        r = orig(*a, **kw)
        if threading.current_thread() is caller:
            time.sleep(sched["caller_late"])
        return r
    assoc.dimse.send_msg = send_msg


class Caller(threading.Thread):
    """The application thread: performs the operation, the lock probes and the follow-up; records phases."""

    def __init__(self, case, ae, assoc, acc, port):
        super().__init__(daemon=True)
        self.case, self.ae, self.assoc, self.acc, self.port = case, ae, assoc, acc, port
        self.phase = "start"
        self.obs = []            # yielded / returned pairs
        self.exc = None
        self.lock_probes = []    # (index, acquired)
        self.lock_retries = 0
        self.second = []         # results of second-association probes
        self.follow = {}
        self.end_state = {}
        self.store_calls = []
        self.done = threading.Event()

    # ---------------------------------------------------------- probes
    def probe_lock(self, idx):
        lk = self.ae._lock
        ok = lk.acquire(blocking=False)
        if not ok:
            # a short critical section of another thread (e.g. a second association being set up) is legitimate:
            # only a lock that stays taken counts as held by the suspended iterator
            ok = lk.acquire(timeout=0.3)
            self.lock_retries += 1
        if ok:
            lk.release()
        self.lock_probes.append((idx, ok))
        return ok

    def probe_second_assoc(self, idx, budget=2.5):
        res = {"idx": idx, "established": None, "echo": None, "finished": False}

        def run():
            try:
                a2 = self.ae.associate("127.0.0.1", self.port)
                res["established"] = a2.is_established
                if a2.is_established:
                    st = a2.send_c_echo()
                    res["echo"] = getattr(st, "Status", None)
                    a2.release()
                res["finished"] = True
            except Exception as exc:
                res["exc"] = repr(exc)
        t = threading.Thread(target=run, daemon=True)
        t.start()
        t.join(budget)
        res["alive_after_budget"] = t.is_alive()
        if t.is_alive():
            res["stack"] = taps.stack_of(t)
        self.second.append(res)

    # ---------------------------------------------------------- the operation
    def _invoke(self):
        from pydicom.dataset import Dataset, FileMetaDataset
        from pydicom.uid import ImplicitVRLittleEndian
        op, a, mid = self.case["op"], self.assoc, self.case["msg_id"]
        q = Dataset()
        q.QueryRetrieveLevel = "PATIENT"
        q.PatientID = "*"
        if op == "echo":
            return a.send_c_echo(msg_id=mid)
        if op == "store":
            ds = Dataset()
            ds.SOPClassUID = CT
            ds.SOPInstanceUID = INST
            ds.PatientID = "STORE"
            ds.file_meta = FileMetaDataset()
            ds.file_meta.TransferSyntaxUID = ImplicitVRLittleEndian
            return a.send_c_store(ds, msg_id=mid)
        if op == "find":
            return a.send_c_find(q, REPO if self.case.get("model") == "repo" else FIND, msg_id=mid)
        if op == "get":
            return a.send_c_get(q, GET, msg_id=mid)
        if op == "move":
            return a.send_c_move(q, "DEST", MOVE, msg_id=mid)
        attrs = Dataset()
        attrs.PatientID = "NREQ"
        if op == "n_get":
            return a.send_n_get([0x00100010, 0x00100020], MPPS, INST, msg_id=mid)
        if op == "n_set":
            return a.send_n_set(attrs, MPPS, INST, msg_id=mid)
        if op == "n_action":
            return a.send_n_action(attrs, 1, MPPS, INST, msg_id=mid)
        if op == "n_create":
            return a.send_n_create(attrs, MPPS, INST, msg_id=mid)
        if op == "n_delete":
            return a.send_n_delete(MPPS, INST, msg_id=mid)
        if op == "n_event_report":
            return a.send_n_event_report(attrs, 1, MPPS, INST, msg_id=mid)
        raise ValueError(op)

    def _record(self, status, ident):
        self.obs.append({"status": _norm_status(status), "ident": "na" if ident == "na" else _norm_ident(ident)})

    def run(self):
        try:
            self._run()
        except BaseException as exc:
            self.exc = {"phase": self.phase, "type": type(exc).__name__, "text": repr(exc)[:300],
                        "tb": "".join(traceback.format_exception(exc))[-1200:]}
        finally:
            self.acc.op_done.set()
            self.done.set()

    def _run(self):
        case, op = self.case, self.case["op"]
        self.phase = "call"
        r = self._invoke()
        if op in ITER_OPS:
            it = r
            idx = 0
            probed2 = probed_held = False
            while True:
                self.phase = "next-%d" % idx
                try:
                    status, ident = next(it)
                except StopIteration:
                    break
                self._record(status, ident)
                self.phase = "probe-%d" % idx
                ok = self.probe_lock(idx)
                if (not probed2 and idx >= case["probe_at"]) or (not ok and not probed_held):
                    probed2 = True
                    probed_held = probed_held or not ok
                    self.probe_second_assoc(idx, budget=2.5 if ok else 1.2)
                st = getattr(status, "Status", None)
                if case["mode"] == "drop" and (st is None or ref_category(st) != "Pending") and not (
                        case.get("model") == "repo" and st == 0xB001):
                    self.phase = "drop"
                    del it
                    break
                idx += 1
                if idx > 40:
                    self.phase = "runaway"
                    break
        else:
            if op in STATUS_ONLY_OPS:
                self._record(r, "na")
            else:
                self._record(r[0], r[1])
            self.probe_lock(0)
        self.phase = "after-op"
        self.acc.op_done.set()
        a = self.assoc
        ref = reference(case)
        self.end_state["established_after_op"] = a.is_established
        self.end_state["aborted_after_op"] = a.is_aborted
        if ref["end"] in ("established", "established-extras"):
            if case["followup"] == "echo_release" or ref["end"] == "established-extras":
                if ref["end"] == "established-extras":
                    time.sleep(0.05)
                self.phase = "followup-echo"
                if a.is_established:
                    st = a.send_c_echo()
                    self.follow["echo"] = getattr(st, "Status", None)
                self.phase = "followup-release"
                if a.is_established:
                    a.release()
                self.follow["released"] = a.is_released
            else:
                self.phase = "followup-peer-release"
                self.follow["peer_released"] = harness.wait_for(lambda: a.is_released, 4.0)
        elif ref["end"] == "peer-aborted":
            self.phase = "wait-aborted"
            self.end_state["aborted_eventually"] = harness.wait_for(lambda: a.is_aborted, 3.0)
        self.phase = "wait-thread"
        if ref["end"] != "established-extras" and not (ref["end"] == "ended-undocumented" and not a.is_aborted):
            self.end_state["thread_ended"] = harness.wait_for(lambda: not a.is_alive(), 3.0)
        self.end_state["established_end"] = a.is_established
        self.end_state["aborted_end"] = a.is_aborted
        self.end_state["released_end"] = a.is_released
        self.phase = "finished"


# ===================================================================== comparison

def _match(o, e):
    """None if the observed pair satisfies the expected item, else the name of the differing part."""
    if e["status"] is None:
        if o["status"] != {}:
            return "status-not-empty"
    elif e["status"] != "any":
        if o["status"].get("Status") != e["status"]:
            return "status"
        for k, v in e["opt"].items():
            if k in o["status"] and o["status"][k] != v:
                return "status-optional-element"
    ident = e["ident"]
    if ident == "any":
        return None
    if ident == "na":
        return None if o["ident"] == "na" else "shape"
    if ident == "none":
        return None if o["ident"] is None else "identifier-not-None"
    if ident == "empty":
        return None if o["ident"] == {} else "dataset-not-empty"
    return None if o["ident"] == ident else "identifier"


def compare(case, obs, exp):
    """-> list of (mechanism suffix, detail).  Greedy alignment classifies duplicates / skips / wrong values."""
    out = []
    i = j = 0
    while i < len(obs) and j < len(exp):
        d = _match(obs[i], exp[j])
        if d is None:
            i += 1
            j += 1
            continue
        if j > 0 and _match(obs[i], dict(exp[j - 1], ident="any")) is None and obs[i]["status"] == obs[i - 1]["status"]:
            out.append(("yielded-twice", "yield #%d %r repeats response #%d" % (i, obs[i], j - 1)))
            i += 1
            continue
        if j + 1 < len(exp) and _match(obs[i], exp[j + 1]) is None:
            out.append(("response-skipped", "response #%d (%r) never surfaced" % (j, exp[j])))
            j += 1
            continue
        out.append(("wrong-value|" + d, "yield #%d is %r, reference %r" % (i, obs[i], exp[j])))
        i += 1
        j += 1
    while i < len(obs):
        if j > 0 and _match(obs[i], dict(exp[j - 1], ident="any")) is None and obs[i]["status"] == obs[i - 1]["status"]:
            out.append(("yielded-twice", "yield #%d %r repeats response #%d" % (i, obs[i], j - 1)))
        else:
            out.append(("extra-yield-after-end", "yield #%d %r beyond the reference list (%d items)" % (i, obs[i], len(exp))))
        i += 1
    while j < len(exp):
        out.append(("missing-yield", "response #%d (%r) never surfaced; %d yields" % (j, exp[j], len(obs))))
        j += 1
    return out


def _sig(case):
    parts = []
    for s in case["script"]:
        if s["a"] == "rsp":
            d = s.get("ds")
            parts.append("%s:%04x:%s%s" % (s["kind"], s["status"], "-" if d is None else ("d" if "els" in d else "raw" + common.sha(d["raw"])[:4]),
                                           ":omit" + ",".join(s["omit"]) if s.get("omit") else ""))
        else:
            parts.append(s["a"])
    return "%s|%s|%s|%s|%s|%s" % (case["op"], case.get("model", "-"), case["cat"], case["mode"], case["followup"], ">".join(parts))


def run_case(case):
    """Run the case; a case with violations is re-run once immediately and only the mechanism keys seen in BOTH runs are
    reported (machine load can make a 0.4 s DIMSE timeout expire early); keys that do not reproduce make the case
    inconclusive, never 'held'."""
    r1 = _run_once(case)
    if not r1["violations"]:
        return r1
    r2 = _run_once(case)
    k2 = {v["key"] for v in r2["violations"]}
    # the reactor tap is a definite observation (not inferred from timing): reported even when the race does not recur
    both = [v for v in r1["violations"] if v["key"] in k2 or v["key"].startswith("reactor-consumed-response")]
    lost = sorted({v["key"] for v in r1["violations"]} - {v["key"] for v in both})
    counters = dict(r1["counters"])
    counters["cases_rerun"] = 1
    if lost:
        counters["violation_keys_not_reproduced"] = len(lost)
    inc = r1["inconclusive"]
    if lost and not both:
        inc = inc or "violation(s) %r of the first run did not reproduce on the immediate re-run (load?)" % lost[:4]
    return dict(r1, violations=both, counters=counters, inconclusive=inc)


def _run_once(case):
    from pynetdicom import build_role, evt
    from pydicom.uid import ImplicitVRLittleEndian
    taps.reset()
    del REACTOR_GOT[:]
    op, cat = case["op"], case["cat"]
    viol, counters = [], {}
    ref = reference(case)

    def V(key, detail):
        viol.append({"key": key, "detail": detail})

    def C(name, n=1):
        counters[name] = counters.get(name, 0) + n

    dimse_timeout = DIMSE_TIMEOUT if any(s_["a"] in ("silence", "relrq-silence", "abort-racing") for s_ in case["script"]) else DIMSE_TIMEOUT_NO_SILENCE
    ae = harness.make_ae("VERIF-SCU", timeouts=(4.0, dimse_timeout, 8.0, 4.0),
                         requested=[(u, ImplicitVRLittleEndian) for u in ALL_ABSTRACT])
    acc = Acceptor(case)
    acc.start()
    caller = None
    inconclusive = None
    sample = {"op": op, "cat": cat, "mode": case["mode"], "followup": case["followup"], "steps": len(case["script"])}
    try:
        store_calls = []

        def on_store(event):
            store_calls.append(str(event.request.AffectedSOPInstanceUID))
            return 0x0000

        assoc = ae.associate("127.0.0.1", acc.lst.port, ext_neg=[build_role(CT, scu_role=True, scp_role=True)],
                             evt_handlers=[(evt.EVT_C_STORE, on_store)])
        if not assoc.is_established:
            return {"key": _sig(case), "nontrivial": False, "sample": sample, "violations": [], "counters": counters,
                    "inconclusive": "association with the scripted acceptor not established"}
        caller = Caller(case, ae, assoc, acc, acc.lst.port)
        if case["script"] and case["script"][0]["a"] == "abort-racing":
            # _get_valid_context() is the first thing every send_* method does after its is_established check: hold the call there
            # until the association's reactor has dealt with the peer's A-ABORT and ended
            orig_gvc = assoc._get_valid_context

            def held(*a_, **k_):
                acc.race_go.set()
                t_end = time.time() + 3.0
                while assoc.is_alive() and time.time() < t_end:
                    time.sleep(0.01)
                C("race_window_calls")
                return orig_gvc(*a_, **k_)
            assoc._get_valid_context = held
        if case.get("sched"):
            _inject_delays(assoc, caller, case["sched"])
        caller.start()
        finished = caller.done.wait(WATCHDOG)
        if not finished:
            parked, stack = taps.stable_block(caller, 1.0)
            if caller.done.is_set():
                finished = True
            elif parked:
                ph = caller.phase.split("-")[0] if caller.phase.startswith(("next", "probe")) else caller.phase
                V("%s|%s|hang|%s" % (op, cat, ph), "caller thread parked in phase %s after %.0f s: %r; yields so far %r"
                  % (caller.phase, WATCHDOG, stack, caller.obs))
            else:
                inconclusive = "watchdog fired in phase %s but the caller thread is still moving" % caller.phase
        acc.script_done.wait(0.5)
        obs = list(caller.obs)
        sample.update({"yields": obs[:8], "expected": ref["yields"][:8], "end_ref": ref["end"], "end": caller.end_state,
                       "follow": caller.follow, "lock": caller.lock_probes[:8], "acceptor": {k: v for k, v in acc.log.items() if k != "request"}})

        # ---- the caller saw an exception
        if caller.exc is not None:
            e = caller.exc
            ph = e["phase"].split("-")[0]
            if cat == "wrong-type":
                V("wrong-type|%s|exception-escaped|%s" % (op, e["type"]), "%s in phase %s: %s" % (e["type"], e["phase"], e["tb"][-600:]))
            else:
                V("%s|%s|exception-escaped|%s|%s" % (op, cat, ph, e["type"]), "%s in phase %s: %s" % (e["type"], e["phase"], e["tb"][-600:]))

        # ---- request really reached the acceptor (workload sanity, not an oracle)
        rq = acc.log["request"]
        if rq is None and cat == "peer-abort-racing-the-call":
            if not acc.race_go.is_set() or acc.log["errors"]:
                inconclusive = inconclusive or "the call never reached the race window: %r" % acc.log["errors"]
        elif rq is None:
            inconclusive = inconclusive or "acceptor saw no request: %r" % acc.log["errors"]
        elif rq["cmd"].get("CommandField") != cmdset.COMMAND_FIELD[RQ_KIND[op]]:
            inconclusive = inconclusive or "acceptor saw CommandField %r" % rq["cmd"].get("CommandField")

        # ---- yields vs reference
        if finished and caller.exc is None and rq is not None:
            C("streams_compared")
            C("yields_compared", len(obs))
            C("op_%s" % op)
            C("cat_%s" % cat)
            stolen = [t for (aid, t, valid) in list(REACTOR_GOT) if aid == id(assoc) and not valid]
            for suffix, detail in compare(case, obs, ref["yields"]):
                if stolen and ref["end"] == "established" and suffix in ("missing-yield", "response-skipped", "wrong-value|status-not-empty", "wrong-value|status"):
                    continue        # reported once below as reactor-consumed-response
                if cat == "wrong-type" and suffix in ("wrong-value|status-not-empty", "extra-yield-after-end"):
                    V("wrong-type|%s|accepted-as-response" % op, "a %s was taken as the response of %s; " % (
                        [s_["kind"] for s_ in case["script"] if s_["a"] == "rsp" and s_["kind"] != RSP_KIND[op]][:1], RQ_KIND[op]) + detail)
                elif cat == "wrong-type":
                    V("wrong-type|%s|%s" % (op, suffix), detail + " ; all yields: %r" % obs[:10])
                else:
                    V("%s|%s|%s" % (op, cat, suffix), detail + " ; all yields: %r" % obs[:10])
            # observations the documentation is silent about
            for o, e in zip(obs, ref["yields"]):
                if e["ident"] == "any" and e["status"] != "any":
                    if o["ident"] is None:
                        C({"undecodable-identifier": "undecodable_%s_identifier_none" % ("pending" if op == "find" else "final"),
                           "pending-without-identifier": "pending_without_identifier_none",
                           "lenient-garbage-identifier": "lenient_garbage_identifier_none"}.get(cat, "undocumented_identifier_none"))
                    else:
                        C("undocumented_identifier_dataset")
                if e["status"] == "any":
                    C("n_undecodable_reply_status_%s" % (hex(o["status"].get("Status")) if o["status"].get("Status") is not None else "empty"))
            # sub-operations
            if ref["handler_uids"]:
                C("subop_requests_served", len(store_calls))
                if store_calls != ref["handler_uids"]:
                    V("%s|%s|suboperation-handler-calls-differ" % (op, cat), "EVT_C_STORE handler calls %r, sub-operation requests %r"
                      % (store_calls, ref["handler_uids"]))
                for r in acc.log["subop_rsp"]:
                    if r.get("missing") or r.get("cf") != 0x8001 or r.get("status") != 0 or r.get("mid") != r.get("want_mid"):
                        V("%s|%s|suboperation-response-wrong" % (op, cat), "acceptor got %r for its C-STORE-RQ" % r)
            # ---- lock probes
            C("lock_probes", len(caller.lock_probes))
            held = [i for i, ok in caller.lock_probes if not ok]
            if held:
                V("%s|lock-held-while-suspended|%s" % (op, cat), "ae._lock.acquire(blocking=False) failed after yields %r (yields %r)" % (held, obs[:6]))
            for s in caller.second:
                if s.get("finished") and s.get("established") and s.get("echo") == 0:
                    C("second_assoc_probes_ok")
                elif s.get("alive_after_budget"):
                    V("%s|second-association-blocked-while-suspended|%s" % (op, cat), "a second association of the same AE could not "
                      "associate + C-ECHO while the iterator was suspended after yield #%d: %r" % (s["idx"], s))
                else:
                    # the acceptor side or load may be the reason: observation
                    C("second_assoc_probe_inconclusive")
            # ---- end state / follow-up
            es, fo = caller.end_state, caller.follow
            end = ref["end"]
            if stolen:
                C("reactor_consumed_messages", len(stolen))
            if end == "timeout-aborted":
                if not es.get("aborted_after_op"):
                    V("%s|%s|not-aborted-after-dimse-timeout" % (op, cat if cat == "release-rq-then-silence" else "silence"), "is_aborted False after the DIMSE timeout; %r" % es)
                else:
                    C("silence_aborted")
                harness.wait_for(lambda: acc.log["saw_abort"] or acc.log["saw_eof"], 2.0)
                if not acc.log["saw_abort"]:
                    C("silence_no_abort_pdu_seen")
            elif end == "peer-aborted":
                if not es.get("aborted_eventually"):
                    V("%s|peer-abort|is_aborted-not-set" % op, "peer sent A-ABORT, is_aborted still False 3 s after the call returned; %r" % es)
                else:
                    C("peer_abort_seen")
            if end in ("timeout-aborted", "peer-aborted", "peer-closed") and es.get("thread_ended") is False:
                V("%s|%s|association-thread-alive" % (op, cat), "association thread still alive 3 s after the association ended; %r" % es)
            if end in ("peer-closed", "ended-undocumented"):
                C("undocumented_end_aborted_%s" % bool(es.get("aborted_end")))
            if end == "established":
                if stolen:
                    V("reactor-consumed-response|%s" % ("delays-injected" if case.get("sched") else "natural"),
                      "a response of a stream without extra messages was taken off the DIMSE queue by the association reactor "
                      "instead of the calling send_* method: %r; yields %r, follow-up %r, delays injected: %r" % (stolen, obs[:6], fo, case.get("sched")))
                elif not es.get("established_after_op"):
                    V("%s|%s|association-lost-after-valid-stream" % (op, cat), "is_established False right after a valid stream; %r" % es)
                elif case["followup"] == "echo_release":
                    if fo.get("echo") != 0:
                        V("followup|echo-failed|after-%s" % op, "C-ECHO after the operation returned %r; %r %r" % (fo.get("echo"), fo, es))
                    elif not fo.get("released"):
                        V("followup|release-failed|after-%s" % op, "release() after the operation: is_released False; %r %r" % (fo, es))
                    else:
                        C("followup_echo_release_ok")
                else:
                    harness.wait_for(lambda: acc.log["peer_release_rp"] is not None, 4.0)
                    if not fo.get("peer_released") or not acc.log["peer_release_rp"]:
                        V("followup|peer-release-unanswered|after-%s|%s" % (op, case["mode"]), "peer A-RELEASE-RQ after the operation: is_released=%r, "
                          "A-RELEASE-RP seen by peer=%r (%r)" % (fo.get("peer_released"), acc.log["peer_release_rp"], acc.log.get("peer_release_got")))
                    else:
                        C("followup_peer_release_ok")
                if es.get("thread_ended") is False:
                    V("followup|association-thread-alive|after-%s" % op, "association thread alive 3 s after release; %r" % es)
            elif end == "established-extras":
                C("extras_followup_echo_%s" % fo.get("echo"))
                C("extras_followup_released_%s" % fo.get("released"))
        # ---- exceptions that escaped in any pynetdicom thread
        for e in taps.State.excs:
            if not e["where"] and e["thread"] != "unraisable":
                C("harness_thread_exceptions")      # no pynetdicom frame: a thread of this harness, not an observation
                continue
            V("%s|%s|thread-exception|%s|%s" % (op, cat, e["type"], e["where"]), "%r" % e)
    finally:
        acc.close()
        if not harness.stop_ae(ae, 4.0):
            counters["stop_ae_timeout"] = counters.get("stop_ae_timeout", 0) + 1
    return {"key": _sig(case), "nontrivial": bool(counters.get("streams_compared")), "sample": sample,
            "violations": viol, "counters": counters, "inconclusive": inconclusive}


def extra_evidence(tier, results):
    ops, cats, keys = set(), set(), set()
    for r in results.values():
        s = r.get("sample") or {}
        if r.get("nontrivial"):
            ops.add(s.get("op"))
            cats.add(s.get("cat"))
            keys.add(r.get("key"))
    return {"operations_reached": sorted(x for x in ops if x), "categories_reached": sorted(x for x in cats if x),
            "distinct_nontrivial": len(keys)}
