"""C13 — associations are established only when the acceptance policy allows them.

Workload: a REAL pynetdicom acceptor AE (one per case = one policy configuration: own `ae_title`,
`require_calling_aet`, `require_called_aet`, EVT_USER_ID handler bound or not; every EVT_C_*/EVT_N_* intervention
handler bound to a recorder).  A scripted raw peer (vlib.peer / vlib.ps38) sends A-ASSOCIATE-RQs whose 16 called /
calling AE-title bytes are chosen directly (left/right/both-side padding, case variants, inner-space variants,
prefixes/extensions, all permitted characters, a few non-conformant titles) with or without a User Identity sub-item
(types 1-5, positive-response flag); the EVT_USER_ID handler plays a per-request verdict (positive, False, falsy-not-
False, truthy-not-True, raises, malformed return).  Whatever the answer (AC / RJ / ABORT / nothing), the peer then
sends a C-ECHO-RQ on context 1, waits briefly and closes.

Oracle (independent reference policy `ref_policy`, written from the property text and the pynetdicom documentation of
AE.require_calling_aet / AE.require_called_aet / EVT_USER_ID; never imports pynetdicom):
  established  iff  (required list empty or calling.strip(' ') in {t.strip(' ') for t in required})
               and  (not require_called or called.strip(' ') == own_title.strip(' '))
               and  (no identity item, or no handler bound [documented: accepted], or the handler returned a positive
                     verdict without raising)
  otherwise an A-ASSOCIATE-RJ whose (result, source, reason) is the documented triple of ONE of the failing checks
  (calling (1,1,3); called (1,1,7); identity: result 1|2, source 2 = ACSE provider, reason 1 = no reason given) -
  precedence between simultaneously failing checks is NOT asserted; and on every non-established connection ZERO
  EVT_C_*/EVT_N_* invocations and no DIMSE response although the peer sent a C-ECHO-RQ.  On established connections
  the C-ECHO handler must run (control, else inconclusive).  EVT_ACCEPTED/EVT_ESTABLISHED vs EVT_REJECTED must be
  consistent with what went on the wire; no exception may escape a thread; the association threads must end.
Three-valued: truthy-but-not-True verdicts (documented type is bool) are not asserted either way; for
non-conformant titles only "never established against the policy" + "no handler" is asserted.
Every violating request is executed a second time; only mechanisms that reproduce are reported.

Violation keys (mechanism, never input):
  established-against-policy|<check>[|<how the title relates: case-differs, inner-space-differs, substring, unrelated>]
      <check> = calling-aet | called-aet | identity-verdict-false | identity-verdict-falsy |
                identity-handler-raises|<ExceptionClass> | identity-malformed-return   (one violation per failing check)
  established-against-policy|nonconformant-title|<relation>|<check>   the title that wrongly matched is not a legal AE title
      (directed family: a configured title plus ONE control character that str.strip() removes: \\t \\n \\r \\x0b \\x0c \\x1c-\\x1f)
  rejected-against-policy|<what the answer claims: calling-aet, called-aet, identity, other-codes, abort, closed, no-response>
  wrong-rj-codes|<check or 'multiple'>      no-rj|<check or 'multiple'>|<abort, closed, no-response>
  handler-invoked-on-rejected-association|<EVT>      dimse-response-on-rejected-association
  events-inconsistent|...      escaped-exception|...      threads-not-ended|<answer>      identity-handler-invocations
"""
import threading
import time

from vlib import cmdset, harness, peer as vpeer, ps38, taps
from vlib.common import rng_for, sha

PID = "C13"
LEVEL = "exploration"
RULE = ("policy configurations (own title incl. padded/inner-space/mixed-case titles; require_calling_aet empty or 1-3 "
        "titles incl. padded, inner-space, mixed-case ones; require_called_aet on/off; EVT_USER_ID bound/unbound) x "
        "requests (16-byte called/calling titles: exact, left/both-side padded, case variant, inner-space variant, "
        "prefix/extension, unrelated, all permitted characters, non-conformant; identity none / types 1-5 x "
        "response-requested; handler verdict positive/False/falsy/truthy/raises/malformed); distinct = hash of "
        "(configuration, request); non-trivial = at least one policy check is active for the request")
ASSUMPTIONS = ["sequential requests on loopback; one acceptor association at a time (maximum_associations never reached)",
               "the rest of the A-ASSOCIATE-RQ is conformant (protocol version 1, DICOM application context, one "
               "Verification context) so that only the three policy checks can decide",
               "EVT_USER_ID verdicts that are truthy but not True (1, 'yes') are outside the documented bool contract: "
               "either outcome is accepted",
               "for non-conformant AE titles (control characters, backslash, non-ASCII, all spaces) only 'not established "
               "against the policy' and 'no DIMSE handler' are asserted (A-ABORT is an acceptable answer)"]
WORKERS = {"quick": 16, "thorough": 16}
MAX_INCONCLUSIVE_FRAC = 0.05
REQUIRE = {"requests": 1200, "established": 250, "rejected_rj": 400, "echo_sent_after_non_ac": 400,
           "fail_calling": 100, "fail_called": 100, "fail_identity": 100, "padding_only_match_established": 60,
           "case_variant_rejected": 30, "inner_space_variant_rejected": 15, "identity_falsy_not_false_rejected": 20,
           "identity_raises_rejected": 10, "identity_unbound_accepted": 20, "multi_failing": 40,
           "control_echo_handler_ran": 250, "nonconformant_title_requests": 15,
           "ws_control_title_requests": 5}
ACSE_TIMEOUT = 2.0
TIMEOUTS = (ACSE_TIMEOUT, 3.0, 3.0, 3.0)

# permitted AE-title characters (PS3.5 AE: default repertoire without backslash and control characters)
PERMITTED = "".join(chr(c) for c in range(0x20, 0x7F) if c != 0x5C)
NONSPACE = PERMITTED.replace(" ", "")

DIMSE_EVENTS = ["EVT_C_ECHO", "EVT_C_FIND", "EVT_C_GET", "EVT_C_MOVE", "EVT_C_STORE", "EVT_N_ACTION", "EVT_N_CREATE",
                "EVT_N_DELETE", "EVT_N_EVENT_REPORT", "EVT_N_GET", "EVT_N_SET"]
NOTE_EVENTS = ["EVT_REQUESTED", "EVT_ACCEPTED", "EVT_ESTABLISHED", "EVT_REJECTED", "EVT_ABORTED", "EVT_RELEASED"]

# name -> (class, factory).  classes: positive | false | falsy | truthy | raises | malformed
VERDICTS = {
    "true-none": ("positive", lambda: (True, None)),
    "true-bytes": ("positive", lambda: (True, b"response")),
    "false-none": ("false", lambda: (False, None)),
    "false-bytes": ("false", lambda: (False, b"response")),
    "none-none": ("falsy", lambda: (None, None)),
    "zero-none": ("falsy", lambda: (0, None)),
    "emptystr-none": ("falsy", lambda: ("", None)),
    "emptybytes-bytes": ("falsy", lambda: (b"", b"response")),
    "emptylist-none": ("falsy", lambda: ([], None)),
    "zerofloat-none": ("falsy", lambda: (0.0, None)),
    "one-none": ("truthy", lambda: (1, None)),
    "str-none": ("truthy", lambda: ("yes", None)),
    "raise-ValueError": ("raises", ValueError),
    "raise-RuntimeError": ("raises", RuntimeError),
    "raise-KeyError": ("raises", KeyError),
    "raise-AttributeError": ("raises", AttributeError),
    "raise-NotImplementedError": ("raises", NotImplementedError),
    "ret-None": ("malformed", lambda: None),
    "ret-True": ("malformed", lambda: True),
    "ret-False": ("malformed", lambda: False),
    "ret-1tuple": ("malformed", lambda: (True,)),
    "ret-3tuple": ("malformed", lambda: (True, None, None)),
    "ret-int": ("malformed", lambda: 5),
}
VERDICT_WEIGHTS = [("positive", 40), ("false", 14), ("falsy", 20), ("raises", 14), ("malformed", 6), ("truthy", 6)]


def setup_worker():
    harness.quiet_logging()
    taps.install()


# =================================================================== reference policy (independent of pynetdicom)

def conformant_title(t16):
    return bool(t16.strip(" ")) and all(c in PERMITTED for c in t16)


def relation(value, targets):
    """How a non-matching title relates to the titles it was compared with (names the mechanism of a wrong match)."""
    v = value.strip(" ")
    ts = [t.strip(" ") for t in targets]
    if any(v.strip() == t for t in ts):
        return "whitespace-control-stripped"
    if any(v.lower() == t.lower() for t in ts):
        return "case-differs"
    if any(v.replace(" ", "") == t.replace(" ", "") for t in ts):
        return "inner-space-differs"
    if any(v and t and (v in t or t in v) for t in ts):
        return "substring"
    return "unrelated"


def ref_policy(cfg, req):
    """-> dict(allowed: True|False|None(ambiguous), failing: [check names], strict: bool, rel: {...})"""
    calling = req["calling16"].strip(" ")
    called = req["called16"].strip(" ")
    failing = []
    rel = {}
    required = [t.strip(" ") for t in cfg["require_calling"]]
    if required and calling not in required:
        failing.append("calling-aet")
        rel["calling-aet"] = relation(req["calling16"], required)
    if cfg["require_called"] and called != cfg["title"].strip(" "):
        failing.append("called-aet")
        rel["called-aet"] = relation(req["called16"], [cfg["title"]])
    ambiguous = False
    if req["identity"] is not None and cfg["handler_bound"]:
        vclass = VERDICTS[req["verdict"]][0]
        if vclass == "positive":
            pass
        elif vclass == "truthy":
            ambiguous = True
        elif vclass == "false":
            failing.append("identity-verdict-false")
        elif vclass == "falsy":
            failing.append("identity-verdict-falsy")
        elif vclass == "raises":
            failing.append("identity-handler-raises")
            rel["identity-handler-raises"] = req["verdict"].split("-", 1)[1]
        else:
            failing.append("identity-malformed-return")
    strict = conformant_title(req["calling16"]) and conformant_title(req["called16"])
    allowed = False if failing else (None if ambiguous else True)
    return dict(allowed=allowed, failing=failing, strict=strict, rel=rel, ambiguous=ambiguous)


def rj_matches(check, rj):
    r, s, d = rj
    if check == "calling-aet":
        return (r, s, d) == (1, 1, 3)
    if check == "called-aet":
        return (r, s, d) == (1, 1, 7)
    return r in (1, 2) and s == 2 and d == 1      # identity: rejected by the ACSE service provider, no reason given


def named_check(failing, obs):
    """Name of the failing check for a key; the malformed-return crash is its own mechanism whatever else fails."""
    if len(failing) == 1:
        return failing[0]
    if "identity-malformed-return" in failing and "EVT_USER_ID" in obs["events"] and obs["answer"] == "no-response":
        return "identity-malformed-return"
    return "multiple"


def rj_claims(rj):
    r, s, d = rj
    if (s, d) == (1, 3):
        return "calling-aet"
    if (s, d) == (1, 7):
        return "called-aet"
    if (s, d) == (2, 1):
        return "identity"
    return "other-codes"


# =================================================================== generators

def rand_title(rng, maxlen=16):
    style = rng.choice(["upper", "mixed", "inner", "punct", "any", "any", "one", "full"])
    if style == "upper":
        n = rng.randint(2, min(12, maxlen))
        return "".join(rng.choice("ABCDEFGHIJKLMNOPQRSTUVWXYZ0123456789_-") for _ in range(n))
    if style == "mixed":
        n = rng.randint(2, min(12, maxlen))
        return "".join(rng.choice("abcdefghijklmnopqrstuvwxyzABCDEFGHIJKLMNOPQRSTUVWXYZ") for _ in range(n))
    if style == "one":
        return rng.choice(NONSPACE)
    n = maxlen if style == "full" else rng.randint(3, maxlen)
    if style == "punct":
        body = [rng.choice("ab.c/d:e;f(g)h*i?j'k\"l@m#n$o%p^q&r+s=t~u|v<w>x,y!z[]{}`") for _ in range(n)]
    else:
        body = [rng.choice(PERMITTED) for _ in range(n)]
    if style == "inner" and n >= 3:
        body = [rng.choice("ABCDEFGHIJKLMNOPQRSTUVWXYZ") for _ in range(n)]
        for _ in range(rng.randint(1, 2)):
            body[rng.randint(1, n - 2)] = " "
    if body[0] == " ":
        body[0] = rng.choice(NONSPACE)
    if body[-1] == " ":
        body[-1] = rng.choice(NONSPACE)
    return "".join(body)


def pad16(core, rng, how):
    room = 16 - len(core)
    if how == "right" or room == 0:
        return core.ljust(16)
    if how == "left":
        return core.rjust(16)
    left = rng.randint(1, room) if room > 1 else 1
    if how == "both" and room >= 2:
        left = rng.randint(1, room - 1)
    return (" " * left + core).ljust(16)


def configured_form(core, rng):
    """The string the application configures (may itself carry leading/trailing spaces)."""
    room = 16 - len(core)
    r = rng.random()
    if room and r < 0.25:
        return core + " " * rng.randint(1, min(3, room))
    if room and r < 0.40:
        return " " * rng.randint(1, min(3, room)) + core
    if room >= 2 and r < 0.50:
        return " " + core + " "
    return core


def variant_title(rng, targets, required_active):
    """-> (16-char title, scenario tag) relative to the configured titles `targets` (stripped cores)."""
    if not targets:
        core = rand_title(rng)
        return pad16(core, rng, rng.choice(["right", "right", "left", "both"])), "free"
    t = rng.choice(targets)
    if required_active:
        scen = rng.choices(["exact", "left-pad", "both-pad", "case", "inner-space", "prefix", "extended", "other"],
                           [22, 14, 14, 14, 10, 6, 6, 14])[0]
    else:
        scen = rng.choices(["exact", "left-pad", "case", "other"], [30, 10, 10, 50])[0]
    if scen == "exact":
        return pad16(t, rng, "right"), scen
    if scen in ("left-pad", "both-pad"):
        if len(t) == 16:
            return t, "exact"
        return pad16(t, rng, "left" if scen == "left-pad" else "both"), scen
    if scen == "case":
        for f in (str.swapcase, str.lower, str.upper):
            if f(t) != t:
                return pad16(f(t), rng, rng.choice(["right", "left", "both"])), scen
        scen = "other"
    if scen == "inner-space":
        if " " in t:
            i = t.index(" ")
            v = t[:i] + t[i + 1:] if (rng.random() < 0.5 or len(t) == 16) else t[:i] + " " + t[i:]
            return pad16(v, rng, rng.choice(["right", "both"])), scen
        if 2 <= len(t) < 16:
            i = rng.randint(1, len(t) - 1)
            return pad16(t[:i] + " " + t[i:], rng, "right"), scen
        scen = "other"
    if scen == "prefix" and len(t) > 1 and t[:-1].strip(" ") == t[:-1] and t[:-1] not in targets:
        return pad16(t[:-1], rng, rng.choice(["right", "left"])), scen
    if scen == "extended" and len(t) < 16 and (t + "X") not in targets:
        return pad16(t + "X", rng, "right"), scen
    for _ in range(20):
        core = rand_title(rng)
        if core not in targets:
            return pad16(core, rng, rng.choice(["right", "right", "left", "both"])), "other"
    return pad16("ZZ-UNRELATED", rng, "right"), "other"


def nonconformant_title(rng, targets):
    t = rng.choice(targets) if targets else rand_title(rng, 10)
    t = t[:12]
    kind = rng.choice(["nul-padded", "trailing-newline", "leading-tab", "non-ascii", "all-spaces", "backslash", "inner-control"])
    if kind == "nul-padded":
        return t + "\x00" * (16 - len(t)), kind
    if kind == "trailing-newline":
        return (t + rng.choice("\n\r\x0b\x0c")).ljust(16), kind
    if kind == "leading-tab":
        return ("\t" + t).ljust(16), kind
    if kind == "non-ascii":
        return (t + rng.choice("\xe9\xff\x80")).ljust(16), kind
    if kind == "all-spaces":
        return " " * 16, kind
    if kind == "backslash":
        return (t[:1] + "\\" + t[1:]).ljust(16), kind
    return (t[:1] + "\x01" + t[1:]).ljust(16), kind


def gen_config(rng):
    title_core = rng.choice(["VERIF-SCP", "My Scp 1", "x", "PACS", "Store.SCP/2", "A B  C", "SIXTEEN-CHARS-16",
                             rand_title(rng), rand_title(rng, 12)])
    title = configured_form(title_core, rng)
    r = rng.random()
    if r < 0.22:
        required = []
    else:
        n = rng.choice([1, 1, 2, 2, 3])
        cores = []
        while len(cores) < n:
            c = rng.choice(["PEER", "peer", "Echo Scu", "MODALITY 1", "ct-room-2", "STORESCU", rand_title(rng), rand_title(rng, 10)])
            if c not in cores:
                cores.append(c)
        required = [configured_form(c, rng) for c in cores]
    cfg = {"title": title, "require_calling": required, "require_called": rng.random() < 0.5,
           "handler_bound": rng.random() < 0.72}
    # how the policy got to its final value (separate stream: the other fields keep their values)
    import random as _r
    h = _r.Random(sha([title, required]))
    cfg["cfg_history"] = h.choice(["direct", "direct", "self-assign", "get-extend-assign", "failed-assign-type", "failed-assign-value",
                                   "assign-twice"])
    return cfg


def gen_identity(rng):
    if rng.random() < 0.35:
        return None
    utype = rng.randint(1, 5)
    prim = bytes(rng.choice(b"abcdefghijklmnopqrstuvwxyz0123456789") for _ in range(rng.randint(1, 12)))
    if utype >= 3:
        prim = bytes(rng.randrange(256) for _ in range(rng.randint(1, 40)))
    sec = bytes(rng.choice(b"pqrstuvw0123") for _ in range(rng.randint(1, 10))) if utype == 2 else b""
    return {"utype": utype, "resp": rng.randint(0, 1), "prim": prim.hex(), "sec": sec.hex()}


def ws_control_title(rng, targets):
    """A configured title with ONE control character that Python's str.strip() treats as white space at either end
    (the title then differs from the configured one by more than space padding; None if there is no room)."""
    fit = [t for t in targets if len(t) < 16]
    if not fit:
        return None
    t = rng.choice(fit)
    c = rng.choice("\t\n\r\x0b\x0c\x1c\x1f")
    return (t + c if rng.random() < 0.6 else c + t).ljust(16)


def gen_request(rng, cfg, allow_nonconformant, ws_control=False):
    required = [t.strip(" ") for t in cfg["require_calling"]]
    own = [cfg["title"].strip(" ")]
    calling16, ctag = variant_title(rng, required, True)
    called16, dtag = variant_title(rng, own, cfg["require_called"])
    if ws_control:
        # directed family: everything else matches, only the control character decides
        calling16, ctag = (pad16(rng.choice(required), rng, "right"), "exact") if required else (calling16, ctag)
        called16, dtag = pad16(own[0], rng, "right"), "exact"
        if required and (rng.random() < 0.6 or not cfg["require_called"]):
            w = ws_control_title(rng, required)
            if w:
                calling16, ctag = w, "nonconformant:ws-control"
        elif cfg["require_called"]:
            w = ws_control_title(rng, own)
            if w:
                called16, dtag = w, "nonconformant:ws-control"
    elif allow_nonconformant and rng.random() < 0.5:
        calling16, k = nonconformant_title(rng, required)
        ctag = "nonconformant:" + k
    elif allow_nonconformant:
        called16, k = nonconformant_title(rng, own)
        dtag = "nonconformant:" + k
    identity = gen_identity(rng) if not (ws_control and rng.random() < 0.7) else None
    verdict = None
    if identity is not None:
        vclass = rng.choices([c for c, _ in VERDICT_WEIGHTS], [w for _, w in VERDICT_WEIGHTS])[0]
        verdict = rng.choice(sorted(n for n, (c, _) in VERDICTS.items() if c == vclass))
    return {"calling16": calling16, "called16": called16, "identity": identity, "verdict": verdict,
            "tag": {"calling": ctag, "called": dtag}}


def gen_cases(tier, seed):
    ncases, per = (128, 12) if tier == "quick" else (2400, 16)
    cases = []
    for b in range(ncases):
        rng = rng_for(seed, PID, tier, "case", b)
        cfg = gen_config(rng)
        reqs = []
        for i in range(per):
            # about 1.5 % non-conformant titles (each costs one ACSE timeout on the acceptor side)
            r = rng.random()
            reqs.append(gen_request(rng, cfg, allow_nonconformant=(r < 0.016), ws_control=(0.016 <= r < 0.034)))
        cases.append({"config": cfg, "requests": reqs})
    return cases


# =================================================================== acceptor under observation

class Recorder:
    def __init__(self):
        self.lock = threading.Lock()
        self.log = []            # (name, assoc id)
        self.verdict = None      # name in VERDICTS, set per request
        self.identity_seen = []

    def reset(self, verdict):
        with self.lock:
            self.log = []
            self.identity_seen = []
            self.verdict = verdict

    def count(self, name):
        with self.lock:
            return sum(1 for n, _ in self.log if n == name)

    def names(self):
        with self.lock:
            return [n for n, _ in self.log]


def make_server(cfg, rec):
    from pynetdicom import evt
    ae = harness.make_ae(cfg["title"], timeouts=TIMEOUTS, supported=[ps38.VERIFICATION])
    want = list(cfg["require_calling"])
    hist = cfg.get("cfg_history", "direct")
    if hist == "get-extend-assign" and len(want) >= 2:
        ae.require_calling_aet = want[:-1]
        lst = ae.require_calling_aet          # the application reads the list, extends it and assigns it back
        lst = lst if isinstance(lst, list) else list(lst)
        lst.append(want[-1])
        ae.require_calling_aet = lst
    elif hist == "assign-twice":
        ae.require_calling_aet = ["SOMEONE-ELSE"]
        ae.require_calling_aet = want
    else:
        ae.require_calling_aet = want
    if hist == "self-assign":
        ae.require_calling_aet = ae.require_calling_aet
    elif hist in ("failed-assign-type", "failed-assign-value"):
        bad = [12345] if hist == "failed-assign-type" else ["SEVENTEEN-CHARS-17"]
        try:
            ae.require_calling_aet = bad        # refused by the setter: the policy in force must not change
            rec.log.append(("CFG-BAD-ASSIGN-ACCEPTED", 0))
        except (TypeError, ValueError):
            pass
    ae.require_called_aet = bool(cfg["require_called"])
    ae.require_called_aet = ae.require_called_aet

    def dimse_handler(name):
        def h(event):
            with rec.lock:
                rec.log.append((name, id(event.assoc)))
            if name == "EVT_C_ECHO":
                return 0x0000
            raise RuntimeError("unexpected DIMSE request in the C13 workload")
        return h

    def note_handler(name):
        def h(event):
            with rec.lock:
                rec.log.append((name, id(event.assoc)))
        return h

    def on_user_id(event):
        with rec.lock:
            rec.log.append(("EVT_USER_ID", id(event.assoc)))
            rec.identity_seen.append((event.user_id_type, bytes(event.primary_field or b"").hex()))
            name = rec.verdict
        vclass, factory = VERDICTS[name]
        if vclass == "raises":
            raise factory("verdict plan: handler raises")
        return factory()

    handlers = [(getattr(evt, n), dimse_handler(n)) for n in DIMSE_EVENTS]
    handlers += [(getattr(evt, n), note_handler(n)) for n in NOTE_EVENTS]
    if cfg["handler_bound"]:
        handlers.append((evt.EVT_USER_ID, on_user_id))
    server, port = harness.start_server(ae, handlers)
    return ae, port


def build_rq(req):
    ui = []
    if req["identity"] is not None:
        i = req["identity"]
        ui.append({"k": "uid_rq", "utype": i["utype"], "resp": i["resp"], "prim": i["prim"], "sec": i["sec"]})
    return ps38.make_rq(called=req["called16"].encode("latin-1"), calling=req["calling16"].encode("latin-1"),
                        extra_ui=ui, impl_ver="C13PEER")


def acceptor_assoc():
    a = [x for x in list(taps.State.assocs) if x.is_acceptor]
    return a[0] if a else None


def run_request(cfg, req, port, rec):
    """One connection.  Returns the observation dict (no verdicts)."""
    taps.reset()
    rec.reset(req["verdict"])
    obs = {"answer": None, "rj": None, "echo_sent": False, "dimse_rsp": None, "release": None, "after": []}
    rq_bytes = ps38.encode(build_rq(req))
    p = vpeer.Peer.connect(port)
    try:
        p.send_raw(rq_bytes)
        # wait for AC / RJ / ABORT / EOF; "no response" is decided on a logical event: the acceptor's association
        # thread ended without anything having been sent (wall clock only as a generous watchdog)
        rsp = None
        t_end = time.time() + ACSE_TIMEOUT + 6.0
        dead_polls = 0
        while time.time() < t_end:
            rsp = p.recv_pdu(0.05)
            if rsp is not None:
                break
            a = acceptor_assoc()
            if a is not None and a.ident is not None and not a.is_alive():
                dead_polls += 1
                if dead_polls >= 3:      # thread is gone and three more polls brought nothing
                    break
        if rsp is None:
            a = acceptor_assoc()
            obs["answer"] = "no-response" if (a is not None and a.ident is not None and not a.is_alive()) else "timeout"
        else:
            obs["answer"] = rsp["type"]
            if rsp["type"] == "RJ":
                obs["rj"] = [rsp["result"], rsp["source"], rsp["reason"]]
            if rsp["type"] == "AC":
                obs["ac_contexts"] = [[pc["id"], pc["result"]] for pc in rsp["pcs"]]
                obs["ac_identity_response"] = any(si["k"] == "uid_ac" for si in (rsp.get("ui") or []))
        # the peer goes on with a C-ECHO-RQ whatever the answer was
        echo_pdus = b"".join(ps38.encode(v) for v in p.dimse_pdus(1, cmdset.c_echo_rq(7)))
        try:
            p.send_raw(echo_pdus)
            obs["echo_sent"] = True
        except OSError:
            obs["echo_sent"] = False
        if obs["answer"] == "AC":
            r = p.recv_dimse(4.0)
            if r is not None and r.get("type") == "DIMSE":
                obs["dimse_rsp"] = {"field": r["cmd"].get("CommandField"), "status": r["cmd"].get("Status")}
                rel = p.release(4.0)
                obs["release"] = (rel or {}).get("type")
            else:
                obs["after"].append((r or {}).get("type", "timeout"))
        else:
            # pynetdicom closes the transport as soon as it has nothing more to read after an RJ/ABORT, so EOF (or a
            # PDU) normally arrives within milliseconds; an acceptor that stays silent costs the 0.3 s watchdog
            t2 = time.time() + 1.0
            while time.time() < t2:
                r = p.recv_pdu(0.3)
                if r is None:
                    break
                obs["after"].append(r["type"])
                if r["type"] == "PDATA":
                    obs["dimse_rsp"] = {"pdata": True}
                if r["type"] == "EOF":
                    break
    finally:
        p.close()
    quiet, waited = taps.wait_quiet(ACSE_TIMEOUT + 5.0)
    obs["quiet"] = quiet
    obs["events"] = rec.names()
    obs["identity_seen"] = list(rec.identity_seen)
    obs["excs"] = [dict(type=e["type"], where=e["where"], text=e["text"][:120], thread=e["thread"]) for e in list(taps.State.excs)]
    obs["fsm_problems"] = len(taps.State.fsm_problems)
    obs["n_assocs"] = len([a for a in taps.State.assocs if a.is_acceptor])
    if not quiet:
        stuck = []
        for (a, al, dl, st) in taps.assoc_threads():
            for th in ([a] if al else []) + ([a.dul] if dl else []):
                parked, stack = taps.stable_block(th, gap=1.0)
                stuck.append({"thread": th.name, "parked": parked, "state": st, "stack": stack[-3:]})
        obs["stuck"] = stuck
    return obs


# =================================================================== verdicts

def judge(cfg, req, obs, ref):
    """-> (violations, inconclusive_reason|None)"""
    viol = []
    inc = None
    failing = ref["failing"]
    ans = obs["answer"]
    nc = "" if ref["strict"] else "nonconformant-title|"

    def v(key, detail):
        viol.append({"key": key, "detail": "%s :: cfg=%r req=%r answer=%s rj=%s events=%s" % (
            detail, cfg, {k: req[k] for k in ("calling16", "called16", "identity", "verdict")}, ans, obs["rj"], obs["events"])})

    dimse_calls = [n for n in obs["events"] if n in DIMSE_EVENTS]
    if ans == "timeout":
        return viol, "no answer within the watchdog while the association thread was still alive"

    if ans == "AC":
        # one violation per failing check (each of them should have prevented the AC), keyed by the check's own mechanism
        for c in failing:
            sub = ref["rel"].get(c)
            title = {"calling-aet": req["calling16"], "called-aet": req["called16"]}.get(c)
            if title is not None and not conformant_title(title):
                key = "established-against-policy|nonconformant-title|%s|%s" % (sub, c)
            else:
                key = "established-against-policy|%s%s" % (c, ("|" + sub) if sub else "")
            v(key, "A-ASSOCIATE-AC although the %s check fails (all failing checks: %s)" % (c, failing))
        # control: the C-ECHO handler must have run and answered
        if dimse_calls != ["EVT_C_ECHO"] or not obs["dimse_rsp"] or obs["dimse_rsp"].get("status") != 0:
            inc = "control failed: established but C-ECHO not served (%s, %s)" % (dimse_calls, obs["dimse_rsp"])
        ev = obs["events"]
        if ev.count("EVT_ACCEPTED") != 1 or ev.count("EVT_ESTABLISHED") != 1 or "EVT_REJECTED" in ev:
            v("events-inconsistent|established", "A-ASSOCIATE-AC sent but EVT_ACCEPTED/EVT_ESTABLISHED/EVT_REJECTED = %d/%d/%d" % (
                ev.count("EVT_ACCEPTED"), ev.count("EVT_ESTABLISHED"), ev.count("EVT_REJECTED")))
    else:
        # ---- not established
        if ref["allowed"] is True and ref["strict"]:
            claim = rj_claims(obs["rj"]) if ans == "RJ" else {"ABORT": "abort", "EOF": "closed", "no-response": "no-response"}.get(ans, ans)
            v("rejected-against-policy|%s" % claim, "the policy allows the association but the answer was %s" % ans)
        if failing and ref["strict"]:
            if ans == "RJ":
                if not any(rj_matches(c, obs["rj"]) for c in failing):
                    v("wrong-rj-codes|%s" % (failing[0] if len(failing) == 1 else "multiple"),
                      "A-ASSOCIATE-RJ %s is not the documented triple of any failing check %s" % (obs["rj"], failing))
            else:
                v("no-rj|%s|%s" % (named_check(failing, obs), {"ABORT": "abort", "EOF": "closed"}.get(ans, ans)),
                  "a failing policy check must be answered with A-ASSOCIATE-RJ, got %s" % ans)
        if ref["ambiguous"] and not failing and ref["strict"] and ans == "RJ" and not rj_matches("identity", obs["rj"]):
            v("wrong-rj-codes|identity-verdict-truthy", "rejection of a truthy-not-True verdict must use the identity codes")
        if ref["ambiguous"] and not failing and ref["strict"] and ans != "RJ":
            v("no-rj|identity-verdict-truthy|%s" % {"ABORT": "abort", "EOF": "closed"}.get(ans, ans), "neither AC nor RJ")
        if dimse_calls:
            v("handler-invoked-on-rejected-association|%s" % dimse_calls[0],
              "DIMSE handler(s) %s ran on a connection that was never established" % dimse_calls)
        if obs["dimse_rsp"]:
            v("dimse-response-on-rejected-association", "the acceptor answered the C-ECHO-RQ with P-DATA on a non-established connection")
        ev = obs["events"]
        if "EVT_ACCEPTED" in ev or "EVT_ESTABLISHED" in ev:
            v("events-inconsistent|not-established", "EVT_ACCEPTED/EVT_ESTABLISHED fired although no A-ASSOCIATE-AC was sent")
        if ans == "RJ" and ev.count("EVT_REJECTED") != 1:
            v("events-inconsistent|rejected", "A-ASSOCIATE-RJ sent but EVT_REJECTED fired %d times" % ev.count("EVT_REJECTED"))
        if ans != "RJ" and "EVT_REJECTED" in ev:
            v("events-inconsistent|no-rj-but-rejected-event", "EVT_REJECTED fired although no A-ASSOCIATE-RJ reached the peer")

    # identity handler: at most one invocation, only when an identity item was sent
    n_uid = obs["events"].count("EVT_USER_ID")
    if n_uid > 1 or (n_uid and req["identity"] is None):
        v("identity-handler-invocations", "EVT_USER_ID handler ran %d times (identity item sent: %s)" % (n_uid, req["identity"] is not None))

    for e in obs["excs"]:
        if "identity-malformed-return" in failing and "EVT_USER_ID" in obs["events"] and "_check_user_identity" in e["where"]:
            v("escaped-exception|identity-malformed-return|%s" % e["where"], "exception escaped a thread: %s" % e)
        else:
            v("escaped-exception|%s%s|%s" % (nc, e["where"] or e["thread"], e["type"]), "exception escaped a thread: %s" % e)
    if not obs["quiet"]:
        stuck = obs.get("stuck") or []
        if stuck and all(s["parked"] for s in stuck):
            v("threads-not-ended|%s" % ans, "association threads still parked after the peer closed: %s" % stuck)
        else:
            inc = inc or "threads still running at the watchdog but not parked: %s" % stuck
    return viol, inc


def count(counters, name, n=1):
    counters[name] = counters.get(name, 0) + n


def tally(counters, cfg, req, obs, ref):
    ans = obs["answer"]
    count(counters, "requests")
    count(counters, "answer_" + str(ans))
    if ans == "AC":
        count(counters, "established")
        if obs["events"].count("EVT_C_ECHO") == 1 and obs["dimse_rsp"]:
            count(counters, "control_echo_handler_ran")
        if obs.get("ac_identity_response"):
            count(counters, "ac_with_identity_response")
    else:
        if obs["echo_sent"]:
            count(counters, "echo_sent_after_non_ac")
        count(counters, "dimse_handler_calls_on_non_established", len([n for n in obs["events"] if n in DIMSE_EVENTS]))
    if ans == "RJ":
        count(counters, "rejected_rj")
        count(counters, "rj_%d_%d_%d" % tuple(obs["rj"]))
    if not ref["strict"]:
        count(counters, "nonconformant_title_requests")
        if "nonconformant:ws-control" in (req["tag"]["calling"], req["tag"]["called"]):
            count(counters, "ws_control_title_requests")
    failing = ref["failing"]
    if len(failing) > 1:
        count(counters, "multi_failing")
    for c in failing:
        count(counters, "fail_" + ("identity" if c.startswith("identity") else c.split("-")[0]))
        count(counters, "fail_" + c)
    tag = req["tag"]
    if ref["strict"] and ans == "AC":
        if cfg["require_calling"] and tag["calling"] in ("left-pad", "both-pad"):
            count(counters, "padding_only_match_established")
        if cfg["require_called"] and tag["called"] in ("left-pad", "both-pad"):
            count(counters, "padding_only_match_established")
        if cfg["require_calling"] and any(t != t.strip(" ") for t in cfg["require_calling"]):
            count(counters, "established_with_padded_required_list")
        if cfg["require_called"] and cfg["title"] != cfg["title"].strip(" "):
            count(counters, "established_with_padded_own_title")
    if ans == "RJ":
        for c in failing:
            r = ref["rel"].get(c)
            if r == "case-differs":
                count(counters, "case_variant_rejected")
            if r == "inner-space-differs":
                count(counters, "inner_space_variant_rejected")
            if r == "substring":
                count(counters, "substring_variant_rejected")
        if failing == ["identity-verdict-falsy"]:
            count(counters, "identity_falsy_not_false_rejected")
        if failing == ["identity-handler-raises"]:
            count(counters, "identity_raises_rejected")
        if failing == ["identity-verdict-false"]:
            count(counters, "identity_false_rejected")
    if req["identity"] is not None:
        count(counters, "identity_type_%d" % req["identity"]["utype"])
        if not cfg["handler_bound"]:
            count(counters, "identity_unbound")
            if ans == "AC":
                count(counters, "identity_unbound_accepted")
        else:
            count(counters, "verdict_" + VERDICTS[req["verdict"]][0])
    if ref["ambiguous"]:
        count(counters, "ambiguous_truthy_verdict_" + ("accepted" if ans == "AC" else "not_accepted"))
    count(counters, "fsm_problems_seen", obs["fsm_problems"])


def nontrivial(cfg, req):
    return bool(cfg["require_calling"] or cfg["require_called"] or (req["identity"] is not None and cfg["handler_bound"]))


def run_case(case):
    cfg = case["config"]
    rec = Recorder()
    counters = {}
    violations = []
    inconclusive = None
    samples = []
    sigs = []
    ae = None
    try:
        try:
            ae, port = make_server(cfg, rec)
        except (ValueError, TypeError) as exc:
            # the public API refused the configuration: skip, count
            return {"key": sha(case), "nontrivial": False, "violations": [], "counters": {"config_rejected_by_api": 1},
                    "sample": {"config": cfg, "error": repr(exc)}, "inconclusive": None}
        for req in case["requests"]:
            ref = ref_policy(cfg, req)
            obs = run_request(cfg, req, port, rec)
            viol, inc = judge(cfg, req, obs, ref)
            if not obs["quiet"]:
                harness.stop_ae(ae, timeout=3.0)
                ae, port = make_server(cfg, rec)
            if viol:
                # confirm by re-execution: only mechanisms that reproduce are reported
                obs2 = run_request(cfg, req, port, rec)
                viol2, inc2 = judge(cfg, req, obs2, ref)
                if not obs2["quiet"]:
                    harness.stop_ae(ae, timeout=3.0)
                    ae, port = make_server(cfg, rec)
                keys2 = {x["key"] for x in viol2}
                confirmed = [x for x in viol if x["key"] in keys2]
                if len(confirmed) < len(viol):
                    count(counters, "violations_not_reproduced", len(viol) - len(confirmed))
                    inc = inc or "violation(s) not reproduced on re-execution: %s" % sorted({x["key"] for x in viol} - keys2)
                viol = confirmed
                count(counters, "reexecuted_requests")
            tally(counters, cfg, req, obs, ref)
            if nontrivial(cfg, req):
                sigs.append(sha([cfg, req["calling16"], req["called16"], req["identity"], req["verdict"]]))
            have = {x["key"] for x in violations}
            for x in viol:
                if x["key"] not in have:
                    violations.append(x)
                    have.add(x["key"])
            if inc and not inconclusive:
                inconclusive = inc
            if inc:
                count(counters, "inconclusive_requests")
            if len(samples) < 3:
                samples.append({"calling16": req["calling16"], "called16": req["called16"], "identity": req["identity"],
                                "verdict": req["verdict"], "reference": {"allowed": ref["allowed"], "failing": ref["failing"]},
                                "answer": obs["answer"], "rj": obs["rj"], "events": obs["events"]})
    finally:
        if ae is not None:
            harness.stop_ae(ae, timeout=5.0)
    return {"key": sha(case), "nontrivial": bool(sigs), "violations": violations, "counters": counters,
            "sample": {"config": cfg, "requests": samples}, "inconclusive": inconclusive, "_sigs": sigs}


def extra_evidence(tier, results):
    sigs = set()
    for r in results.values():
        sigs.update(r.get("_sigs") or [])
    return {"distinct_nontrivial": len(sigs),
            "distinct_rule_detail": "distinct (configuration, calling bytes, called bytes, identity item, handler verdict) tuples "
                                    "with at least one active policy check"}
