"""C28 — every status code has one category and all status tables agree with it; finality follows the category.

Four monitors, all observing the REAL pynetdicom code:

 (1) categories  EXHAUSTIVE over all 65 536 codes: `pynetdicom.status.code_to_category(code)` returns exactly one of
                 the six category strings, the same one on a second call, and the one an independent reference
                 categoriser (written from PS3.7 Annex C / PS3.4 status ranges, no pynetdicom import) returns.
 (2) tables      every module-level dict of `pynetdicom.status` that maps int -> (category, description) is
                 discovered by introspection (>= 17 required); EVERY entry must carry the category that
                 `code_to_category(code)` returns and that the reference returns.
 (3a) scu        a real pynetdicom requestor calls `send_c_find` / `send_c_get` / `send_c_move`; the scripted
                 acceptor (vlib.peer, reference codecs only) answers with the stream [status X, then Success].
                 The response iterator must continue past X iff category(X) == Pending.  Documented exception, not
                 asserted: 0xB001 on a Repository Query context (association.py `_wrap_find_responses`, "PS3.4 Annex
                 C.6.4.4 - 0xB001 conveys end of Pending responses": the SCU yields it and keeps waiting).
 (3b) scp        a real pynetdicom acceptor with EVT_C_FIND / EVT_C_GET / EVT_C_MOVE handlers that yield (X, data)
                 and then two further Pending results, bound on a context of each service class that has such an
                 SCP, driven by the scripted peer.  Every probe is fenced with a C-ECHO (the SCP serves requests
                 sequentially, so everything received before the C-ECHO-RSP is the complete response log of the
                 probe - verdicts never depend on timing).  Expected: X Pending for that service (PS3.4) => the X
                 response is non-final (C-FIND: carries the yielded Identifier), the handler generator is resumed and a
                 final response follows; otherwise => exactly one response, and the generator is never resumed.
                 Not asserted: 0xB001 on Repository Query (same documented exception); 0xFF01 where the service
                 defines only 0xFF00 (C-GET, C-MOVE, Relevant Patient: general category Pending but not a status
                 of the service); handler resumption for Relevant Patient Pending (at most one match by definition).

Violation keys (mechanism, never the code):
  not-a-category|<range-class> / nondeterministic|<range-class> / category-differs-from-reference|<range-class>|<real>-vs-<ref>
  table-disagrees|<TABLE>|<table-cat>-vs-<function-cat> / table-differs-from-reference|<TABLE>|<table-cat>-vs-<ref-cat>
  table-malformed|<TABLE>|<what>
  scu-finality|<service>|<ref-category>|<what>
  scp-finality|<c-find|c-get|c-move>|<ref-category>|<what>|<service-class>
"""
from __future__ import annotations

import struct
import threading
import time

from vlib.common import rng_for

PID = "C28"
LEVEL = "exploration"
RULE = ("(1) all 65536 status codes through the real code_to_category vs an independent PS3.7/PS3.4 reference "
        "(exhaustive, both tiers); (2) every entry of every int->(category, description) dict found by introspection "
        "in pynetdicom.status (exhaustive, both tiers); (3a) real send_c_find/get/move iterators on 8 SOP classes fed "
        "[X, Success] by the scripted acceptor, X over every non-ranged table code + range/category boundaries + seeded "
        "samples (thorough: + every 16th code of the 16-bit space on Q/R Find); (3b) real C-FIND/C-GET/C-MOVE SCPs of 8 "
        "service classes with a handler yielding (X, data) then two more Pending results, X over every code of the "
        "service's own status table(s) (quick: the 0xCxxx 'unable to process' range is reduced to its boundaries, "
        "individually described codes and 200 seeded samples; C-MOVE additionally reduced because each probe opens a "
        "real sub-association) + 50 seeded codes outside the table; (3c) a Q/R C-FIND SCP half way through its matches "
        "while another association of the same AE is served a C-GET / C-MOVE / other C-FIND service (different status table), "
        "then yielding 0xFF01.  distinct = (monitor, service/table, code); "
        "non-trivial = every evaluation (each one compares a real result with the reference)")
ASSUMPTIONS = [
    "reference categories (PS3.7 Annex C, PS3.4): 0x0000 Success; 0xFF00/0xFF01 Pending; 0xFE00 Cancel; Warning 0x0001, "
    "0x0107, 0x0116, 0xB000-0xBFFF; Failure 0xA000-0xAFFF, 0xC000-0xCFFF and the 20 general failure codes 0x0105, 0x0106, "
    "0x0110-0x0115, 0x0117-0x0124, 0x0210-0x0213; everything else Unknown",
    "a status table is a non-empty module-level dict of pynetdicom.status whose keys are ints and whose values are "
    "(str, str) tuples; names bound to the same dict object (aliases) are listed and checked under each name",
    "Pending statuses defined per service (PS3.4): C-FIND services 0xFF00 and 0xFF01, except Relevant Patient "
    "Information Query (0xFF00 only); C-GET / C-MOVE 0xFF00 only",
    "SCP fence: pynetdicom serves DIMSE requests of one association sequentially, so a C-ECHO-RSP is only sent after "
    "the service call of the preceding request returned",
    "0xB001 on Repository Query contexts is left unasserted on both sides (pynetdicom documents it as a non-final "
    "Warning there); Relevant Patient SCP is never expected to ask the handler for a second match",
    "the C-GET probe yields data sets for which no storage context was negotiated (the C-STORE sub-operation fails "
    "locally and is counted as failed); finality of the C-GET responses does not depend on sub-operation outcome",
]
WORKERS = {"quick": 16, "thorough": 16}
EXHAUSTIVE = {"quick": True, "thorough": True}   # scope: monitors (1) and (2), i.e. the property's quantifier
MAX_INCONCLUSIVE_FRAC = 0.02


def REQUIRE(tier):
    r = {"codes_checked": 65536, "tables_discovered": 17, "table_entries_checked": 20000,
         "cat_Success": 1, "cat_Pending": 2, "cat_Cancel": 1, "cat_Warning": 4099, "cat_Failure": 8212,
         "cat_Unknown": 40000,
         "scu_probes": 600, "scu_pending_continued": 16, "scu_nonpending_stopped": 500,
         "scu_b001_repository_unasserted": 1,
         "scp_probes": 700, "scp_pending_nonfinal_with_identifier": 10, "scp_pending_nonfinal": 13,
         "scp_nonpending_final": 500, "scp_outside_table_probes": 300,
         "scp_concurrent_probes": 6}
    if tier == "thorough":
        r.update({"scp_probes": 25000, "scp_table_probes": 24000, "scu_probes": 5000,
                  "scu_nonpending_stopped": 4900})
    for s in SERVICES:
        r["scu_service_" + s] = 40
        r["scp_service_" + s] = 40
    return r


CATS = ("Success", "Warning", "Failure", "Cancel", "Pending", "Unknown")

# ------------------------------------------------------------------ independent reference (no pynetdicom)

_GENERAL_FAILURE = frozenset(
    [0x0105, 0x0106, 0x0110, 0x0111, 0x0112, 0x0113, 0x0114, 0x0115, 0x0117, 0x0118, 0x0119, 0x0120, 0x0121, 0x0122,
     0x0123, 0x0124, 0x0210, 0x0211, 0x0212, 0x0213])


def ref_class(code: int) -> str:
    """Range class of a 16-bit status value (used in mechanism keys)."""
    if code == 0x0000:
        return "success-0000"
    if code in (0xFF00, 0xFF01):
        return "pending-FF0x"
    if code == 0xFE00:
        return "cancel-FE00"
    if code == 0x0001:
        return "warning-0001"
    if code in (0x0107, 0x0116):
        return "warning-01xx"
    if 0xB000 <= code <= 0xBFFF:
        return "warning-Bxxx"
    if 0xA000 <= code <= 0xAFFF:
        return "failure-Axxx"
    if 0xC000 <= code <= 0xCFFF:
        return "failure-Cxxx"
    if code in _GENERAL_FAILURE:
        return "failure-01xx" if code < 0x0200 else "failure-02xx"
    if 0x0100 <= code <= 0x02FF:
        return "unknown-01xx-02xx"
    if 0xFE00 <= code <= 0xFFFF:
        return "unknown-FExx-FFxx"
    return "unknown-other"


def ref_category(code: int) -> str:
    c = ref_class(code)
    return {"success": "Success", "pending": "Pending", "cancel": "Cancel", "warning": "Warning",
            "failure": "Failure", "unknown": "Unknown"}[c.split("-")[0]]


# ------------------------------------------------------------------ services probed by (3a)/(3b)

IMPLICIT = "1.2.840.10008.1.2"
VERIFICATION = "1.2.840.10008.1.1"
CT_STORAGE = "1.2.840.10008.5.1.4.1.1.2"
REPOSITORY_QUERY = "1.2.840.10008.5.1.4.1.1.201.6"

# service-class key -> (operation, SOP class bound on the context, pynetdicom.status table names, Pending set PS3.4)
SERVICES = {
    "qr-find": ("find", "1.2.840.10008.5.1.4.1.2.1.1", ["QR_FIND_SERVICE_CLASS_STATUS"], (0xFF00, 0xFF01)),
    "repository-query": ("find", REPOSITORY_QUERY, ["QR_FIND_SERVICE_CLASS_STATUS"], (0xFF00, 0xFF01)),
    "modality-worklist": ("find", "1.2.840.10008.5.1.4.31",
                          ["MODALITY_WORKLIST_SERVICE_CLASS_STATUS", "QR_FIND_SERVICE_CLASS_STATUS"], (0xFF00, 0xFF01)),
    "substance-administration": ("find", "1.2.840.10008.5.1.4.41",
                                 ["SUBSTANCE_ADMINISTRATION_SERVICE_CLASS_STATUS"], (0xFF00, 0xFF01)),
    "relevant-patient": ("find", "1.2.840.10008.5.1.4.37.1", ["RELEVANT_PATIENT_SERVICE_CLASS_STATUS"], (0xFF00,)),
    "ups-find": ("find", "1.2.840.10008.5.1.4.34.6.3", ["UNIFIED_PROCEDURE_STEP_SERVICE_CLASS_STATUS"],
                 (0xFF00, 0xFF01)),
    "qr-get": ("get", "1.2.840.10008.5.1.4.1.2.1.3", ["QR_GET_SERVICE_CLASS_STATUS"], (0xFF00,)),
    "qr-move": ("move", "1.2.840.10008.5.1.4.1.2.1.2", ["QR_MOVE_SERVICE_CLASS_STATUS"], (0xFF00,)),
}
OPKEY = {"find": "c-find", "get": "c-get", "move": "c-move"}
RSP_KIND = {"find": "C-FIND-RSP", "get": "C-GET-RSP", "move": "C-MOVE-RSP"}
RQ_KIND = {"find": "C-FIND-RQ", "get": "C-GET-RQ", "move": "C-MOVE-RQ"}
BOUNDARY_CODES = [0x0000, 0x0001, 0x0002, 0x00FF, 0x0100, 0x0104, 0x0105, 0x0107, 0x0108, 0x0116, 0x0125, 0x020F,
                  0x0210, 0x0213, 0x0214, 0x9FFF, 0xA000, 0xA700, 0xAFFF, 0xB000, 0xB001, 0xBFFF, 0xC000, 0xCFFF,
                  0xD000, 0xFDFF, 0xFE00, 0xFE01, 0xFEFF, 0xFF00, 0xFF01, 0xFF02, 0xFFFF]


def _implicit_elem(group, elem, value: bytes) -> bytes:
    if len(value) % 2:
        value += b" "
    return struct.pack("<HHI", group, elem, len(value)) + value


def ident_bytes(tag: str) -> bytes:
    """A tiny Identifier in Implicit VR Little Endian: QueryRetrieveLevel + PatientID."""
    return _implicit_elem(0x0008, 0x0052, b"PATIENT") + _implicit_elem(0x0010, 0x0020, tag.encode())


# ------------------------------------------------------------------ case generation (no pynetdicom import here)

def gen_cases(tier, seed):
    cases = []
    for lo in range(0, 65536, 4096):
        cases.append({"part": "categories", "lo": lo, "hi": lo + 4096})
    cases.append({"part": "tables"})
    for svc, (op, _sop, _t, _p) in SERVICES.items():
        n = 2
        if tier == "thorough" and svc == "qr-find":
            n = 16
        for k in range(n):
            cases.append({"part": "scu", "service": svc, "shard": k, "nshards": n, "seed": seed, "tier": tier})
    for svc, (op, _sop, _t, _p) in SERVICES.items():
        if tier == "quick":
            n = 2 if op != "move" else 4
        else:
            n = 16 if op != "move" else 32
            if svc == "relevant-patient":
                n = 2
        for k in range(n):
            cases.append({"part": "scp", "service": svc, "shard": k, "nshards": n, "seed": seed, "tier": tier})
    for i in range(2 if tier == "quick" else 20):
        for second in CONCURRENT_SECOND:
            cases.append({"part": "scp-concurrent", "second": second, "i": i})
    # longest first so that the shards balance
    order = {"scp": 0, "scu": 1, "scp-concurrent": 2, "tables": 2, "categories": 3}
    cases.sort(key=lambda c: order[c["part"]])
    return cases


def setup_worker():
    import logging
    import warnings
    logging.disable(logging.CRITICAL)
    warnings.simplefilter("ignore")


def run_case(case):
    part = case["part"]
    if part == "categories":
        return run_categories(case)
    if part == "tables":
        return run_tables(case)
    if part == "scu":
        return run_scu(case)
    if part == "scp":
        return run_scp(case)
    if part == "scp-concurrent":
        return run_scp_concurrent(case)
    return {"key": "bad-case", "nontrivial": False, "violations": [], "counters": {}, "inconclusive": "unknown part"}


# ------------------------------------------------------------------ (1) all codes

def run_categories(case):
    from pynetdicom.status import code_to_category
    viol, counters = [], {"codes_checked": 0}
    for c in CATS:
        counters["cat_" + c] = 0
    first = {}
    for code in range(case["lo"], case["hi"]):
        ref = ref_category(code)
        cls = ref_class(code)
        try:
            a = code_to_category(code)
            b = code_to_category(int(code))
        except Exception as exc:  # a 16-bit value must be classifiable
            viol.append({"key": "not-a-category|%s|raised-%s" % (cls, type(exc).__name__),
                         "detail": "code_to_category(0x%04X) raised %r" % (code, exc)})
            continue
        counters["codes_checked"] += 1
        if not isinstance(a, str) or a not in CATS:
            viol.append({"key": "not-a-category|%s" % cls,
                         "detail": "code_to_category(0x%04X) returned %r, not one of %s" % (code, a, CATS)})
            continue
        counters["cat_" + a] += 1
        if a != b or type(a) is not type(b):
            viol.append({"key": "nondeterministic|%s" % cls,
                         "detail": "code_to_category(0x%04X) returned %r then %r" % (code, a, b)})
        if a != ref:
            viol.append({"key": "category-differs-from-reference|%s|%s-vs-%s" % (cls, a, ref),
                         "detail": "code_to_category(0x%04X) = %r but PS3.7 Annex C / PS3.4 reference says %r"
                                   % (code, a, ref)})
        first.setdefault(a, "0x%04X" % code)
    return {"key": "categories-%04X" % case["lo"], "nontrivial": True,
            "sample": {"part": "categories", "range": ["0x%04X" % case["lo"], "0x%04X" % (case["hi"] - 1)],
                       "first_code_per_category": first},
            "violations": _dedup(viol), "counters": counters, "inconclusive": None}


def _dedup(viol, per_key=1):
    seen, out = {}, []
    for v in viol:
        n = seen.get(v["key"], 0)
        seen[v["key"]] = n + 1
        if n < per_key:
            out.append(v)
    for v in out:
        if seen[v["key"]] > 1:
            v["detail"] += " (+%d more with this mechanism in the case)" % (seen[v["key"]] - 1)
    return out


# ------------------------------------------------------------------ (2) tables

def discover_tables():
    """{name: dict} for every module-level status table of pynetdicom.status, found by introspection."""
    import pynetdicom.status as S
    out = {}
    for name, val in sorted(vars(S).items()):
        if name.startswith("__") or not isinstance(val, dict) or not val:
            continue
        if all(isinstance(k, int) and not isinstance(k, bool) for k in val) and all(
                isinstance(v, tuple) and len(v) == 2 and isinstance(v[0], str) for v in val.values()):
            out[name] = val
    return out


def run_tables(case):
    from pynetdicom.status import code_to_category
    import pynetdicom.service_class as SC
    import pynetdicom.service_class_n as SCN
    tables = discover_tables()
    viol = []
    counters = {"tables_discovered": len(tables), "table_entries_checked": 0, "table_entries_distinct_objects": 0}
    listing = {}
    ids = {}
    for name, tab in tables.items():
        alias_of = ids.get(id(tab))
        ids.setdefault(id(tab), name)
        per_cat = {}
        for code, val in tab.items():
            counters["table_entries_checked"] += 1
            if alias_of is None:
                counters["table_entries_distinct_objects"] += 1
            tcat = val[0]
            per_cat[tcat] = per_cat.get(tcat, 0) + 1
            if not (0 <= code <= 0xFFFF):
                viol.append({"key": "table-malformed|%s|code-out-of-16-bit-range" % name,
                             "detail": "%s has key %r" % (name, code)})
                continue
            if tcat not in CATS:
                viol.append({"key": "table-malformed|%s|category-not-one-of-six" % name,
                             "detail": "%s[0x%04X] category %r" % (name, code, tcat)})
                continue
            fcat = code_to_category(code)
            rcat = ref_category(code)
            if tcat != fcat:
                viol.append({"key": "table-disagrees|%s|%s-vs-%s" % (name, tcat, fcat),
                             "detail": "%s[0x%04X] = (%r, %r) but code_to_category(0x%04X) = %r (reference: %r)"
                                       % (name, code, tcat, val[1], code, fcat, rcat)})
            if tcat != rcat:
                viol.append({"key": "table-differs-from-reference|%s|%s-vs-%s" % (name, tcat, rcat),
                             "detail": "%s[0x%04X] = (%r, %r) but the PS3.7/PS3.4 reference category is %r"
                                       % (name, code, tcat, val[1], rcat)})
        listing[name] = {"entries": len(tab), "per_category": per_cat, "alias_of": alias_of}
    # which table every service class object actually consults (evidence only; QR classes pick theirs per request)
    used = {}
    for mod in (SC, SCN):
        for cname, cls in sorted(vars(mod).items()):
            if isinstance(cls, type) and issubclass(cls, SC.ServiceClass):
                st = cls.__dict__.get("statuses", None)
                if isinstance(st, dict):
                    used[cname] = ids.get(id(st), "<not a module-level table of pynetdicom.status>")
    return {"key": "tables", "nontrivial": True,
            "sample": {"part": "tables", "tables": listing, "service_class_statuses": used},
            "violations": _dedup(viol), "counters": counters, "inconclusive": None}


# ------------------------------------------------------------------ code selection for (3a)/(3b)

def _table_codes(names):
    tabs = discover_tables()
    codes = {}
    for n in names:
        for code, val in tabs.get(n, {}).items():
            if isinstance(code, int) and 0 <= code <= 0xFFFF:
                codes.setdefault(code, val)
    return codes


def _reduce_ranges(codes: dict, rng, keep_random):
    """All codes outside long runs; of a run (> 64 consecutive codes with one dominant description) keep the
    boundaries, every code whose (category, description) is not the dominant one, and `keep_random` samples."""
    out = []
    srt = sorted(codes)
    i = 0
    while i < len(srt):
        j = i
        while j + 1 < len(srt) and srt[j + 1] == srt[j] + 1:
            j += 1
        run = srt[i:j + 1]
        if len(run) <= 64:
            out.extend(run)
        else:
            cnt = {}
            for c in run:
                cnt[codes[c]] = cnt.get(codes[c], 0) + 1
            dominant = max(cnt, key=lambda k: cnt[k])
            keep = {run[0], run[1], run[-2], run[-1]}
            keep.update(c for c in run if codes[c] != dominant)
            rest = [c for c in run if c not in keep]
            keep.update(rng.sample(rest, min(keep_random, len(rest))))
            out.extend(sorted(keep))
        i = j + 1
    return out


def scp_codes(case):
    """[(code, 'table'|'other')] for one scp case shard; deterministic in the case dict + the tables of the tree."""
    svc = case["service"]
    op, _sop, names, _pend = SERVICES[svc]
    rng = rng_for(case["seed"], PID, "scp", svc)
    tab = _table_codes(names)
    if case["tier"] == "quick":
        incl = _reduce_ranges(tab, rng, 200 if op != "move" else 6)
    else:
        incl = sorted(tab)
    pool = [c for c in range(65536) if c not in tab]
    others = [c for c in BOUNDARY_CODES if c not in tab]
    others += rng.sample(pool, 50)
    seen, lst = set(), []
    for c in incl:
        lst.append((c, "table"))
        seen.add(c)
    for c in others:
        if c not in seen:
            seen.add(c)
            lst.append((c, "other"))
    return lst[case["shard"]::case["nshards"]]


def scu_codes(case):
    svc = case["service"]
    rng = rng_for(case["seed"], PID, "scu", svc)
    allc = {}
    for n, t in discover_tables().items():
        for code, val in t.items():
            if isinstance(code, int) and 0 <= code <= 0xFFFF:
                allc.setdefault(code, val)
    incl = set(_reduce_ranges(allc, rng, 4)) | set(BOUNDARY_CODES)
    incl.update(rng.sample(range(65536), 40))
    if case["tier"] == "thorough" and svc == "qr-find":
        incl.update(range(0, 65536, 16))
        incl.update(range(0xFE00, 0x10000))
    return sorted(incl)[case["shard"]::case["nshards"]]


# ------------------------------------------------------------------ (3a) SCU finality

def _scripted_acceptor(lst, op, sop, code, out):
    """Accept one association, answer the first request with [X (+ data for C-FIND), Success], serve the release."""
    from vlib import cmdset
    from vlib.peer import accept_association
    peer = None
    try:
        peer = lst.accept(5.0)
        if peer is None:
            out["error"] = "no connection"
            return
        rq, ac = accept_association(peer)
        if ac is None:
            out["error"] = "no A-ASSOCIATE-RQ: %r" % (rq,)
            return
        m = peer.recv_dimse(5.0)
        if not m or m.get("type") != "DIMSE":
            out["error"] = "no request: %r" % (m and m.get("type"),)
            return
        out["request_field"] = m["cmd"].get("CommandField")
        ctx, msgid = m["ctx"], m["cmd"].get("MessageID", 1)
        kw = dict(AffectedSOPClassUID=sop, MessageIDBeingRespondedTo=msgid)
        if op == "find":
            x = cmdset.make(RSP_KIND[op], Status=code, CommandDataSetType=0x0001, **kw)
            peer.send_dimse(ctx, x, ident_bytes("X1"))
        else:
            x = cmdset.make(RSP_KIND[op], Status=code, NumberOfRemainingSuboperations=1,
                            NumberOfCompletedSuboperations=0, NumberOfFailedSuboperations=0,
                            NumberOfWarningSuboperations=0, **kw)
            peer.send_dimse(ctx, x)
        fin = cmdset.make(RSP_KIND[op], Status=0x0000, **kw)
        if op != "find":
            fin.update(NumberOfCompletedSuboperations=1, NumberOfFailedSuboperations=0,
                       NumberOfWarningSuboperations=0)
        peer.send_dimse(ctx, fin)
        out["sent"] = 2
        v = peer.recv_pdu(6.0)
        out["end"] = v and v.get("type")
        if v and v.get("type") == "RELRQ":
            peer.send_pdu({"type": "RELRP"})
            peer.wait_eof(1.0)
    except Exception as exc:  # scripted side failure: the probe is inconclusive
        out["error"] = "acceptor exception %r" % (exc,)
    finally:
        if peer is not None:
            peer.close()


def run_scu(case):
    from pydicom.dataset import Dataset
    from vlib import harness
    from vlib.peer import Listener
    svc = case["service"]
    op, sop, _names, _pend = SERVICES[svc]
    codes = scu_codes(case)
    viol, inconclusive = [], []
    counters = {"scu_probes": 0, "scu_pending_continued": 0, "scu_nonpending_stopped": 0,
                "scu_b001_repository_unasserted": 0, "scu_b001_repository_observed_nonfinal": 0,
                "scu_service_" + svc: 0, "scu_inconclusive_probes": 0}
    ae = harness.make_ae("C28SCU", timeouts=(4.0, 2.5, 6.0, 4.0), requested=[(sop, IMPLICIT)])
    lst = Listener()
    samples = []
    try:
        for code in codes:
            out = {}
            th = threading.Thread(target=_scripted_acceptor, args=(lst, op, sop, code, out), daemon=True)
            th.start()
            observed = []
            err = None
            assoc = None
            try:
                assoc = ae.associate("127.0.0.1", lst.port, ae_title="C28PEER")
                if not assoc.is_established:
                    err = "association not established"
                else:
                    ds = Dataset()
                    ds.QueryRetrieveLevel = "PATIENT"
                    ds.PatientID = "*"
                    if op == "find":
                        it = assoc.send_c_find(ds, sop)
                    elif op == "get":
                        it = assoc.send_c_get(ds, sop)
                    else:
                        it = assoc.send_c_move(ds, "C28DEST", sop)
                    for status, ident in it:
                        observed.append([status.Status if "Status" in status else None, ident is not None])
                        if len(observed) >= 4:
                            break
            except Exception as exc:
                err = "requestor exception %r" % (exc,)
            finally:
                if assoc is not None:
                    try:
                        if assoc.is_established:
                            assoc.release()
                        if not assoc.is_released:
                            assoc.abort()
                    except Exception:
                        pass
            th.join(8.0)
            if th.is_alive():
                err = err or "scripted acceptor did not finish"
            if out.get("error"):
                err = err or out["error"]
            rcat = ref_category(code)
            if err or out.get("sent") != 2:
                counters["scu_inconclusive_probes"] += 1
                inconclusive.append("0x%04X: %s; observed %r" % (code, err or out, observed))
                continue
            counters["scu_probes"] += 1
            counters["scu_service_" + svc] += 1
            stats = [o[0] for o in observed]
            if len(samples) < 3 or code in (0xFF01, 0xB001):
                samples.append({"code": "0x%04X" % code, "yielded": observed})
            detail = ("%s on %s (%s): scripted acceptor sent [0x%04X%s, 0x0000]; the real iterator yielded %s; "
                      "reference category of 0x%04X is %s" % (
                          {"find": "send_c_find", "get": "send_c_get", "move": "send_c_move"}[op], svc, sop, code,
                          " + Identifier" if op == "find" else "", [
                              ("0x%04X" % s if s is not None else "<no Status: timeout/abort>") +
                              ("+identifier" if i else "") for s, i in observed], code, rcat))
            if not stats or stats[0] != code:
                viol.append({"key": "scu-finality|%s|%s|first-yield-is-not-the-response" % (svc, rcat),
                             "detail": detail})
                continue
            if svc == "repository-query" and code == 0xB001:
                counters["scu_b001_repository_unasserted"] += 1
                if len(stats) > 1:
                    counters["scu_b001_repository_observed_nonfinal"] += 1
                continue
            if rcat == "Pending":
                if stats == [code, 0x0000]:
                    counters["scu_pending_continued"] += 1
                    if op == "find" and not observed[0][1]:
                        viol.append({"key": "scu-finality|%s|Pending|identifier-not-delivered" % svc,
                                     "detail": detail})
                elif len(stats) == 1:
                    viol.append({"key": "scu-finality|%s|Pending|stopped-at-pending" % svc, "detail": detail})
                else:
                    viol.append({"key": "scu-finality|%s|Pending|wrong-continuation" % svc, "detail": detail})
            else:
                if stats == [code]:
                    counters["scu_nonpending_stopped"] += 1
                else:
                    viol.append({"key": "scu-finality|%s|%s|continued-past-nonpending" % (svc, rcat),
                                 "detail": detail})
    finally:
        lst.close()
        harness.stop_ae(ae)
    inc = None
    if len(inconclusive) > max(2, len(codes) // 20):
        inc = "%d of %d SCU probes inconclusive, e.g. %s" % (len(inconclusive), len(codes), inconclusive[:2])
    return {"key": "scu-%s-%d" % (svc, case["shard"]), "nontrivial": True,
            "sample": {"part": "scu", "service": svc, "sop_class": sop, "codes": len(codes), "examples": samples,
                       "inconclusive_probes": inconclusive[:3]},
            "violations": _dedup(viol), "counters": counters, "inconclusive": inc}


# ------------------------------------------------------------------ (3b) SCP finality

class _Plan:
    def __init__(self):
        self.by_msgid = {}
        self.sink_port = None
        self.store_ctx = None


def _store_ds(n):
    from pydicom.dataset import Dataset
    ds = Dataset()
    ds.SOPClassUID = CT_STORAGE
    ds.SOPInstanceUID = "1.2.826.0.1.3680043.9.3811.28.%d" % n
    ds.PatientID = "C28-%d" % n
    return ds


def _ident_ds(tag):
    from pydicom.dataset import Dataset
    ds = Dataset()
    ds.QueryRetrieveLevel = "PATIENT"
    ds.PatientID = tag
    return ds


def _handlers(plan):
    from pynetdicom import evt

    def handle_find(event):
        p = plan.by_msgid[event.request.MessageID]
        log = p["log"]
        log.append("start")
        yield p["code"], _ident_ds("X1")
        log.append("resumed-after-X")
        yield 0xFF00, _ident_ds("M2")
        log.append("resumed-after-2")
        yield 0xFF00, _ident_ds("M3")
        log.append("resumed-after-3")

    def handle_get(event):
        p = plan.by_msgid[event.request.MessageID]
        log = p["log"]
        log.append("start")
        yield 3
        yield p["code"], _store_ds(1)
        log.append("resumed-after-X")
        yield 0xFF00, _store_ds(2)
        log.append("resumed-after-2")
        yield 0xFF00, _store_ds(3)
        log.append("resumed-after-3")

    def handle_move(event):
        p = plan.by_msgid[event.request.MessageID]
        log = p["log"]
        log.append("start")
        yield "127.0.0.1", plan.sink_port, {"contexts": [plan.store_ctx]}
        yield 3
        yield p["code"], _store_ds(1)
        log.append("resumed-after-X")
        yield 0xFF00, _store_ds(2)
        log.append("resumed-after-2")
        yield 0xFF00, _store_ds(3)
        log.append("resumed-after-3")

    return [(evt.EVT_C_FIND, handle_find), (evt.EVT_C_GET, handle_get), (evt.EVT_C_MOVE, handle_move)]


class _Lost(Exception):
    pass


def _scp_probe(peer, op, sop, msgid, first_timeout=2.5, stats=None):
    """Send one request, collect every message up to the C-ECHO-RSP fence.  Returns list of response dicts."""
    from vlib import cmdset
    kw = dict(AffectedSOPClassUID=sop, MessageID=msgid, Priority=2, CommandDataSetType=0x0001)
    if op == "move":
        kw["MoveDestination"] = "C28SINK"
    peer.send_dimse(1, cmdset.make(RQ_KIND[op], **kw), ident_bytes("Q*"))
    fence_id = (msgid + 30000) % 65536 or 1
    fenced = False
    rsps = []
    t_end = time.time() + 30.0
    while time.time() < t_end:
        m = peer.recv_dimse(first_timeout if not fenced else 8.0)
        if m is None:
            if not fenced and stats is not None:
                stats["scp_first_response_timeouts"] += 1
            if fenced:
                raise _Lost("no C-ECHO-RSP fence within 8 s; responses so far %r" % (rsps,))
            peer.send_dimse(3, cmdset.c_echo_rq(fence_id))
            fenced = True
            continue
        if m.get("type") != "DIMSE":
            raise _Lost("association lost: %r" % (m.get("type"),))
        cmd = m["cmd"]
        field = cmd.get("CommandField")
        if field == cmdset.COMMAND_FIELD["C-ECHO-RSP"]:
            if cmd.get("MessageIDBeingRespondedTo") == fence_id:
                return rsps
            continue
        rsps.append({"field": field, "status": cmd.get("Status"), "rsp_to": cmd.get("MessageIDBeingRespondedTo"),
                     "ctx": m["ctx"], "data": m["data"]})
        if not fenced and field == cmdset.COMMAND_FIELD[RSP_KIND[op]] and cmd.get("Status") not in (0xFF00, 0xFF01):
            peer.send_dimse(3, cmdset.c_echo_rq(fence_id))
            fenced = True
    raise _Lost("probe did not finish in 30 s")


def run_scp(case):
    from pynetdicom import evt, build_context
    from pynetdicom.status import code_to_category
    from vlib import cmdset, harness, ps38
    from vlib.peer import Peer
    svc = case["service"]
    op, sop, names, pend = SERVICES[svc]
    opk = OPKEY[op]
    codes = scp_codes(case)
    plan = _Plan()
    viol, inconclusive, samples = [], [], []
    counters = {"scp_probes": 0, "scp_pending_nonfinal": 0, "scp_pending_nonfinal_with_identifier": 0,
                "scp_nonpending_final": 0, "scp_outside_table_probes": 0, "scp_table_probes": 0,
                "scp_unasserted_b001_repository": 0, "scp_unasserted_pending_code_not_defined_for_service": 0,
                "scp_inconclusive_probes": 0, "scp_service_" + svc: 0, "scp_first_response_timeouts": 0}
    ae = harness.make_ae("C28SCP", timeouts=(5.0, 5.0, 60.0, 5.0),
                         supported=[(sop, IMPLICIT), (VERIFICATION, IMPLICIT)])
    sink = None
    peer = None
    try:
        if op == "move":
            sink = harness.make_ae("C28SINK", timeouts=(5.0, 5.0, 10.0, 5.0), supported=[(CT_STORAGE, IMPLICIT)])
            _s, plan.sink_port = harness.start_server(sink, [(evt.EVT_C_STORE, lambda event: 0x0000)])
            plan.store_ctx = build_context(CT_STORAGE, IMPLICIT)
        _server, port = harness.start_server(ae, _handlers(plan))

        def connect():
            p = Peer.connect(port)
            ac = p.associate(ps38.make_rq(called="C28SCP", calling="C28PEER", pcs=[
                {"id": 1, "abs": sop, "ts": [IMPLICIT]}, {"id": 3, "abs": VERIFICATION, "ts": [IMPLICIT]}]))
            if not ac or ac.get("type") != "AC" or set(p.accepted) != {1, 3}:
                p.close()
                raise _Lost("association not accepted: %r" % (ac and {k: v for k, v in ac.items() if k != "_raw"},))
            return p

        msgid = 0
        for code, origin in codes:
            msgid += 1
            log = []
            plan.by_msgid[msgid] = {"code": code, "log": log}
            try:
                if peer is None:
                    peer = connect()
                rsps = _scp_probe(peer, op, sop, msgid, stats=counters)
            except (_Lost, OSError) as exc:
                counters["scp_inconclusive_probes"] += 1
                inconclusive.append("0x%04X: %s; handler log %r" % (code, exc, log))
                if peer is not None:
                    peer.close()
                    peer = None
                continue
            finally:
                plan.by_msgid.pop(msgid - 1, None)
            counters["scp_probes"] += 1
            counters["scp_service_" + svc] += 1
            counters["scp_%s_probes" % origin.replace("other", "outside_table")] += 1
            mine = [r for r in rsps if r["field"] == cmdset.COMMAND_FIELD[RSP_KIND[op]]]
            foreign = [r for r in rsps if r not in mine or r["rsp_to"] != msgid or r["ctx"] != 1]
            stats = [r["status"] for r in mine]
            resumed = "resumed-after-X" in log
            rcat = ref_category(code)
            if len(samples) < 3 or code in (0xFF01, 0xB001, 0x0107):
                samples.append({"code": "0x%04X" % code, "in_table": origin == "table", "handler_log": list(log),
                                "responses": [("0x%04X" % s if s is not None else None) + ("+data" if r["data"] else "")
                                              for s, r in zip(stats, mine)]})
            detail = ("%s SCP on %s (%s), handler yields (0x%04X, data) then (0xFF00, data) x2; code %s the "
                      "service's table(s) %s; reference category %s%s; pynetdicom's SCU side (code_to_category) "
                      "treats it as %s.  Responses received before the C-ECHO fence: %s; handler log: %s" % (
                          opk.upper(), svc, sop, code, "is in" if origin == "table" else "is NOT in", names, rcat,
                          " (a Pending status of this service)" if code in pend else "", code_to_category(code),
                          [("0x%04X" % s if s is not None else "None") + ("+dataset" if r["data"] else "")
                           for s, r in zip(stats, mine)], log))
            if foreign:
                viol.append({"key": "scp-finality|%s|%s|response-with-foreign-id-or-context|%s" % (opk, rcat, svc),
                             "detail": detail + "; foreign: %r" % ([{k: v for k, v in r.items() if k != "data"}
                                                                   for r in foreign],)})
                continue
            if "start" not in log:
                counters["scp_inconclusive_probes"] += 1
                inconclusive.append("0x%04X: handler never started; responses %r" % (code, stats))
                continue
            if svc == "repository-query" and code == 0xB001:
                counters["scp_unasserted_b001_repository"] += 1
                continue
            if rcat == "Pending" and code not in pend:
                counters["scp_unasserted_pending_code_not_defined_for_service"] += 1
                continue
            if code in pend:
                # non-final: X response first, generator resumed, later a final (non-Pending) response
                ok = True
                if not stats:
                    viol.append({"key": "scp-finality|%s|Pending|no-response|%s" % (opk, svc), "detail": detail})
                    continue
                if stats[0] != code:
                    viol.append({"key": "scp-finality|%s|Pending|pending-response-not-sent|%s" % (opk, svc),
                                 "detail": detail})
                    ok = False
                elif op == "find" and not mine[0]["data"]:
                    viol.append({"key": "scp-finality|%s|Pending|identifier-dropped|%s" % (opk, svc),
                                 "detail": detail})
                    ok = False
                if len(stats) < 2 or (svc != "relevant-patient" and not resumed):
                    viol.append({"key": "scp-finality|%s|Pending|treated-as-final|%s" % (opk, svc),
                                 "detail": detail})
                    ok = False
                elif ref_category(stats[-1]) == "Pending" and stats[-1] in (0xFF00, 0xFF01):
                    viol.append({"key": "scp-finality|%s|Pending|no-final-response|%s" % (opk, svc),
                                 "detail": detail})
                    ok = False
                if ok:
                    counters["scp_pending_nonfinal"] += 1
                    if op == "find":
                        counters["scp_pending_nonfinal_with_identifier"] += 1
            else:
                if not stats:
                    viol.append({"key": "scp-finality|%s|%s|no-response|%s" % (opk, rcat, svc), "detail": detail})
                elif resumed:
                    viol.append({"key": "scp-finality|%s|%s|handler-continued|%s" % (opk, rcat, svc),
                                 "detail": detail})
                elif len(stats) > 1:
                    viol.append({"key": "scp-finality|%s|%s|responses-after-final|%s" % (opk, rcat, svc),
                                 "detail": detail})
                elif stats[0] in pend:
                    viol.append({"key": "scp-finality|%s|%s|only-response-is-pending|%s" % (opk, rcat, svc),
                                 "detail": detail})
                else:
                    counters["scp_nonpending_final"] += 1
        if peer is not None:
            try:
                peer.release(2.0)
            except OSError:
                pass
    finally:
        if peer is not None:
            peer.close()
        harness.stop_ae(ae)
        if sink is not None:
            harness.stop_ae(sink)
    inc = None
    if len(inconclusive) > max(2, len(codes) // 20):
        inc = "%d of %d SCP probes inconclusive, e.g. %s" % (len(inconclusive), len(codes), inconclusive[:2])
    return {"key": "scp-%s-%d" % (svc, case["shard"]), "nontrivial": True,
            "sample": {"part": "scp", "service": svc, "sop_class": sop, "tables": names, "codes": len(codes),
                       "examples": samples[:8], "inconclusive_probes": inconclusive[:3]},
            "violations": _dedup(viol), "counters": counters, "inconclusive": inc}


# ------------------------------------------------------------------ evidence


# ------------------------------------------------------------------ (3c) two associations served at the same time

CONCURRENT_SECOND = ["qr-get", "qr-move", "relevant-patient", "substance-administration"]


def run_scp_concurrent(case):
    """A Q/R C-FIND whose handler is half way through its matches while ANOTHER association of the same AE is served a
    request of a different service (different status table).  The C-FIND must still treat 0xFF01 as Pending (non-final)
    and end with a final response; the other request must get exactly one final response."""
    from pynetdicom import evt
    from vlib import cmdset, harness, ps38
    from vlib.peer import Peer
    second = case["second"]
    op2, sop2, _names2, _pend2 = SERVICES[second]
    _op1, sop1, _n1, _p1 = SERVICES["qr-find"]
    in_find, go = threading.Event(), threading.Event()
    log = []
    viol = []
    counters = {"scp_concurrent_probes": 0}

    def handle_find(event):
        if event.request.AffectedSOPClassUID != sop1:
            log.append("second-find")
            return
        log.append("start")
        yield 0xFF00, _ident_ds("M1")
        in_find.set()
        go.wait(15.0)
        log.append("resumed")
        yield 0xFF01, _ident_ds("M2")
        log.append("after-ff01")
        yield 0xFF00, _ident_ds("M3")
        log.append("after-3")

    def handle_get(event):
        log.append("second-get")
        yield 0

    def handle_move(event):
        log.append("second-move")
        yield None, None

    ae = harness.make_ae("C28SCP", timeouts=(5.0, 5.0, 60.0, 5.0),
                         supported=[(sop1, IMPLICIT), (sop2, IMPLICIT), (VERIFICATION, IMPLICIT)])
    pa = pb = None
    inc = None
    a_stats, b_stats = [], []
    try:
        _server, port = harness.start_server(ae, [(evt.EVT_C_FIND, handle_find), (evt.EVT_C_GET, handle_get), (evt.EVT_C_MOVE, handle_move)])

        def connect(sop, calling):
            p = Peer.connect(port)
            ac = p.associate(ps38.make_rq(called="C28SCP", calling=calling, pcs=[{"id": 1, "abs": sop, "ts": [IMPLICIT]}]))
            if not ac or ac.get("type") != "AC" or set(p.accepted) != {1}:
                p.close()
                raise _Lost("association not accepted")
            return p

        def collect(p, op, into, timeout):
            while True:
                m = p.recv_dimse(timeout)
                if m is None or m.get("type") != "DIMSE":
                    into.append(None if m is None else m.get("type"))
                    return
                st = m["cmd"].get("Status")
                if m["cmd"].get("CommandField") != cmdset.COMMAND_FIELD[RSP_KIND[op]]:
                    continue
                into.append(st)
                if st not in (0xFF00, 0xFF01):
                    return
        pa = connect(sop1, "C28PEERA")
        pa.send_dimse(1, cmdset.make("C-FIND-RQ", AffectedSOPClassUID=sop1, MessageID=1, Priority=2, CommandDataSetType=0x0001), ident_bytes("Q*"))
        m = pa.recv_dimse(6.0)
        a_stats.append(m["cmd"].get("Status") if m and m.get("type") == "DIMSE" else None)
        if not in_find.wait(6.0):
            raise _Lost("C-FIND handler did not reach its second match; %r" % (a_stats,))
        pb = connect(sop2, "C28PEERB")
        kw = dict(AffectedSOPClassUID=sop2, MessageID=2, Priority=2, CommandDataSetType=0x0001)
        if op2 == "move":
            kw["MoveDestination"] = "NOWHERE"
        pb.send_dimse(1, cmdset.make(RQ_KIND[op2], **kw), ident_bytes("Q*"))
        collect(pb, op2, b_stats, 6.0)
        go.set()
        collect(pa, "find", a_stats, 6.0)
        counters["scp_concurrent_probes"] = 1
        detail = ("Q/R C-FIND on association A: handler yields 0xFF00, then (while a %s request on %s is served on association B of the "
                  "same AE) 0xFF01, 0xFF00 and ends; A received statuses %s, B received %s; handler log %s" % (
                      OPKEY[op2].upper(), second, ["0x%04X" % x if isinstance(x, int) else x for x in a_stats],
                      ["0x%04X" % x if isinstance(x, int) else x for x in b_stats], log))
        if a_stats != [0xFF00, 0xFF01, 0xFF00, 0x0000]:
            what = "treated-as-final" if "after-ff01" not in log else "no-final-response" if a_stats[-1:] != [0x0000] else "responses-differ"
            viol.append({"key": "scp-finality|c-find|Pending|%s|qr-find|while-%s-on-another-association" % (what, second), "detail": detail})
        if len(b_stats) != 1 or not isinstance(b_stats[0], int) or ref_category(b_stats[0]) == "Pending":
            viol.append({"key": "scp-finality|%s|final|no-single-final-response|%s|while-c-find-on-another-association" % (OPKEY[op2], second),
                         "detail": detail})
    except (_Lost, OSError) as exc:
        inc = "concurrent probe lost: %s; log %r" % (exc, log)
    finally:
        go.set()
        for p in (pa, pb):
            if p is not None:
                p.close()
        harness.stop_ae(ae)
    return {"key": "scp-concurrent-%s-%d" % (second, case["i"]), "nontrivial": inc is None,
            "sample": {"part": "scp-concurrent", "second": second, "a": a_stats, "b": b_stats, "log": log},
            "violations": _dedup(viol), "counters": counters, "inconclusive": inc}


def extra_evidence(tier, results):
    ev = {"exhaustive_scope": "monitors (1) all 65536 codes and (2) every entry of every status table; the finality "
                              "monitors (3a)/(3b) cover every table code in the thorough tier and a reduced 0xCxxx "
                              "range in the quick tier (see rule)"}
    total = 0
    for r in results.values():
        c = r.get("counters") or {}
        total += c.get("codes_checked", 0) + c.get("table_entries_checked", 0) + c.get("scu_probes", 0) + \
            c.get("scp_probes", 0)
        s = r.get("sample")
        if isinstance(s, dict) and s.get("part") == "tables":
            ev["status_tables"] = s.get("tables")
            ev["service_class_statuses"] = s.get("service_class_statuses")
    ev["distinct_nontrivial"] = total
    return ev
