"""C06 — both peers agree on how an association ended, and it always ends.

Two real pynetdicom AEs on loopback run scripted lifecycles (vlib.lifecycle: nominal release, abort by either side,
handler-side abort, acceptor-initiated release/abort/shutdown while idle or during a handler, release collision, abort
during release in both role orders, two threads aborting the same association, network timeout with both responses,
rejection) under seeded yield/delay injection at named lines of the release/abort/reactor code (sys.monitoring).
Oracle over the recorded two-sided history: each side exactly one outcome flag and exactly one terminal event fired
exactly once, allowed outcome pair, no thread or socket left, bounded time.
"""
from vlib import harness, lifecycle, sched, taps
from vlib.common import rng_for, sha

PID = "C06"
LEVEL = "exploration"
RULE = ("lifecycle scenarios x yield-injection seeds; distinct = (scenario, observed ordering signature of terminal events and "
        "final FSM paths on both sides); non-trivial = both sides' associations were created and reached an outcome")
ASSUMPTIONS = ["bounded progress: ACSE/DIMSE timeouts 1 s, network timeout 2-2.5 s, watchdog 12 s; a watchdog firing is a violation only with a stable blocked stack",
               "API use stays within one thread per association for release(); abort() may race (it has a single-abort guard)"]
WORKERS = {"quick": 16, "thorough": 16}
REQUIRE = {"abort_calls": 40, "runs": 150, "released_pairs": 20, "aborted_pairs": 40, "rejected_pairs": 4,
           "abort_during_release_observed": 1, "yield_hits": 500}
YP = None


def setup_worker():
    global YP
    harness.quiet_logging()
    taps.install()
    YP = sched.YieldPoints(lifecycle.yield_points(), seed=0, p_yield=0.6, max_delay=0.004)
    YP.install()


def gen_cases(tier, seed):
    reps = 10 if tier == "quick" else 400
    cases = []
    for s in lifecycle.SCENARIOS:
        for r in range(reps):
            cases.append({"scenario": s["name"], "seed": seed, "rep": r, "yields": r % 5 != 0})
    return cases


TERMINAL = ("EVT_RELEASED", "EVT_ABORTED", "EVT_REJECTED")


def side_outcome(flags):
    if flags is None:
        return None
    return [k for k in ("released", "aborted", "rejected") if flags[k]]


def check(scn, out, counters):
    viol = []
    name = scn["name"]
    req, acc = out["req"], out["acc"]
    hist = out["history"]
    term = {"req": [e["name"] for e in hist if e["side"] == "req" and e["name"] in TERMINAL and e["assoc"] == out["req_id"]],
            "acc": [e["name"] for e in hist if e["side"] == "acc" and e["name"] in TERMINAL and e["assoc"] == out["acc_id"]]}
    fsm_path = {s: [e["fsm_event"] for e in hist if e["side"] == s and e["name"] == "EVT_FSM_TRANSITION"] for s in ("req", "acc")}
    if any(e in fsm_path["req"] + fsm_path["acc"] for e in ("Evt12",)) and ("Sta9" in [x.get("nxt") for x in hist if x["name"] == "EVT_FSM_TRANSITION"] or "Sta10" in [x.get("nxt") for x in hist if x["name"] == "EVT_FSM_TRANSITION"]):
        counters["collisions_observed"] = 1
    if name.startswith("abort-during-release") and ("Evt11" in fsm_path["req"] or "Evt11" in fsm_path["acc"]) and ("Evt15" in fsm_path["req"] or "Evt15" in fsm_path["acc"]):
        counters["abort_during_release_observed"] = 1
    # ---- two A-ABORT requests issued by one side: which way did the second caller get past the single-abort guard?
    for side, aid in (("req", out["req_id"]), ("acc", out["acc_id"])):
        sent = [e for e in hist if e["side"] == side and e["assoc"] == aid and e["name"] == "EVT_ACSE_SENT" and e.get("prim") in ("A_ABORT", "A_P_ABORT")]
        calls = [e for e in hist if e["side"] == side and e["assoc"] == aid and e["name"] == "ABORT_CALL_ENTER"]
        if calls:
            counters["abort_calls"] = counters.get("abort_calls", 0) + len(calls)
        if len(sent) >= 2 and len(calls) >= 2:
            late = [c for c in calls[1:] if c["seq"] > sent[0]["seq"]]
            how = "second-call-entered-after-first-abort-was-sent" if late else "calls-entered-concurrently"
            viol.append({"key": "double-abort-request|%s" % how, "detail": "%s/%s: %d abort() calls, %d A-ABORT requests issued; call seqs %r, first sent at seq %d" % (
                name, side, len(calls), len(sent), [c["seq"] for c in calls], sent[0]["seq"])})
    # ---- "within the configured timeouts": the requestor's release() waits for the peer no longer than its ACSE timeout
    if out.get("release_call_s") is not None and scn.get("req_timeouts"):
        counters["release_calls_timed"] = 1
        if out["release_call_s"] > 3 * out["req_acse_timeout"] + 1.0:
            viol.append({"key": "release-call-outlasted-acse-timeout|%s" % name,
                         "detail": "%s: release() returned after %.2f s, the requestor's ACSE timeout is %.1f s (DIMSE timeout %.1f s)" % (
                             name, out["release_call_s"], out["req_acse_timeout"], scn["req_timeouts"][1])})
    # ---- crashes are reported first (and explain everything downstream)
    crashed = False
    for pr in out["fsm_problems"]:
        crashed = True
        if pr["kind"] == "invalid-event":
            ev = pr["pair"].split("@")[0]
            fam = "local-primitive" if ev in ("Evt1", "Evt7", "Evt8", "Evt9", "Evt11", "Evt14", "Evt15") else "other"
            viol.append({"key": "provider-crash|invalid-event|%s|%s|%s" % (fam, pr["pair"], name), "detail": "%s: %r" % (name, pr)})
        else:
            viol.append({"key": "provider-crash|%s|%s" % (pr["kind"], pr.get("action")), "detail": "%s: %r" % (name, pr)})
    for e in out["excs"]:
        if e["type"] == "InvalidEventError" and crashed:
            continue
        crashed = True
        viol.append({"key": "exception-escaped|%s|%s" % (e["type"], e["where"]), "detail": "%s: %r" % (name, e)})
    if out["user_exc"]:
        viol.append({"key": "api-call-raised|%s" % name, "detail": "%r" % out["user_exc"]})
    if crashed:
        return viol, term
    # ---- termination
    if not out["requestor_returned"] or not out["quiet"]:
        viol.append({"key": "not-terminated|%s" % name, "detail": "requestor_returned=%r threads=%r after %.1fs" % (out["requestor_returned"], out["stuck"], out["wall"])})
        return viol, term
    if req is None or acc is None:
        if scn.get("reject") and req is not None:
            pass
        else:
            viol.append({"key": "association-missing|%s" % name, "detail": "req=%r acc=%r" % (req, acc)})
            return viol, term
    for side, fl in (("req", req), ("acc", acc)):
        if fl is None:
            continue
        oc = side_outcome(fl)
        if len(oc) != 1:
            viol.append({"key": "outcome-count|%s|%s|%d" % (name, side, len(oc)), "detail": "%s: flags %r" % (name, fl)})
        if fl["established"]:
            viol.append({"key": "still-established|%s|%s" % (side, name), "detail": "%s: flags %r" % (name, fl)})
        if len(term[side]) != 1:
            viol.append({"key": "terminal-event-count|%s|%s|%s" % ("+".join(x[4:] for x in term[side]) or "none", name, side), "detail": "%s: terminal events %r, flags %r" % (name, term[side], fl)})
        elif oc and term[side][0] != "EVT_" + oc[0].upper():
            viol.append({"key": "terminal-event-differs-from-flag|%s|%s" % (side, name), "detail": "%s: event %s flags %r" % (name, term[side][0], fl)})
        if fl["fsm"] != "Sta1":
            viol.append({"key": "fsm-not-idle|%s|%s|%s" % (side, fl["fsm"], name), "detail": "%s: %r" % (name, fl)})
    if req is not None and acc is not None:
        pair = (tuple(side_outcome(req)), tuple(side_outcome(acc)))
        ok = pair in ((("released",), ("released",)), (("rejected",), ("rejected",)), (("aborted",), ("aborted",)))
        if pair == (("released",), ("released",)):
            counters["released_pairs"] = 1
        if pair == (("aborted",), ("aborted",)):
            counters["aborted_pairs"] = 1
        if pair == (("rejected",), ("rejected",)):
            counters["rejected_pairs"] = 1
        if not ok:
            viol.append({"key": "outcomes-disagree|%s|%s-vs-%s" % (name, "+".join(pair[0]) or "none", "+".join(pair[1]) or "none"),
                         "detail": "%s: requestor %r acceptor %r terminal events %r" % (name, req, acc, term)})
    if out["open_sockets"]:
        viol.append({"key": "socket-left-open|%s" % name, "detail": "%s: %d raw sockets open at the end" % (name, out["open_sockets"])})
    return viol, term


def run_case(case):
    scn = lifecycle.BY_NAME[case["scenario"]]
    counters = {"runs": 1}
    seed = rng_for(case["seed"], PID, case["scenario"], case["rep"]).getrandbits(32)
    out = lifecycle.run(scn, seed=seed, yields=YP if case["yields"] else None)
    counters["yield_hits"] = sum(out["yield_hits"].values())
    viol, term = check(scn, out, counters)
    inconclusive = None
    if any(v["key"].startswith("not-terminated") for v in viol):
        # stable-stack rule: only a parked thread is a violation
        parked = bool(out.get("parked_threads"))
        for (a, al, dl, s) in taps.assoc_threads():
            for th in ([a] if al else []) + ([a.dul] if dl else []):
                same, stack = taps.stable_block(th, 1.0)
                parked = parked or same
        if not parked:
            viol = [v for v in viol if not v["key"].startswith("not-terminated")]
            inconclusive = "watchdog fired but threads were moving"
    fsm_sig = [(e["side"], e["cur"], e["fsm_event"]) for e in out["history"] if e["name"] == "EVT_FSM_TRANSITION"][-8:]
    key = sha([case["scenario"], term, fsm_sig])
    sample = {"scenario": case["scenario"], "requestor": out["req"], "acceptor": out["acc"], "terminal_events": term,
              "statuses": out["statuses"], "wall_s": out["wall"], "yield_hits": counters["yield_hits"]}
    return {"key": key, "nontrivial": out["req"] is not None and out["acc"] is not None, "sample": sample, "violations": viol,
            "counters": counters, "inconclusive": inconclusive}
