"""C15 — DIMSE fragmentation respects the peer's maximum length and reassembles exactly.

Function-level part.  Every evaluation drives the REAL pynetdicom code:

    primitive (real dimse_primitives.*)  --primitive_to_message-->  real DIMSEMessage subclass
        --encode_msg(context_id, max)-->  P-DATA primitives  --decode_msg (fresh message)-->  bytes

Monitors, per evaluation (type, command-set variant, maximum, data length, backing):
  M1  for every yielded P-DATA, when max != 0: PDV-list length <= max.  The length is taken twice:
      from the real P_DATA_TF PDU built from the primitive (length field and len(encoded) - 6) and
      independently with struct (sum of 4 + 1 + 1 + len(fragment)); the two must agree.
  M2  control-header grammar: (0x01)* 0x03 then nothing or (0x00)* 0x02; every PDV carries the
      context id that was given; no P-DATA without PDVs.
  M3  reassembly: the fragments, regrouped as yielded / one PDV per P-DATA / all in one P-DATA /
      through a real P-DATA-TF encode+decode / random groupings, are fed to the REAL decode_msg of a
      fresh DIMSEMessage; command-set bytes, data-set bytes, message class and context id must be
      the originals; decode_msg must say "complete" exactly at the last P-DATA.  Independently the
      fragments are concatenated and compared as well.  For C-STORE-RQ the chunked *receive* path
      (STORE_RECV_CHUNKED_DATASET) is also used: the bytes after the written file-meta header
      must be the original data set.
  M4  a zero-length fragment is never sent for a non-empty part; an empty part gives either no
      fragment or exactly one empty fragment marked last.
  M5  DIMSEServiceProvider.maximum_pdu_size of an unstarted Association returns the PEER's
      advertised maximum (both modes, values set through the setter and through A-ASSOCIATE
      primitives); the real send_msg then fragments to that value (P-DATA taken from the DUL queue).
Only the fragmentation is judged here: CommandDataSetType = 0x0001 with an empty in-memory data
set (property C16) is counted, not flagged.
"""
import os
import shutil
import struct
import tempfile

from vlib.common import rng_for, sha

PID = "C15"
LEVEL = "exploration"
RULE = ("enumerated (message type x command-set variant x maximum x data length x backing): all 23 message "
        "types built from real primitives with seeded field values (UID lengths 1-64, optional fields, tag lists); "
        "maxima {0,7,8,9,10,16,128,16382,65536,2^32-1} plus maxima derived from the command-set length L "
        "(ceil(L/m)+6+d, m=1..4, d=-2..2) plus seeded random maxima; data lengths 0, 1 and m*k+d "
        "(k=max-6, m=1..4, d=-2..2); backings: none, in-memory, file at offset 0 (incl. empty file), file with "
        "128-byte preamble+DICM+file-meta header; distinct = (type, command length, max, data length, backing); "
        "non-trivial = limited maximum and some part split into >= 2 fragments")
ASSUMPTIONS = [
    "the 'original' command-set bytes are pynetdicom.dsutils.encode(msg.command_set) taken before encode_msg (command-set encoding itself is C17's subject)",
    "maxima 1..6 are outside the quantifier (0 or >= 7) and are skipped",
    "for maximum 2^32-1 (and other maxima above 2^20) multiples of the fragment size are not reachable in memory; only single-fragment lengths are driven there",
    "file-backed data sets are attached the way Association.send_c_store does it: primitive._dataset_path = (path, offset), data-set parameter None",
    "an empty file-backed data set yielding one empty last fragment is accepted (the receiver completes the message); an empty in-memory data set yields no fragment",
]
WORKERS = {"quick": 16, "thorough": 16}

MAXIMA = [0, 7, 8, 9, 10, 16, 128, 16382, 65536, 2 ** 32 - 1]
MSG_TYPES = [
    "C_STORE_RQ", "C_STORE_RSP", "C_ECHO_RQ", "C_ECHO_RSP", "C_FIND_RQ", "C_FIND_RSP", "C_GET_RQ", "C_GET_RSP",
    "C_MOVE_RQ", "C_MOVE_RSP", "C_CANCEL_RQ", "N_EVENT_REPORT_RQ", "N_EVENT_REPORT_RSP", "N_SET_RQ", "N_SET_RSP",
    "N_GET_RQ", "N_GET_RSP", "N_ACTION_RQ", "N_ACTION_RSP", "N_CREATE_RQ", "N_CREATE_RSP", "N_DELETE_RQ",
    "N_DELETE_RSP",
]
# PS3.7 9.3 / 10.3: which messages may carry a data set, and the primitive parameter holding it
DATASET_PARAM = {
    "C_STORE_RQ": "DataSet", "C_FIND_RQ": "Identifier", "C_GET_RQ": "Identifier", "C_MOVE_RQ": "Identifier",
    "C_FIND_RSP": "Identifier", "C_GET_RSP": "Identifier", "C_MOVE_RSP": "Identifier",
    "N_EVENT_REPORT_RQ": "EventInformation", "N_EVENT_REPORT_RSP": "EventReply", "N_GET_RSP": "AttributeList",
    "N_SET_RQ": "ModificationList", "N_SET_RSP": "AttributeList", "N_ACTION_RQ": "ActionInformation",
    "N_ACTION_RSP": "ActionReply", "N_CREATE_RQ": "AttributeList", "N_CREATE_RSP": "AttributeList",
}
DS_TYPES = [t for t in MSG_TYPES if t in DATASET_PARAM]
BIG_K = 1 << 20

REQUIRE = {
    "evaluations": 5000,
    "max_unlimited": 100, "max_eq_7": 100, "max_eq_2p32m1": 50,
    "pdata_checked_against_max": 50000,
    "pdv_list_len_eq_max": 2000,
    "cmd_exact_multiple": 200, "cmd_multiple_plus_small": 200, "cmd_multiple_minus_small": 100,
    "cmd_multi_fragment": 2000,
    "data_mem_len0": 20, "data_mem_len1": 20, "data_file_len0": 20, "data_file_len1": 20,
    "data_mem_exact_multiple": 300, "data_file_exact_multiple": 300,
    "data_mem_multiple_plus1": 200, "data_file_multiple_plus1": 200,
    "data_mem_multiple_minus1": 200, "data_file_multiple_minus1": 200,
    "data_file_exact_multiple_m4": 30, "data_mem_exact_multiple_m4": 30,
    "file_dcm_header_skipped": 300, "file_raw": 300, "file_empty": 20,
    "decode_runs": 20000, "decode_random_groupings": 5000, "decode_via_wire_pdu": 3000,
    "decode_chunked_recv": 50,
    "split_dataset_offset_checked": 200,
    "maxpdu_property_checks": 40, "maxpdu_send_discriminating": 10,
}
REQUIRE.update({"type_" + t: 50 for t in MSG_TYPES})


# ---------------------------------------------------------------------------- generation

def _data_lengths(mx):
    if mx == 0:
        return [0, 1, 2, 7, 8, 9, 100, 4096, 65531, 200003]
    k = mx - 6
    if k > BIG_K:
        return [0, 1, 2, 9, 1000, 65536, 300001]
    s = {0, 1}
    for m in range(1, 5):
        for d in range(-2, 3):
            if m * k + d >= 0:
                s.add(m * k + d)
    return sorted(s)


def gen_cases(tier, seed):
    quick = tier == "quick"
    rng = rng_for(seed, PID, "gen", tier)
    specs = []

    def add(t, mx, dl, b, kind):
        specs.append({"t": t, "cv": rng.randrange(1 << 30), "max": mx, "dl": dl, "b": b, "rs": rng.randrange(1 << 30),
                      "kind": kind})

    # A: data-length grid around multiples of the fragment size
    reps = 4 if quick else 12
    rot = 0
    for rep in range(reps):
        for mx in MAXIMA:
            small = mx != 0 and mx - 6 <= 122
            for dl in _data_lengths(mx):
                mem_types = DS_TYPES if small else [DS_TYPES[(rot + i) % len(DS_TYPES)] for i in range(3)]
                for t in mem_types:
                    add(t, mx, dl, "mem", "grid")
                n_other = 3 if small else 1
                for b in ("file_raw", "file_dcm"):
                    add("C_STORE_RQ", mx, dl, b, "grid")
                    for i in range(n_other):
                        add(DS_TYPES[(rot + 5 + i) % len(DS_TYPES)], mx, dl, b, "grid")
                rot += 1
    # B: command-set grid — maxima derived from the command-set length, and the fixed maxima
    cvars = 8 if quick else 32
    for t in MSG_TYPES:
        for v in range(cvars):
            for m in range(1, 5):
                for d in range(-2, 3):
                    b = "none" if t not in DATASET_PARAM else rng.choice(["none", "mem", "file_raw", "file_dcm"])
                    add(t, {"cmd_m": m, "d": d}, {"m": rng.randint(0, 3), "d": rng.randint(-2, 2)}, b, "cmdgrid")
            for mx in MAXIMA:
                add(t, mx, 0, "none", "cmdfixed")
    # C: seeded random
    nrand = 14000 if quick else 150000
    for _ in range(nrand):
        t = rng.choice(MSG_TYPES)
        r = rng.random()
        if r < 0.45:
            mx = rng.randint(7, 40)
        elif r < 0.8:
            mx = rng.randint(41, 2000)
        elif r < 0.9:
            mx = rng.randint(2001, 70000)
        elif r < 0.95:
            mx = int(2 ** rng.uniform(17, 32)) - 1
        else:
            mx = rng.choice(MAXIMA)
        k = mx - 6
        if mx == 0 or k > 70000:
            dl = rng.choice([0, 1, rng.randint(2, 5000)])
        elif rng.random() < 0.6:
            dl = max(0, rng.randint(0, 6 if k < 2000 else 2) * k + rng.randint(-2, 2))
        else:
            dl = rng.randint(0, 6 * k if k < 2000 else 3 * k)
        b = "none" if t not in DATASET_PARAM else rng.choice(["none", "mem", "mem", "file_raw", "file_dcm"])
        add(t, mx, dl, b, "random")
    # de-duplicate, shuffle (load balance), block
    seen, uniq = set(), []
    for s in specs:
        key = (s["t"], repr(s["max"]), repr(s["dl"]), s["b"], s["cv"])
        if key not in seen:
            seen.add(key)
            uniq.append(s)
    rng.shuffle(uniq)
    per = 150 if quick else 400
    cases = [{"seed": seed, "block": i // per, "specs": uniq[i:i + per]} for i in range(0, len(uniq), per)]
    # M5 cases
    pairs = [(7, 8), (8, 7), (16382, 65536), (65536, 16382), (0, 100), (100, 0), (128, 2 ** 32 - 1), (2 ** 32 - 1, 128),
             (16382, 16382)]
    for _ in range(6 if quick else 40):
        a, b = rng.randint(7, 5000), rng.randint(7, 5000)
        pairs.append((a, b))
    mp = [{"rq": a, "ac": b, "dl": rng.choice([0, 1, 50, 700, 9000]), "rs": rng.randrange(1 << 30)} for a, b in pairs]
    for i in range(0, len(mp), 4):
        cases.append({"seed": seed, "block": "maxpdu%d" % (i // 4), "maxpdu": mp[i:i + 4]})
    return cases


# ---------------------------------------------------------------------------- builders (workload side)

def _uid(rng, n):
    s = "1"
    while len(s) < n:
        if n - len(s) >= 2 and rng.random() < 0.35:
            s += "." + rng.choice("123456789")
        else:
            s += rng.choice("0123456789")
    return s


def _text(rng, n):
    return "".join(rng.choice("ABCDEFGHIJKLMNOPQRSTUVWXYZ0123456789") for _ in range(n))


def _tags(rng, n):
    return [(rng.choice([0x0008, 0x0010, 0x0020, 0x0028, 0x7FE0]) << 16) | rng.randrange(0x10000) for _ in range(n)]


_FIELDS = [
    # keyword, mandatory?, value generator
    ("AffectedSOPClassUID", True, lambda r: _uid(r, r.randint(1, 64))),
    ("RequestedSOPClassUID", True, lambda r: _uid(r, r.randint(1, 64))),
    ("AffectedSOPInstanceUID", None, lambda r: _uid(r, r.randint(1, 64))),
    ("RequestedSOPInstanceUID", True, lambda r: _uid(r, r.randint(1, 64))),
    ("Priority", True, lambda r: r.choice([0, 1, 2])),
    ("Status", True, lambda r: r.choice([0x0000, 0xFF00, 0xFF01, 0xA700, 0xC000, 0x0107, 0xB000])),
    ("MoveOriginatorApplicationEntityTitle", False, lambda r: _text(r, r.randint(1, 16))),
    ("MoveOriginatorMessageID", False, lambda r: r.randrange(65536)),
    ("MoveDestination", True, lambda r: _text(r, r.randint(1, 16))),
    ("OffendingElement", False, lambda r: _tags(r, r.randint(1, 6))),
    ("ErrorComment", False, lambda r: _text(r, r.randint(1, 64))),
    ("NumberOfRemainingSuboperations", False, lambda r: r.randrange(65536)),
    ("NumberOfCompletedSuboperations", False, lambda r: r.randrange(65536)),
    ("NumberOfFailedSuboperations", False, lambda r: r.randrange(65536)),
    ("NumberOfWarningSuboperations", False, lambda r: r.randrange(65536)),
    ("EventTypeID", True, lambda r: r.randrange(65536)),
    ("ActionTypeID", True, lambda r: r.randrange(65536)),
    ("ErrorID", False, lambda r: r.randrange(65536)),
    ("AttributeIdentifierList", False, lambda r: _tags(r, r.randint(1, 60))),
]


def build_primitive(t, cv, counters):
    """A real DIMSE primitive for message type `t` with seeded field values."""
    from pynetdicom import dimse_primitives as dp
    rng = rng_for(cv, PID, "cmd", t)
    prim = getattr(dp, t.rsplit("_", 1)[0])()
    is_rsp = t.endswith("_RSP") or t == "C_CANCEL_RQ"
    mid = rng.choice([0, 1, 255, 256, 65535, rng.randrange(65536)])
    if is_rsp:
        prim.MessageIDBeingRespondedTo = mid
    else:
        prim.MessageID = mid
    for kw, mand, g in _FIELDS:
        if not hasattr(prim, kw):
            continue
        if mand is None:
            mand = t in ("C_STORE_RQ", "C_STORE_RSP") or t.startswith("N_EVENT") or rng.random() < 0.5
        if not mand and rng.random() < 0.45:
            continue
        try:
            setattr(prim, kw, g(rng))
        except Exception:
            counters["field_rejected_by_setter"] = counters.get("field_rejected_by_setter", 0) + 1
    return prim


def build_message(t, prim):
    from pynetdicom import dimse_messages as dm
    msg = getattr(dm, t)()
    msg.primitive_to_message(prim)
    return msg


def _file_meta(rng):
    """Explicit VR little endian group 0002 with group length; independent of pynetdicom."""
    def el(tag, vr, val):
        if len(val) % 2:
            val += b"\x00" if vr == b"UI" or vr == b"OB" else b" "
        g, e = tag >> 16, tag & 0xFFFF
        if vr in (b"OB",):
            return struct.pack("<HH2sHI", g, e, vr, 0, len(val)) + val
        return struct.pack("<HH2sH", g, e, vr, len(val)) + val
    body = el(0x00020001, b"OB", b"\x00\x01")
    body += el(0x00020002, b"UI", _uid(rng, rng.randint(5, 64)).encode())
    body += el(0x00020003, b"UI", _uid(rng, rng.randint(5, 64)).encode())
    body += el(0x00020010, b"UI", b"1.2.840.10008.1.2")
    body += el(0x00020012, b"UI", _uid(rng, rng.randint(5, 40)).encode())
    if rng.random() < 0.6:
        body += el(0x00020013, b"SH", _text(rng, rng.randint(1, 16)).encode())
    return struct.pack("<HH2sHI", 2, 0, b"UL", 4, len(body)) + body


def make_data(rng, n, dcm):
    data = rng.randbytes(n)
    if n >= 2 and data[:2] in (b"\x02\x00", b"\x00\x00"):
        data = b"\x08\x00" + data[2:]
    if dcm and n >= 8:
        # looks like the first element of an implicit VR data set: (0008,0005) length 10
        data = b"\x08\x00\x05\x00\x0a\x00\x00\x00" + data[8:]
    return data


# ---------------------------------------------------------------------------- monitors

def _pdv_list_bytes(pdvl):
    """PS3.8 9.3.5.1 PDV items: 4-byte length, 1-byte context id, value (control header + fragment)."""
    return b"".join(struct.pack(">IB", len(d) + 1, cid) + d for cid, d in pdvl)


def _bump(c, k, n=1):
    c[k] = c.get(k, 0) + n


def _group(flat, sizes):
    out, i = [], 0
    for s in sizes:
        out.append(flat[i:i + s])
        i += s
    return out


def _mk_pdata(pdvs):
    from pynetdicom.pdu_primitives import P_DATA
    p = P_DATA()
    p.presentation_data_value_list.extend(pdvs)
    return p


def _decode_and_compare(name, groups, ctx, t, orig_cmd, orig_data, expect_complete, tag, viol, counters,
                        chunked_assoc=None, prebuilt=None):
    """Feed `groups` (list of PDV lists) to the REAL decode_msg of a fresh message."""
    from pynetdicom import dimse_messages as dm, _config
    from pynetdicom.dsutils import encode
    fresh = dm.DIMSEMessage()
    _bump(counters, "decode_runs")
    prims = prebuilt if prebuilt is not None else [_mk_pdata(g) for g in groups]
    saved = _config.STORE_RECV_CHUNKED_DATASET
    if chunked_assoc is not None:
        _config.STORE_RECV_CHUNKED_DATASET = True
    rets = []
    try:
        try:
            for p in prims:
                rets.append(bool(fresh.decode_msg(p, chunked_assoc)))
        finally:
            _config.STORE_RECV_CHUNKED_DATASET = saved
    except Exception as exc:
        viol.append({"key": "decode-raises|%s|%s|%s" % (name, tag, type(exc).__name__),
                     "detail": "decode_msg raised %r after %d P-DATA" % (exc, len(rets))})
        _cleanup_chunked(fresh)
        return
    try:
        if any(rets[:-1]):
            viol.append({"key": "decode-complete-early|%s|%s" % (name, tag),
                         "detail": "decode_msg returned True at P-DATA %d of %d" % (rets.index(True) + 1, len(rets))})
            return
        if expect_complete and not (rets and rets[-1]):
            viol.append({"key": "decode-never-complete|%s|%s" % (name, tag),
                         "detail": "decode_msg returned %r for the last P-DATA (%d P-DATA)" % (rets[-1:] , len(rets))})
            return
        got_cmd = fresh.encoded_command_set.getvalue()
        if got_cmd != orig_cmd:
            viol.append({"key": "reassembly-differs|cmd|%s|%s" % (name, tag),
                         "detail": "command set reassembled to %d bytes, original %d bytes; first diff at %d" % (
                             len(got_cmd), len(orig_cmd), _first_diff(got_cmd, orig_cmd))})
        if not expect_complete:
            return
        if chunked_assoc is not None and fresh._data_set_file is not None:
            fresh._data_set_file.close()
            raw = open(fresh._data_set_path, "rb").read()
            off = _ref_offset(raw)
            got_data = raw[off:]
            _bump(counters, "decode_chunked_recv")
        else:
            got_data = fresh.data_set.getvalue() if fresh.data_set is not None else None
        if got_data != orig_data:
            viol.append({"key": "reassembly-differs|data|%s|%s" % (name, tag),
                         "detail": "data set reassembled to %s bytes, original %d bytes; first diff at %d" % (
                             None if got_data is None else len(got_data), len(orig_data),
                             _first_diff(got_data or b"", orig_data))})
        if fresh.__class__.__name__ != t:
            viol.append({"key": "decoded-class-differs|%s" % tag, "detail": "%s != %s" % (fresh.__class__.__name__, t)})
        if fresh.context_id != ctx:
            viol.append({"key": "decoded-context-id-differs|%s" % tag, "detail": "%r != %r" % (fresh.context_id, ctx)})
        if encode(fresh.command_set, True, True) != orig_cmd:
            viol.append({"key": "decoded-command-set-reencodes-differently|%s" % tag,
                         "detail": "decoded command_set does not re-encode to the original bytes"})
    finally:
        _cleanup_chunked(fresh)


def _cleanup_chunked(fresh):
    f = getattr(fresh, "_data_set_file", None)
    if f is not None:
        try:
            f.close()
        except Exception:
            pass
        try:
            os.unlink(f.name)
        except OSError:
            pass


def _ref_offset(raw):
    """Offset of the data set in a DICOM file: 128 preamble, 'DICM', group 0002 (length from (0002,0000))."""
    if raw[128:132] != b"DICM":
        return 0
    g, e, vr, ln, val = struct.unpack("<HH2sHI", raw[132:144])
    if (g, e, vr, ln) != (2, 0, b"UL", 4):
        raise ValueError("no file meta group length")
    return 144 + val


def _first_diff(a, b):
    n = min(len(a), len(b))
    for i in range(n):
        if a[i] != b[i]:
            return i
    return n


_CHUNK_ASSOC = []


def _chunk_assoc(ctx):
    """Unstarted real Association whose accepted contexts contain `ctx` (what decode_msg consults)."""
    from pynetdicom import AE, build_context
    from pynetdicom.association import Association
    if not _CHUNK_ASSOC:
        _CHUNK_ASSOC.append(Association(AE(), "acceptor"))
    a = _CHUNK_ASSOC[0]
    cx = build_context("1.2.840.10008.5.1.4.1.1.2", "1.2.840.10008.1.2")
    cx.context_id = ctx
    a._accepted_cx = {ctx: cx}
    return a


def run_spec(spec, tmpdir, counters, distinct):
    from pathlib import Path
    from io import BytesIO
    from pynetdicom.dsutils import encode
    from pynetdicom.pdu import P_DATA_TF

    viol = []
    t, b = spec["t"], spec["b"]
    if t not in DATASET_PARAM:
        b = "none"
    rng = rng_for(spec["rs"], PID, "run")
    ctx = rng.choice([1, 3, 5, 127, 253, 255, 2 * rng.randrange(128) + 1])

    prim = build_primitive(t, spec["cv"], counters)
    msg0 = build_message(t, prim)
    L = len(encode(msg0.command_set, True, True))

    mx = spec["max"]
    if isinstance(mx, dict):
        mx = -(-L // mx["cmd_m"]) + 6 + mx["d"]
    if 0 < mx < 7 or mx < 0 or mx > 2 ** 32 - 1:
        _bump(counters, "skipped_max_outside_quantifier")
        return viol, None
    k = mx - 6 if mx else None
    dl = spec["dl"]
    if isinstance(dl, dict):
        dl = max(0, dl["m"] * (k if (k and k <= 70000) else 1000) + dl["d"])
    if b == "none":
        dl = 0
    part_b = {"none": "none", "mem": "mem", "file_raw": "file", "file_dcm": "file"}[b]
    tag = "%s|%s" % (part_b, "unlimited" if mx == 0 else "limited")

    # ---- attach the data set
    data = make_data(rng, dl, b == "file_dcm") if b != "none" else b""
    if b == "mem":
        setattr(prim, DATASET_PARAM[t], BytesIO(data))
    elif b in ("file_raw", "file_dcm"):
        path = Path(tmpdir) / ("ds_%d.dcm" % counters.get("evaluations", 0))
        header = b""
        if b == "file_dcm":
            header = rng.randbytes(128) + b"DICM" + _file_meta(rng)
        with open(path, "wb") as f:
            f.write(header + data)
        offset = len(header)
        if b == "file_dcm":
            _bump(counters, "file_dcm_header_skipped")
            if dl == 0 or dl >= 8:
                # the REAL helper send_c_store uses to find the offset
                from pynetdicom.dsutils import split_dataset
                _bump(counters, "split_dataset_offset_checked")
                try:
                    _, off_real = split_dataset(path)
                except Exception as exc:
                    viol.append({"key": "split-dataset-raises|%s" % type(exc).__name__, "detail": repr(exc)})
                    off_real = offset
                if off_real != offset:
                    viol.append({"key": "split-dataset-offset-differs",
                                 "detail": "split_dataset gave %d, header is %d bytes (data %d bytes)" % (off_real, offset, dl)})
                offset_used = off_real
            else:
                _bump(counters, "split_dataset_skipped_short_dataset")
                offset_used = offset
        else:
            _bump(counters, "file_raw")
            offset_used = 0
        if dl == 0:
            _bump(counters, "file_empty")
        prim._dataset_path = (path, offset_used)
    msg = build_message(t, prim)
    orig_cmd = encode(msg.command_set, True, True)
    if len(orig_cmd) != L:
        viol.append({"key": "harness|command-length-changed", "detail": "%d -> %d" % (L, len(orig_cmd))})
    flag = msg.command_set.CommandDataSetType
    if b == "mem" and msg.data_set is None or b.startswith("file") and (msg.data_set is not None or msg._data_set_path is None):
        return [{"key": "harness|backing-not-attached", "detail": "%s %s" % (t, b)}], None

    # ---- drive the REAL encode_msg
    _bump(counters, "evaluations")
    _bump(counters, "type_" + t)
    _bump(counters, "max_unlimited" if mx == 0 else "max_eq_7" if mx == 7 else "max_eq_2p32m1" if mx == 2 ** 32 - 1 else "max_other")
    try:
        pdatas = list(msg.encode_msg(ctx, mx))
    except Exception as exc:
        viol.append({"key": "encode-raises|%s|%s" % (tag, type(exc).__name__),
                     "detail": "encode_msg(%d, %d) raised %r: %s L=%d data=%d (%s)" % (ctx, mx, exc, t, L, dl, b)})
        return viol, None
    distinct.add((t, L, mx, dl, b))
    where = "%s L=%d max=%d data=%d backing=%s ctx=%d cv=%d" % (t, L, mx, dl, b, ctx, spec["cv"])

    # ---- boundary bookkeeping
    if k:
        if L % k == 0:
            _bump(counters, "cmd_exact_multiple")
        elif L % k <= 2:
            _bump(counters, "cmd_multiple_plus_small")
        elif k - L % k <= 2:
            _bump(counters, "cmd_multiple_minus_small")
        if L > k:
            _bump(counters, "cmd_multi_fragment")
        if part_b != "none":
            pre = "data_%s_" % part_b
            if dl <= 1:
                _bump(counters, pre + "len%d" % dl)
            if dl and k <= BIG_K:
                if dl % k == 0:
                    _bump(counters, pre + "exact_multiple")
                    if dl // k >= 4:
                        _bump(counters, pre + "exact_multiple_m4")
                elif dl % k == 1 and dl > k:
                    _bump(counters, pre + "multiple_plus1")
                elif dl % k == k - 1 and k > 2:
                    _bump(counters, pre + "multiple_minus1")
    elif part_b != "none" and dl <= 1:
        _bump(counters, "data_%s_len%d" % (part_b, dl))

    # ---- M1 / M2 / M4 on what was yielded
    flat = []
    for i, p in enumerate(pdatas):
        pdvl = list(p.presentation_data_value_list)
        if not pdvl:
            viol.append({"key": "empty-pdata|%s" % tag, "detail": "P-DATA #%d has no PDV; %s" % (i, where)})
            continue
        ref_bytes = _pdv_list_bytes(pdvl)
        ref_len = sum(4 + 1 + 1 + (len(d) - 1) for _, d in pdvl)
        assert ref_len == len(ref_bytes)
        pdu = P_DATA_TF()
        pdu.from_primitive(p)
        enc = pdu.encode()
        real_len = len(enc) - 6
        field_len = struct.unpack(">I", enc[2:6])[0]
        if not (real_len == field_len == ref_len == pdu.pdu_length) or enc[6:] != ref_bytes:
            viol.append({"key": "pdv-list-length-disagree|%s" % tag,
                         "detail": "P_DATA_TF: encoded %d, length field %d, pdu_length %d; struct reference %d; %s" % (
                             real_len, field_len, pdu.pdu_length, ref_len, where)})
        if mx:
            _bump(counters, "pdata_checked_against_max")
            part = "cmd" if pdvl[0][1][:1] and pdvl[0][1][0] & 1 else "data"
            if ref_len > mx or real_len > mx:
                viol.append({"key": "pdv-list-exceeds-max|%s|%s" % (part, tag),
                             "detail": "P-DATA #%d PDV list is %d bytes (P_DATA_TF says %d) > max %d; %s" % (
                                 i, ref_len, real_len, mx, where)})
            elif ref_len == mx:
                _bump(counters, "pdv_list_len_eq_max")
        flat.extend(pdvl)

    hdrs = []
    for j, (cid, d) in enumerate(flat):
        if cid != ctx:
            viol.append({"key": "context-id-differs|%s" % tag, "detail": "PDV #%d context id %r != %d; %s" % (j, cid, ctx, where)})
        if len(d) == 0:
            viol.append({"key": "pdv-without-control-header|%s" % tag, "detail": "PDV #%d is empty; %s" % (j, where)})
            hdrs.append(None)
            continue
        hdrs.append(d[0])
    if None in hdrs:
        return viol, None
    if any(h > 3 for h in hdrs):
        viol.append({"key": "control-header-reserved-bits|%s" % tag, "detail": "headers %r; %s" % (sorted(set(hdrs)), where)})
    n_cmd = sum(1 for h in hdrs if h & 1)
    cmd_h, data_h = hdrs[:n_cmd], hdrs[n_cmd:]
    if any(h & 1 for h in data_h) or not all(h & 1 for h in cmd_h):
        viol.append({"key": "order|data-fragment-before-command-fragment|%s" % tag,
                     "detail": "control headers %r; %s" % (_rle(hdrs), where)})
    else:
        for part, hs in (("cmd", cmd_h), ("data", data_h)):
            if not hs:
                continue
            if any(h & 2 for h in hs[:-1]):
                viol.append({"key": "last-bit|set-on-non-last|%s|%s" % (part, tag),
                             "detail": "control headers %r; %s" % (_rle(hdrs), where)})
            if not hs[-1] & 2:
                viol.append({"key": "last-bit|missing-on-last|%s|%s" % (part, tag),
                             "detail": "control headers %r; %s" % (_rle(hdrs), where)})
        if not cmd_h:
            viol.append({"key": "no-command-fragment|%s" % tag, "detail": where})
    # M4
    for part, lo, hi, total in (("cmd", 0, n_cmd, L), ("data", n_cmd, len(flat), dl)):
        zero = [j for j in range(lo, hi) if len(flat[j][1]) == 1]
        if zero and (total > 0 or hi - lo > 1):
            viol.append({"key": "zero-length-fragment|%s|%s" % (part, tag),
                         "detail": "%d zero-length fragment(s) (first at PDV #%d of %d) for a %d-byte part; %s" % (
                             len(zero), zero[0], len(flat), total, where)})
        elif zero:
            _bump(counters, "empty_part_single_empty_last_fragment_" + part_b)
    if part_b != "none" and dl == 0 and not data_h:
        _bump(counters, "empty_part_no_fragment_" + part_b)
    if dl > 0 and not data_h:
        viol.append({"key": "data-set-not-sent|%s" % tag, "detail": where})
    if part_b == "none" and data_h:
        viol.append({"key": "data-fragments-without-data-set|%s" % tag, "detail": where})

    # independent reassembly by concatenation
    cat_cmd = b"".join(d[1:] for _, d in flat if d[0] & 1)
    cat_data = b"".join(d[1:] for _, d in flat if not d[0] & 1)
    if cat_cmd != orig_cmd:
        viol.append({"key": "reassembly-differs|cmd|concat|%s" % tag,
                     "detail": "concatenated command fragments: %d bytes, original %d, first diff at %d; %s" % (
                         len(cat_cmd), len(orig_cmd), _first_diff(cat_cmd, orig_cmd), where)})
    if cat_data != data:
        viol.append({"key": "reassembly-differs|data|concat|%s" % tag,
                     "detail": "concatenated data fragments: %d bytes, original %d, first diff at %d; %s" % (
                         len(cat_data), len(data), _first_diff(cat_data, data), where)})

    # ---- M3: REAL decode_msg under regroupings
    expect_complete = True
    if flag != 0x0101 and not data_h:
        # CommandDataSetType says "data set present" but none was sent: C16's subject
        _bump(counters, "c16_flag_set_without_data_fragments")
        expect_complete = False
    if flag == 0x0101 and data_h:
        viol.append({"key": "data-fragments-but-flag-says-none|%s" % tag, "detail": where})
    n = len(flat)
    if flat and not viol:
        dv = []
        _decode_and_compare("as-yielded", None, ctx, t, orig_cmd, data, expect_complete, tag, dv, counters, prebuilt=pdatas)
        _decode_and_compare("one-per-pdata", [[x] for x in flat], ctx, t, orig_cmd, data, expect_complete, tag, dv, counters)
        _decode_and_compare("all-in-one", [flat], ctx, t, orig_cmd, data, expect_complete, tag, dv, counters)
        # through real P-DATA-TF PDUs: encode each group, decode with the real PDU class, to_primitive
        sizes = _rand_sizes(rng, n, 3)
        wire = []
        for g in _group(flat, sizes):
            pdu = P_DATA_TF()
            pdu.from_primitive(_mk_pdata(g))
            q = P_DATA_TF()
            q.decode(pdu.encode())
            wire.append(q.to_primitive())
        _bump(counters, "decode_via_wire_pdu")
        _decode_and_compare("wire-pdu", None, ctx, t, orig_cmd, data, expect_complete, tag, dv, counters, prebuilt=wire)
        for r in range(2 if n <= 400 else 1):
            sizes = _rand_sizes(rng, n, rng.choice([2, 4, 9, max(2, n)]))
            _bump(counters, "decode_random_groupings")
            _decode_and_compare("random-grouping", _group(flat, sizes), ctx, t, orig_cmd, data, expect_complete, tag, dv, counters)
        if t == "C_STORE_RQ" and data_h and getattr(prim, "AffectedSOPInstanceUID", None) and spec["rs"] % 3 == 0:
            _decode_and_compare("chunked-recv", _group(flat, _rand_sizes(rng, n, 3)), ctx, t, orig_cmd, data,
                                expect_complete, tag, dv, counters, chunked_assoc=_chunk_assoc(ctx))
        for v in dv:
            v["detail"] += "; " + where
        viol.extend(dv)

    nontrivial = bool(mx and (len(cmd_h) >= 2 or len(data_h) >= 2))
    obs = {"type": t, "cmd_len": L, "max": mx, "data_len": dl, "backing": b, "pdatas": len(pdatas),
           "cmd_fragments": len(cmd_h), "data_fragments": len(data_h), "nontrivial": nontrivial}
    return viol, obs


def _rle(hs):
    out = []
    for h in hs:
        if out and out[-1][0] == h:
            out[-1][1] += 1
        else:
            out.append([h, 1])
    return out[:12]


def _rand_sizes(rng, n, hi):
    sizes, left = [], n
    while left > 0:
        s = min(left, rng.randint(1, max(1, hi)))
        sizes.append(s)
        left -= s
    return sizes


# ---------------------------------------------------------------------------- M5

def run_maxpdu(item, counters):
    """maximum_pdu_size of an unstarted Association must be the peer's advertised maximum."""
    from io import BytesIO
    from pynetdicom import AE
    from pynetdicom.association import Association
    from pynetdicom.pdu_primitives import A_ASSOCIATE, MaximumLengthNotification, P_DATA
    from pynetdicom.dimse_primitives import C_STORE, C_ECHO
    viol = []
    a, b, dl = item["rq"], item["ac"], item["dl"]
    rng = rng_for(item["rs"], PID, "maxpdu")
    for mode in ("requestor", "acceptor"):
        peer, own = (b, a) if mode == "requestor" else (a, b)
        for how in ("setter", "primitive"):
            assoc = Association(AE(), mode)
            if how == "setter":
                assoc.requestor.maximum_length = a
                assoc.acceptor.maximum_length = b
            else:
                for user, val in ((assoc.requestor, a), (assoc.acceptor, b)):
                    p = A_ASSOCIATE()
                    it = MaximumLengthNotification()
                    it.maximum_length_received = val
                    p.user_information = [it]
                    user.primitive = p
            if assoc.requestor.maximum_length != a or assoc.acceptor.maximum_length != b:
                viol.append({"key": "harness|maximum-length-not-stored|%s" % how,
                             "detail": "%r/%r != %r/%r" % (assoc.requestor.maximum_length, assoc.acceptor.maximum_length, a, b)})
                continue
            got = assoc.dimse.maximum_pdu_size
            _bump(counters, "maxpdu_property_checks")
            if got != peer:
                viol.append({"key": "maximum-pdu-size|not-the-peers-maximum|%s" % mode,
                             "detail": "mode=%s requestor advertises %d, acceptor advertises %d (%s): maximum_pdu_size=%r, peer's is %d" % (
                                 mode, a, b, how, got, peer)})
            # the real send path minus sockets: send_msg -> encode_msg(maximum_pdu_size) -> dul.send_pdu (queue)
            if dl:
                prim = C_STORE()
                prim.MessageID = 1
                prim.AffectedSOPClassUID = "1.2.840.10008.5.1.4.1.1.2"
                prim.AffectedSOPInstanceUID = "1.2.3.4"
                prim.Priority = 2
                prim.DataSet = BytesIO(rng.randbytes(dl))
            else:
                prim = C_ECHO()
                prim.MessageID = 1
                prim.AffectedSOPClassUID = "1.2.840.10008.1.1"
            try:
                assoc.dimse.send_msg(prim, 1)
            except Exception as exc:
                viol.append({"key": "send-msg-raises|%s" % type(exc).__name__, "detail": "%r (mode %s, %d/%d)" % (exc, mode, a, b)})
                continue
            q = assoc.dul.to_provider_queue
            lens = []
            while not q.empty():
                p = q.get_nowait()
                if isinstance(p, P_DATA):
                    lens.append(len(_pdv_list_bytes(p.presentation_data_value_list)))
            _bump(counters, "maxpdu_send_pdata", len(lens))
            total = sum(lens)
            if peer and (own == 0 or own > peer) and total > peer:
                _bump(counters, "maxpdu_send_discriminating")
            if peer and lens and max(lens) > peer:
                viol.append({"key": "send-msg|pdv-list-exceeds-peers-maximum|%s" % mode,
                             "detail": "mode=%s requestor advertises %d, acceptor advertises %d: send_msg queued a P-DATA with a %d-byte PDV list > peer's %d" % (
                                 mode, a, b, max(lens), peer)})
    return viol


# ---------------------------------------------------------------------------- framework entry points

def setup_worker():
    import logging
    logging.disable(logging.CRITICAL)


def run_case(case):
    counters = {}
    viols = []
    distinct = set()
    sample = None
    ntriv = set()
    if "maxpdu" in case:
        for item in case["maxpdu"]:
            for v in run_maxpdu(item, counters):
                if not any(v["key"] == w["key"] for w in viols):
                    viols.append(v)
        return {"key": sha(case["maxpdu"]), "nontrivial": True, "sample": {"maxpdu": case["maxpdu"]},
                "violations": viols, "counters": counters, "inconclusive": None}
    tmpdir = tempfile.mkdtemp(prefix="c15_")
    try:
        for spec in case["specs"]:
            v, obs = run_spec(spec, tmpdir, counters, distinct)
            for x in v:
                if not any(x["key"] == w["key"] for w in viols):
                    x["detail"] += " :: spec=%r" % (spec,)
                    viols.append(x)
            if obs and obs["nontrivial"]:
                ntriv.add((obs["type"], obs["cmd_len"], obs["max"], obs["data_len"], obs["backing"]))
                if sample is None and obs["data_fragments"] >= 2:
                    sample = obs
            # keep the temp dir small
            for fn in os.listdir(tmpdir):
                try:
                    os.unlink(os.path.join(tmpdir, fn))
                except OSError:
                    pass
    finally:
        shutil.rmtree(tmpdir, ignore_errors=True)
    counters["distinct_evaluations"] = len(distinct)
    counters["distinct_nontrivial_evaluations"] = len(ntriv)
    return {"key": sha(sorted(ntriv)), "nontrivial": bool(ntriv), "sample": sample, "violations": viols,
            "counters": counters, "inconclusive": None}


def extra_evidence(tier, results):
    n = sum(r.get("counters", {}).get("distinct_nontrivial_evaluations", 0) for r in results.values())
    return {"distinct_nontrivial": n,
            "note": "distinct_nontrivial counts (type, command length, max, data length, backing) tuples with a limited "
                    "maximum and >= 2 fragments in some part, per-block distinct sets summed (specs are de-duplicated "
                    "at generation)"}
