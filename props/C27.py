"""C27 — event notifications form a well-formed history.

Offline checker over the per-association notification history recorded (handlers bound on all 17 notification events on
both sides) while two real AEs run the lifecycle scenarios of vlib.lifecycle (same scenarios as C06, with seeded yield
injection), plus the bytes that actually crossed the wire (socket proxies):
  G1 the EVT_FSM_TRANSITION chain is continuous: first current_state is Sta1, each current_state == previous next_state
  G2 EVT_CONN_OPEN comes before every transport/PDU/association-outcome notification of that association
  G3 EVT_CONN_CLOSE fires exactly once (when a connection was opened) and no DATA_/PDU_ notification follows it
  G4 EVT_ESTABLISHED at most once, and before any EVT_RELEASED / EVT_ABORTED
  G5 the EVT_PDU_SENT pdu.encode() sequence equals the PDUs in the socket's outbound byte stream, EVT_PDU_RECV the
     complete PDUs of its inbound stream; EVT_DATA_SENT/RECV carry the same bytes
Histories in which the provider crashed (C05/C06 findings) are counted and skipped.
"""
from vlib import harness, lifecycle, ps38, sched, taps
from vlib.common import rng_for, sha

PID = "C27"
LEVEL = "exploration"
RULE = ("two-sided notification histories of the lifecycle scenarios x yield seeds; distinct = (scenario, side, event-name "
        "sequence signature); non-trivial = the association's history has a connection and at least one PDU each way")
ASSUMPTIONS = ["order of notifications = order in which the recording handlers ran (one lock-protected counter)",
               "EVT_REQUESTED / EVT_ACSE_SENT / the first FSM transition may precede EVT_CONN_OPEN on the requestor (the request primitive is issued before the TCP connect) - not asserted"]
WORKERS = {"quick": 16, "thorough": 16}
REQUIRE = {"histories_checked": 250, "fsm_transitions_checked": 1500, "pdus_compared": 1000, "conn_close_seen": 250}
YP = None
TRANSPORT = ("EVT_DATA_SENT", "EVT_DATA_RECV", "EVT_PDU_SENT", "EVT_PDU_RECV")
AFTER_OPEN = TRANSPORT + ("EVT_CONN_CLOSE", "EVT_ESTABLISHED", "EVT_RELEASED", "EVT_ABORTED", "EVT_ACCEPTED", "EVT_REJECTED",
                          "EVT_DIMSE_SENT", "EVT_DIMSE_RECV", "EVT_ACSE_RECV")


def setup_worker():
    global YP
    harness.quiet_logging()
    taps.install()
    YP = sched.YieldPoints(lifecycle.yield_points(), seed=0, p_yield=0.5, max_delay=0.003)
    YP.install()


def gen_cases(tier, seed):
    reps = 8 if tier == "quick" else 300
    return [{"scenario": s["name"], "seed": seed, "rep": r, "yields": r % 3 != 0} for s in lifecycle.SCENARIOS for r in range(reps)]


def check_history(name, side, events, tx, rx, counters):
    viol = []
    names = [e["name"] for e in events]
    tag = "%s" % side
    # G1
    prev = None
    for e in events:
        if e["name"] != "EVT_FSM_TRANSITION":
            continue
        counters["fsm_transitions_checked"] = counters.get("fsm_transitions_checked", 0) + 1
        if prev is None:
            if e["cur"] != "Sta1":
                viol.append({"key": "fsm-chain|first-not-Sta1|%s" % tag, "detail": "%s: first transition starts in %s" % (name, e["cur"])})
        elif e["cur"] != prev:
            viol.append({"key": "fsm-chain|discontinuous|%s" % tag, "detail": "%s: transition %s+%s starts in %s but the previous one ended in %s" % (name, e["cur"], e["fsm_event"], e["cur"], prev)})
        prev = e["nxt"]
    # G2 / G3
    opens = [i for i, n in enumerate(names) if n == "EVT_CONN_OPEN"]
    closes = [i for i, n in enumerate(names) if n == "EVT_CONN_CLOSE"]
    if len(opens) > 1:
        viol.append({"key": "conn-open|more-than-once|%s" % tag, "detail": "%s: %d EVT_CONN_OPEN" % (name, len(opens))})
    if opens:
        early = [n for n in names[:opens[0]] if n in AFTER_OPEN]
        if early:
            viol.append({"key": "conn-open|not-first|%s|%s" % (tag, early[0]), "detail": "%s: %r before EVT_CONN_OPEN" % (name, early[:4])})
        if len(closes) != 1:
            viol.append({"key": "conn-close|count-%d|%s" % (len(closes), tag), "detail": "%s: history %r" % (name, [n[4:] for n in names][-12:])})
        else:
            counters["conn_close_seen"] = counters.get("conn_close_seen", 0) + 1
            late = [n for n in names[closes[0] + 1:] if n in TRANSPORT]
            if late:
                viol.append({"key": "conn-close|not-last|%s|%s" % (tag, late[0]), "detail": "%s: %r after EVT_CONN_CLOSE" % (name, late[:4])})
    elif any(n in TRANSPORT for n in names):
        viol.append({"key": "conn-open|missing|%s" % tag, "detail": "%s: transport notifications without EVT_CONN_OPEN: %r" % (name, [n[4:] for n in names][:8])})
    # G4
    est = [i for i, n in enumerate(names) if n == "EVT_ESTABLISHED"]
    term = [i for i, n in enumerate(names) if n in ("EVT_RELEASED", "EVT_ABORTED")]
    if len(est) > 1:
        viol.append({"key": "established|more-than-once|%s" % tag, "detail": name})
    if est and term and min(term) < est[0]:
        viol.append({"key": "established|after-terminal|%s" % tag, "detail": "%s: %r" % (name, [n[4:] for n in names])})
    # G5
    if tx is not None:
        sent = [e["bytes"] for e in events if e["name"] == "EVT_PDU_SENT"]
        wire_tx, rest = ps38.split_stream(tx)
        counters["pdus_compared"] = counters.get("pdus_compared", 0) + len(wire_tx)
        if sent != wire_tx:
            if sent[:len(wire_tx)] == wire_tx and len(sent) > len(wire_tx):
                kind = "notified-but-not-sent|pdu-type-%s" % "+".join(str(b[0]) for b in sent[len(wire_tx):] if b)
            elif wire_tx[:len(sent)] == sent:
                kind = "sent-but-not-notified"
            else:
                kind = "mismatch"
            viol.append({"key": "pdu-sent-vs-wire|%s|%s" % (kind, tag), "detail": "%s: %d EVT_PDU_SENT vs %d PDUs on the wire (types notified %r, wire %r)" % (
                name, len(sent), len(wire_tx), [b[0] if b else None for b in sent], [b[0] for b in wire_tx])})
        dsent = b"".join(e["bytes"] for e in events if e["name"] == "EVT_DATA_SENT")
        if dsent != tx:
            viol.append({"key": "data-sent-vs-wire|%s" % tag, "detail": "%s: EVT_DATA_SENT carried %d bytes, %d went out" % (name, len(dsent), len(tx))})
    if rx is not None:
        recv = [e["bytes"] for e in events if e["name"] == "EVT_PDU_RECV"]
        wire_rx, rest = ps38.split_stream(rx)
        counters["pdus_compared"] = counters.get("pdus_compared", 0) + len(wire_rx)
        if recv != wire_rx:
            viol.append({"key": "pdu-recv-vs-wire|%s" % tag, "detail": "%s: %d EVT_PDU_RECV vs %d complete PDUs received (types notified %r, wire %r)" % (
                name, len(recv), len(wire_rx), [b[0] if b else None for b in recv], [b[0] for b in wire_rx])})
        drecv = [e["bytes"] for e in events if e["name"] == "EVT_DATA_RECV"]
        if drecv != wire_rx:
            viol.append({"key": "data-recv-vs-wire|%s" % tag, "detail": "%s: EVT_DATA_RECV payloads differ from the framed PDUs received" % name})
    return viol


def run_case(case):
    scn = lifecycle.BY_NAME[case["scenario"]]
    counters = {}
    seed = rng_for(case["seed"], PID, case["scenario"], case["rep"]).getrandbits(32)
    out = lifecycle.run(scn, seed=seed, yields=YP if case["yields"] else None)
    viol = []
    crashed = bool(out["fsm_problems"] or out["excs"])
    sigs = []
    if crashed:
        counters["histories_skipped_provider_crash"] = 1
        # ... except when the crash itself comes from a second abort() that ENTERED after the first one's A-ABORT had been issued (the
        # single-abort guard must stop that one; only concurrent entry is the known race): then the cut-short history - no
        # EVT_CONN_CLOSE, transition chain ending in Sta13 - is reported
        for side, aid in (("req", out["req_id"]), ("acc", out["acc_id"])):
            sent = [e for e in out["history"] if e["side"] == side and e["assoc"] == aid and e["name"] == "EVT_ACSE_SENT" and e.get("prim") in ("A_ABORT", "A_P_ABORT")]
            calls = [e for e in out["history"] if e["side"] == side and e["assoc"] == aid and e["name"] == "ABORT_CALL_ENTER"]
            if len(sent) >= 2 and len(calls) >= 2 and any(c["seq"] > sent[0]["seq"] for c in calls[1:]):
                names = [e["name"] for e in out["history"] if e["side"] == side and e["assoc"] == aid]
                last_fsm = [e for e in out["history"] if e["side"] == side and e["assoc"] == aid and e["name"] == "EVT_FSM_TRANSITION"]
                viol.append({"key": "history-cut-short|provider-crash-after-second-abort-entered-behind-the-first|%s" % side,
                             "detail": "%s: %d abort() calls / %d A-ABORT requests on the %s side, the provider died on the second; EVT_CONN_CLOSE x%d, "
                                       "last transition ends in %s" % (case["scenario"], len(calls), len(sent), side, names.count("EVT_CONN_CLOSE"),
                                                                       last_fsm[-1]["nxt"] if last_fsm else None)})
    elif not out["quiet"]:
        counters["histories_skipped_not_terminated"] = 1
    else:
        socks = {id(s.assoc): s for s in taps.State.socks}
        for side, aid in (("req", out["req_id"]), ("acc", out["acc_id"])):
            if aid is None:
                continue
            evs = [e for e in out["history"] if e["side"] == side and e["assoc"] == aid and e["name"] != "ABORT_CALL_ENTER"]
            if not evs:
                continue
            s = socks.get(aid)
            tx = taps.wire_bytes(s.sid, "tx") if s is not None else None
            rx = taps.wire_bytes(s.sid, "rx") if s is not None else None
            counters["histories_checked"] = counters.get("histories_checked", 0) + 1
            viol += check_history(case["scenario"], side, evs, tx, rx, counters)
            sigs.append([side] + [e["name"][4:] for e in evs if e["name"] not in TRANSPORT and e["name"] != "EVT_FSM_TRANSITION"])
    sample = {"scenario": case["scenario"], "signatures": sigs, "crashed": crashed}
    return {"key": sha([case["scenario"], sigs]), "nontrivial": bool(sigs), "sample": sample, "violations": viol, "counters": counters}
