"""C19 — a DIMSE request on a presentation context id that was not accepted never reaches a handler and is not
answered as if it were valid.

Direction 1 (acceptor).  A REAL pynetdicom acceptor binds counting handlers to all eleven intervention events
(EVT_C_ECHO/STORE/FIND/GET/MOVE, EVT_N_GET/SET/ACTION/CREATE/DELETE/EVENT_REPORT) and supports one matching SOP class
per request type.  The scripted requestor (vlib.peer / vlib.cmdset / vlib.ps38 only) proposes a seeded layout of
contexts (some accepted, some rejected for an unsupported abstract syntax, some rejected for an unsupported transfer
syntax), checks in the A-ASSOCIATE-AC it receives that the target id has the intended class, and sends ONE request of
one of the 11 DIMSE request types on the target id:

    accepted      control: the handler MUST run once and a response with the right MessageIDBeingRespondedTo /
                  command field must come back on the same id -- otherwise the evaluation is inconclusive
    rejected-abs / rejected-ts / never-proposed (odd) / even / zero
                  ORACLE: no handler invocation at all (all 11 counters) and no P-DATA-TF written back, observed at
                  the peer until the association ends (A-ABORT / close) or, after 0.5 s of silence, until a C-ECHO
                  "fence" sent on the accepted Verification context has been answered (logical, not timing, decision)
    mismatch      accepted id whose abstract syntax is not the request's SOP class: behaviour only recorded
    split modes   command PDV on the non-accepted id + data-set PDV on the accepted one (asserted like above: the
                  request's context id is the command's), and the reverse (recorded only)

Direction 2 (requestor).  A REAL pynetdicom requestor runs send_c_get / send_c_move with EVT_C_STORE bound and
storage contexts negotiated with the SCP role; the scripted acceptor answers the A-ASSOCIATE-RQ (accepting / rejecting
contexts as the layout says) and sends the C-STORE-RQ sub-operation on the accepted storage id (control), a rejected
id, a never-proposed / even / zero id (asserted: handler silent, no C-STORE-RSP) or an accepted id with another
abstract syntax (recorded).  The final C-GET/C-MOVE-RSP and the release that follows fence the observation.

Escaped exceptions (taps.State.excs) during an evaluation are reported under their own key class.
"""
import struct
import threading
import time

from vlib import cmdset, harness, peer as vpeer, ps38, taps
from vlib.common import rng_for, sha

PID = "C19"
LEVEL = "exploration"
RULE = ("one association per evaluation; acceptor direction: (request type in the 11 DIMSE request types) x (target "
        "context id 0..255) x (class of the id relative to the accepted set: accepted/mismatch/rejected-abs/rejected-ts/"
        "never-proposed/even/zero) with a seeded context layout (10 accepted service contexts + 2-6 rejected ones at "
        "random odd ids, shuffled) and message id, plus split command/data-set context ids; quick: 40 ids x 11 types "
        "with one class per odd id, thorough: all 256 ids x 11 types with all five classes per odd id; requestor "
        "direction: C-GET / C-MOVE with a C-STORE-RQ sub-operation on (id, class, SOP class accepted elsewhere / "
        "nowhere), quick sampled ids, thorough all 256 ids.  distinct = (direction, request type, id, class, pdv mode, "
        "SOP class variant); non-trivial = the id is NOT in the accepted set of the AC actually exchanged and the "
        "request was completely sent on the established association")
ASSUMPTIONS = [
    "class of the target id is taken from the A-ASSOCIATE-AC actually exchanged (evaluation inconclusive if the "
    "negotiation did not realise the intended layout)",
    "'not answered as if valid' is decided as: no P-DATA-TF at all is written back for the request (a refusal "
    "response is reported too, with the status class in the mechanism key)",
    "one request per association; the peer keeps reading until the association ends or a C-ECHO fence (acceptor "
    "direction) / the final C-GET-RSP + release (requestor direction) has been processed",
    "N-EVENT-REPORT requests are served on a helper thread by pynetdicom: handler counters are read after all "
    "threads started during the evaluation have ended (bounded wait)",
    "proposed ids are odd (even / zero ids are only used as PDV ids, never proposed)",
]
WORKERS = {"quick": 16, "thorough": 16}
EXHAUSTIVE = {"quick": False, "thorough": True}
MAX_INCONCLUSIVE_FRAC = 0.02

SILENCE = 0.5
IMPL = ps38.IMPLICIT_LE
EXPL = ps38.EXPLICIT_LE
JPEG = "1.2.840.10008.1.2.4.50"
J2K = "1.2.840.10008.1.2.4.90"

VER = "1.2.840.10008.1.1"
CT = "1.2.840.10008.5.1.4.1.1.2"
MR = "1.2.840.10008.5.1.4.1.1.4"
SC = "1.2.840.10008.5.1.4.1.1.7"
PR_FIND = "1.2.840.10008.5.1.4.1.2.1.1"
PR_MOVE = "1.2.840.10008.5.1.4.1.2.1.2"
PR_GET = "1.2.840.10008.5.1.4.1.2.1.3"
PRINTER = "1.2.840.10008.5.1.1.16"
DISPLAY = "1.2.840.10008.5.1.1.40"
MPPS = "1.2.840.10008.3.1.2.3.3"
STGCMT = "1.2.840.10008.1.20.1"
FILMSESSION = "1.2.840.10008.5.1.1.1"
# known NON-storage SOP classes the acceptor does not support (still negotiated normally, i.e. rejected, when
# _config.UNRESTRICTED_STORAGE_SERVICE accepts every storage-like / private / unknown abstract syntax)
UNSUPPORTED_NONSTORAGE = ["1.2.840.10008.5.1.4.1.2.2.1", "1.2.840.10008.5.1.4.1.2.2.2",
                          "1.2.840.10008.5.1.4.1.2.2.3"]
UNSUPPORTED_ABS = [MR, "1.2.840.10008.5.1.4.1.1.128", "1.2.826.0.1.3680043.9.3811.19.1", "1.2.840.10008.5.1.4.31"]

# request type -> SOP class the acceptor supports for it
SOP = {"C-ECHO": VER, "C-STORE": CT, "C-FIND": PR_FIND, "C-GET": PR_GET, "C-MOVE": PR_MOVE,
       "N-EVENT-REPORT": PRINTER, "N-GET": DISPLAY, "N-SET": MPPS, "N-ACTION": STGCMT, "N-CREATE": MPPS,
       "N-DELETE": FILMSESSION}
RTYPES = list(SOP)
SERVICE_ABS = sorted(set(SOP.values()))          # 10 abstract syntaxes
HAS_DATA = {"C-STORE", "C-FIND", "C-GET", "C-MOVE", "N-EVENT-REPORT", "N-SET", "N-ACTION", "N-CREATE"}
NONACC = ("rejected-abs", "rejected-ts", "never-proposed", "even", "zero")
ODD_CLASSES = ("accepted", "mismatch", "rejected-abs", "rejected-ts", "never-proposed")
INSTANCE = "1.2.826.0.1.3680043.9.3811.19.7.1"


def REQUIRE(tier):
    q = tier == "quick"
    req = {"acc_nonaccepted_evals": 300 if q else 5000, "acc_controls_ok": 50 if q else 1200,
           "acc_mismatch_evals": 40 if q else 1200, "acc_split_cmd_evals": 30 if q else 100,
           "req_nonaccepted_evals": 40 if q else 800, "req_controls_ok": 8 if q else 120,
           "race_associate_cases": 10 if q else 250, "race_yield_hits": 10 if q else 250,
           "acc_unrestricted_nonaccepted_evals": 35 if q else 450}
    for c in NONACC:
        req["acc_cls_" + c] = 10 if q else (11 if c == "zero" else 1000)
    for rt in RTYPES:
        req["acc_rt_" + rt] = 20 if q else 450
        req["acc_control_" + rt] = 3 if q else 100
    for c in ("rejected", "rejected-same-abs", "never-proposed", "even", "zero"):
        req["req_cls_" + c] = 2 if c == "zero" else (4 if q else 100)
    return req


def setup_worker():
    harness.quiet_logging()
    taps.install()


# ------------------------------------------------------------------ small data sets (implicit VR little endian)

def _el(g, e, v, ui=False):
    if len(v) % 2:
        v += b"\0" if ui else b" "
    return struct.pack("<HHI", g, e, len(v)) + v


def ds_store(sop=CT):
    return (_el(8, 0x16, sop.encode(), True) + _el(8, 0x18, INSTANCE.encode(), True) + _el(0x10, 0x10, b"CTX^CHECK")
            + _el(0x10, 0x20, b"C19"))


def ds_identifier():
    return _el(8, 0x52, b"PATIENT") + _el(0x10, 0x20, b"C19")


def ds_attrs():
    return _el(0x10, 0x10, b"CTX^CHECK") + _el(0x10, 0x20, b"C19")


def build_request(rt, msg_id, sop=None):
    """(command dict, data set bytes | None) for one request of type `rt`."""
    sop = sop or SOP[rt]
    mk = cmdset.make
    if rt == "C-ECHO":
        return mk("C-ECHO-RQ", AffectedSOPClassUID=sop, MessageID=msg_id), None
    if rt == "C-STORE":
        return mk("C-STORE-RQ", AffectedSOPClassUID=sop, MessageID=msg_id, Priority=0, CommandDataSetType=1,
                  AffectedSOPInstanceUID=INSTANCE), ds_store(sop)
    if rt in ("C-FIND", "C-GET"):
        return mk(rt + "-RQ", AffectedSOPClassUID=sop, MessageID=msg_id, Priority=0, CommandDataSetType=1), ds_identifier()
    if rt == "C-MOVE":
        return mk("C-MOVE-RQ", AffectedSOPClassUID=sop, MessageID=msg_id, Priority=0, CommandDataSetType=1,
                  MoveDestination="NOWHERE"), ds_identifier()
    if rt == "N-EVENT-REPORT":
        return mk("N-EVENT-REPORT-RQ", AffectedSOPClassUID=sop, MessageID=msg_id, CommandDataSetType=1,
                  AffectedSOPInstanceUID=INSTANCE, EventTypeID=1), ds_attrs()
    if rt == "N-GET":
        return mk("N-GET-RQ", RequestedSOPClassUID=sop, MessageID=msg_id, RequestedSOPInstanceUID=INSTANCE,
                  AttributeIdentifierList=[(0x0010, 0x0010)]), None
    if rt == "N-SET":
        return mk("N-SET-RQ", RequestedSOPClassUID=sop, MessageID=msg_id, CommandDataSetType=1,
                  RequestedSOPInstanceUID=INSTANCE), ds_attrs()
    if rt == "N-ACTION":
        return mk("N-ACTION-RQ", RequestedSOPClassUID=sop, MessageID=msg_id, CommandDataSetType=1,
                  RequestedSOPInstanceUID=INSTANCE, ActionTypeID=1), ds_attrs()
    if rt == "N-CREATE":
        return mk("N-CREATE-RQ", AffectedSOPClassUID=sop, MessageID=msg_id, CommandDataSetType=1,
                  AffectedSOPInstanceUID=INSTANCE), ds_attrs()
    if rt == "N-DELETE":
        return mk("N-DELETE-RQ", RequestedSOPClassUID=sop, MessageID=msg_id, RequestedSOPInstanceUID=INSTANCE), None
    raise ValueError(rt)


# ------------------------------------------------------------------ handler recorder (shared by both directions)

class Rec:
    lock = threading.Lock()
    calls = []      # [event name, message id, context id]

    @classmethod
    def reset(cls):
        with cls.lock:
            cls.calls = []

    @classmethod
    def add(cls, name, event):
        try:
            mid = event.request.MessageID
        except Exception:
            mid = None
        try:
            cid = event.context.context_id
        except Exception:
            cid = None
        with cls.lock:
            cls.calls.append([name, mid, cid])

    @classmethod
    def snapshot(cls):
        with cls.lock:
            return [list(c) for c in cls.calls]


def acceptor_handlers():
    from pydicom.dataset import Dataset
    from pynetdicom import evt

    def attrs():
        ds = Dataset()
        ds.PatientName = "CTX^CHECK"
        return ds

    def on_echo(e):
        Rec.add("C-ECHO", e); return 0x0000

    def on_store(e):
        Rec.add("C-STORE", e); return 0x0000

    def on_find(e):
        Rec.add("C-FIND", e); return iter(())

    def on_get(e):
        Rec.add("C-GET", e); return iter([0])

    def on_move(e):
        Rec.add("C-MOVE", e); return iter([(None, None)])

    def on_n_get(e):
        Rec.add("N-GET", e); return 0x0000, attrs()

    def on_n_set(e):
        Rec.add("N-SET", e); return 0x0000, attrs()

    def on_n_action(e):
        Rec.add("N-ACTION", e); return 0x0000, None

    def on_n_create(e):
        Rec.add("N-CREATE", e); return 0x0000, attrs()

    def on_n_delete(e):
        Rec.add("N-DELETE", e); return 0x0000

    def on_n_er(e):
        Rec.add("N-EVENT-REPORT", e); return 0x0000, None

    return [(evt.EVT_C_ECHO, on_echo), (evt.EVT_C_STORE, on_store), (evt.EVT_C_FIND, on_find), (evt.EVT_C_GET, on_get),
            (evt.EVT_C_MOVE, on_move), (evt.EVT_N_GET, on_n_get), (evt.EVT_N_SET, on_n_set),
            (evt.EVT_N_ACTION, on_n_action), (evt.EVT_N_CREATE, on_n_create), (evt.EVT_N_DELETE, on_n_delete),
            (evt.EVT_N_EVENT_REPORT, on_n_er)]


# ------------------------------------------------------------------ case generation

def _odd_pool():
    return list(range(1, 256, 2))


def _acc_eval(rt, tid, cls, mode, lseed):
    return {"rt": rt, "id": tid, "cls": cls, "mode": mode, "lseed": lseed}


def gen_cases(tier, seed):
    rng = rng_for(seed, PID, "gen", tier)
    acc = []
    if tier == "quick":
        evens = [2, 254] + rng.sample(range(4, 254, 2), 3)
        odds = [1, 3, 255, 127, 129] + rng.sample([x for x in _odd_pool() if x not in (1, 3, 255, 127, 129)], 29)
        for j, rt in enumerate(RTYPES):
            acc.append(_acc_eval(rt, 0, "zero", "same", rng.getrandbits(32)))
            for t in evens:
                acc.append(_acc_eval(rt, t, "even", "same", rng.getrandbits(32)))
            rot = rng.randrange(5)
            for i, t in enumerate(odds):
                acc.append(_acc_eval(rt, t, ODD_CLASSES[(i + j + rot) % 5], "same", rng.getrandbits(32)))
        split_rounds = 1
    else:
        for rt in RTYPES:
            acc.append(_acc_eval(rt, 0, "zero", "same", rng.getrandbits(32)))
            for t in range(2, 256, 2):
                acc.append(_acc_eval(rt, t, "even", "same", rng.getrandbits(32)))
            for t in _odd_pool():
                for cls in ODD_CLASSES:
                    acc.append(_acc_eval(rt, t, cls, "same", rng.getrandbits(32)))
        split_rounds = 4
    for _ in range(split_rounds):
        for rt in sorted(HAS_DATA):
            for cls in NONACC:
                for mode in ("cmd-on-target", "data-on-target"):
                    t = 0 if cls == "zero" else rng.choice(range(2, 256, 2)) if cls == "even" else rng.choice(_odd_pool())
                    acc.append(_acc_eval(rt, t, cls, mode, rng.getrandbits(32)))
    rng.shuffle(acc)
    bs = 16 if tier == "quick" else 32
    cases = [{"dir": "acceptor", "evals": acc[i:i + bs]} for i in range(0, len(acc), bs)]

    # requestor direction
    req = []

    def radd(op, tid, cls, sopv):
        req.append({"op": op, "id": tid, "cls": cls, "sop": sopv, "lseed": rng.getrandbits(32)})
    if tier == "quick":
        odd_t = [1, 3, 5, 255, 253] + rng.sample(range(7, 253, 2), 5)
        for i, t in enumerate(odd_t):
            op = "get" if i % 3 else "move"
            radd("get", t, "accepted", "CT")
            for cls in ("rejected", "rejected-same-abs", "never-proposed", "mismatch"):
                for sopv in ("CT", "MR"):
                    if cls == "never-proposed" and t < 9:
                        continue
                    radd(op if sopv == "CT" else "get", t, cls, sopv)
        for t in [0, 2, 254] + rng.sample(range(4, 254, 2), 3):
            radd("get", t, "zero" if t == 0 else "even", "CT")
            radd("move" if t % 4 else "get", t, "zero" if t == 0 else "even", "MR")
    else:
        for t in range(256):
            if t == 0 or t % 2 == 0:
                cls = "zero" if t == 0 else "even"
                radd("get", t, cls, "CT"); radd("get", t, cls, "MR"); radd("move", t, cls, "CT")
                continue
            radd("get", t, "accepted", "CT")
            radd("move", t, "accepted", "CT")
            for cls in ("rejected", "rejected-same-abs", "never-proposed", "mismatch"):
                if cls == "never-proposed" and t < 9:
                    continue
                radd("get", t, cls, "CT"); radd("get", t, cls, "MR"); radd("move", t, cls, "CT")
    rng.shuffle(req)
    rb = 8 if tier == "quick" else 16
    cases += [{"dir": "requestor", "evals": req[i:i + rb]} for i in range(0, len(req), rb)]
    # a request on a REJECTED context that arrives in the same TCP segment as the A-ASSOCIATE-AC: it races the requestor's own
    # processing of the AC (N-EVENT-REPORT requests are served in a thread of their own, straight from the provider)
    for i in range(12 if tier == "quick" else 300):
        cases.append({"dir": "race-associate", "i": i, "seed": seed, "evals": []})
    # the same acceptor oracle with _config.UNRESTRICTED_STORAGE_SERVICE on: storage-like / private / unknown abstract syntaxes are
    # all accepted, known non-storage classes are still negotiated (and rejected) as usual
    unr = []
    for _ in range(1 if tier == "quick" else 12):
        for rt in RTYPES:
            for cls in ("rejected-abs", "rejected-ts", "never-proposed", "accepted", "rejected-abs"):
                ev = _acc_eval(rt, rng.choice(_odd_pool()), cls, "same", rng.getrandbits(32))
                ev["unr"] = True
                unr.append(ev)
    rng.shuffle(unr)
    cases += [{"dir": "acceptor", "unrestricted": True, "evals": unr[i:i + 11]} for i in range(0, len(unr), 11)]
    return cases


# ------------------------------------------------------------------ direction 1: acceptor

def acceptor_layout(ev):
    """Proposed contexts for one evaluation: list of {"id","abs","ts","want"} (want: 0 accepted, 3, 4)."""
    rng = rng_for(ev["lseed"], PID, "layout")
    rt, tid, cls = ev["rt"], ev["id"], ev["cls"]
    own = SOP[rt]
    unr = bool(ev.get("unr"))
    unsupported = UNSUPPORTED_NONSTORAGE if unr else UNSUPPORTED_ABS
    pool = [x for x in _odd_pool() if x != tid]
    rng.shuffle(pool)
    pcs = []
    services = list(SERVICE_ABS)
    rng.shuffle(services)
    at_target = None
    if cls == "accepted":
        at_target = {"id": tid, "abs": own, "ts": [IMPL], "want": 0}
        services.remove(own)
    elif cls == "mismatch":
        other = rng.choice([a for a in services if a != own])
        at_target = {"id": tid, "abs": other, "ts": [IMPL], "want": 0}
        services.remove(other)
    elif cls == "rejected-abs":
        at_target = {"id": tid, "abs": rng.choice(unsupported), "ts": [IMPL], "want": 3}
    elif cls == "rejected-ts" and unr and own == CT:
        # a storage class cannot be rejected for its transfer syntaxes in unrestricted mode
        at_target = {"id": tid, "abs": rng.choice(unsupported), "ts": [rng.choice([JPEG, J2K])], "want": 3}
    elif cls == "rejected-ts":
        # the request's own SOP class, proposed a second time with transfer syntaxes the acceptor does not support
        at_target = {"id": tid, "abs": own, "ts": rng.choice([[JPEG], [J2K], [JPEG, J2K]]), "want": 4}
    for a in services:
        pcs.append({"id": pool.pop(), "abs": a, "ts": rng.choice([[IMPL], [IMPL, JPEG], [J2K, IMPL]]), "want": 0})
    for _ in range(rng.randint(1, 3)):
        pcs.append({"id": pool.pop(), "abs": rng.choice(unsupported), "ts": [IMPL], "want": 3})
    for _ in range(rng.randint(1, 3)):
        a = rng.choice(SERVICE_ABS)
        pcs.append({"id": pool.pop(), "abs": a, "ts": [rng.choice([JPEG, J2K])], "want": 0 if (unr and a == CT) else 4})
    if unr:
        # storage-like contexts nobody supports: accepted with the first proposed transfer syntax
        for a in (MR, "1.2.826.0.1.3680043.9.3811.19.1"):
            pcs.append({"id": pool.pop(), "abs": a, "ts": [rng.choice([IMPL, JPEG])], "want": 0})
    if at_target:
        pcs.append(at_target)
    rng.shuffle(pcs)
    msg_id = rng.choice([1, 2, 7, 255, 256, 65535, rng.randrange(1, 65536)])
    return pcs, msg_id


def _status_class(st):
    if st is None:
        return "none"
    if st == 0:
        return "success"
    if st in (0xFF00, 0xFF01):
        return "pending"
    if st == 0xFE00:
        return "cancel"
    if st in (0x0001,) or (st >> 12) == 0xB or st in (0x0107, 0x0116):
        return "warning"
    return "failure"


def _brief(m):
    if not m:
        return None
    if m.get("type") == "DIMSE":
        c = m["cmd"]
        return {"ctx": m["ctx"], "field": cmdset.FIELD_NAME.get(c.get("CommandField"), c.get("CommandField")),
                "rsp_to": c.get("MessageIDBeingRespondedTo"), "status": c.get("Status")}
    d = {"type": m.get("type")}
    if m.get("type") == "ABORT":
        d["source"], d["reason"] = m.get("source"), m.get("reason")
    return d


def _wait_threads(baseline, timeout=3.0):
    t_end = time.time() + timeout
    while time.time() < t_end:
        extra = [t for t in threading.enumerate() if t.ident not in baseline and t.is_alive()]
        if not extra:
            return True
        time.sleep(0.005)
    return False


def _bump(c, k, n=1):
    c[k] = c.get(k, 0) + n


def acceptor_eval(ev, port, counters):
    """One association.  Returns (violations, observation, inconclusive|None, distinct-key|None)."""
    viol, inconc = [], None
    rt, tid, cls, mode = ev["rt"], ev["id"], ev["cls"], ev["mode"]
    pcs, msg_id = acceptor_layout(ev)
    fence_id = (msg_id % 65535) + 1
    taps.reset()
    Rec.reset()
    baseline = {t.ident for t in threading.enumerate()}
    obs = {"rt": rt, "id": tid, "cls": cls, "mode": mode, "msg_id": msg_id, "n_proposed": len(pcs)}
    p = None
    msgs, end = [], None
    fence_answered = False
    try:
        p = vpeer.Peer.connect(port)
        rq = ps38.make_rq(called="VERIF-SCP", pcs=[{"id": c["id"], "abs": c["abs"], "ts": c["ts"]} for c in pcs])
        ac = p.associate(rq, timeout=8.0)
        if not ac or ac.get("type") != "AC":
            return viol, obs, "no A-ASSOCIATE-AC: %r" % (_brief(ac),), None
        results = {c["id"]: c["result"] for c in ac["pcs"]}
        accepted = set(p.accepted)
        # the layout must have been realised by the negotiation (C10 decides negotiation itself)
        for c in pcs:
            if (results.get(c["id"]) == 0) != (c["want"] == 0):
                return viol, obs, "layout not realised: ctx %r got result %r" % (c, results.get(c["id"])), None
        own_ids = [c["id"] for c in pcs if c["abs"] == SOP[rt] and c["want"] == 0]
        ver_ids = [c["id"] for c in pcs if c["abs"] == VER and c["want"] == 0]
        if (cls in ("accepted", "mismatch")) != (tid in accepted) or not own_ids or not ver_ids:
            return viol, obs, "target id class not realised", None
        obs["accepted_ids"] = sorted(accepted)
        obs["target_result"] = results.get(tid, "not-proposed")

        cmd, data = build_request(rt, msg_id)
        if mode == "same":
            p.send_dimse(tid, cmd, data)
        else:
            cid, did = (tid, own_ids[0]) if mode == "cmd-on-target" else (own_ids[0], tid)
            p.send_pdu(ps38.pdata(ps38.pdv(cid, cmdset.encode(cmd), True, True)))
            p.send_pdu(ps38.pdata(ps38.pdv(did, data, False, True)))
        want_field = cmdset.COMMAND_FIELD[rt + "-RQ"] | 0x8000

        if cls == "accepted" and mode == "same":
            # control: wait for the (single, final) response
            t_end = time.time() + 8.0
            while time.time() < t_end:
                m = p.recv_dimse(max(0.05, t_end - time.time()))
                if m is None:
                    break
                if m.get("type") != "DIMSE":
                    end = m.get("type"); obs["end"] = _brief(m)
                    break
                msgs.append(m)
                if _status_class(m["cmd"].get("Status")) != "pending":
                    break
        else:
            # phase 1: reaction or silence
            silent = False
            while True:
                m = p.recv_dimse(SILENCE)
                if m is None:
                    silent = True
                    break
                if m.get("type") != "DIMSE":
                    end = m.get("type"); obs["end"] = _brief(m)
                    break
                msgs.append(m)
            if silent:
                # phase 2: fence -- a C-ECHO on the accepted Verification context; everything pynetdicom wrote for
                # the request under test precedes the fence response (requests are served in order)
                _bump(counters, "acc_fence_used")
                try:
                    p.send_dimse(ver_ids[0], cmdset.c_echo_rq(fence_id))
                except OSError:
                    pass
                t_end = time.time() + 6.0
                while time.time() < t_end:
                    m = p.recv_dimse(max(0.05, t_end - time.time()))
                    if m is None:
                        break
                    if m.get("type") != "DIMSE":
                        end = m.get("type"); obs["end"] = _brief(m)
                        break
                    c = m["cmd"]
                    if (c.get("CommandField") == 0x8030 and c.get("MessageIDBeingRespondedTo") == fence_id
                            and m["ctx"] == ver_ids[0]):
                        fence_answered = True
                        break
                    msgs.append(m)
                if not fence_answered and end is None:
                    inconc = "neither association end nor fence response within the watchdog"
        # orderly end if the association is still up
        if end is None and not p.eof:
            try:
                r = p.release(3.0)
                obs["release"] = _brief(r)
                if r and r.get("type") == "PDATA":
                    msgs.append({"type": "DIMSE", "ctx": r["pdvs"][0]["id"], "cmd": {}, "late": True})
            except OSError:
                pass
    except OSError as exc:
        inconc = inconc or "socket error in the scripted peer: %r" % (exc,)
    finally:
        if p is not None:
            p.close()
    quiet, _ = taps.wait_quiet(6.0, harness.acceptor_assocs())
    threads_done = _wait_threads(baseline)
    calls = Rec.snapshot()
    fence_calls = [c for c in calls if c[0] == "C-ECHO" and c[1] == fence_id and fence_answered]
    calls_rq = [c for c in calls if c not in fence_calls] if fence_calls else calls
    obs["handler_calls"] = calls_rq
    obs["responses"] = [_brief(m) for m in msgs]
    obs["excs"] = [{"type": e["type"], "where": e["where"], "text": e["text"][:120]} for e in taps.State.excs]
    if not quiet or not threads_done:
        inconc = inconc or "association threads still alive after the watchdog"
    reaction = "abort" if end == "ABORT" else "closed" if end == "EOF" else "none" if end is None else str(end)

    dkey = "acceptor|%s|%d|%s|%s" % (rt, tid, cls, mode) + ("|unrestricted" if ev.get("unr") else "")
    if ev.get("unr"):
        _bump(counters, "acc_unrestricted_evals")
        if cls in NONACC:
            _bump(counters, "acc_unrestricted_nonaccepted_evals")
    if cls == "accepted" and mode == "same":
        ok = (len(calls_rq) == 1 and calls_rq[0][0] == rt and len(msgs) == 1 and msgs[0]["ctx"] == tid
              and msgs[0]["cmd"].get("MessageIDBeingRespondedTo") == msg_id
              and msgs[0]["cmd"].get("CommandField") == want_field)
        if ok:
            _bump(counters, "acc_controls_ok")
            _bump(counters, "acc_control_" + rt)
        else:
            inconc = inconc or "control on accepted id did not behave as a valid exchange: calls=%r responses=%r end=%r" % (
                calls_rq, obs["responses"], end)
        return viol, obs, inconc, dkey
    if cls == "mismatch" or mode == "data-on-target":
        tag = "acc_mismatch" if cls == "mismatch" and mode == "same" else "acc_split_data"
        _bump(counters, tag + "_evals")
        _bump(counters, tag + ("_handler_invoked" if calls_rq else "_handler_silent"))
        _bump(counters, tag + ("_response" if msgs else "_no_response"))
        _bump(counters, tag + "_reaction_" + reaction)
        for e in obs["excs"]:
            viol.append({"key": "escaped-exception|acceptor|accepted-id|%s|%s" % (e["type"], e["where"]), "detail": "%r %r" % (ev, e)})
        return viol, obs, inconc, dkey

    # ---- the oracle: request on a non-accepted id
    _bump(counters, "acc_nonaccepted_evals")
    _bump(counters, "acc_cls_" + cls)
    _bump(counters, "acc_rt_" + rt)
    _bump(counters, "acc_reaction_" + reaction)
    if reaction == "closed":
        # observed with N-EVENT-REPORT (served on a helper thread): connection closed without an A-ABORT PDU
        _bump(counters, "acc_closed_without_abort_pdu_" + rt)
    if mode == "cmd-on-target":
        _bump(counters, "acc_split_cmd_evals")
    sfx = "" if mode == "same" else "|split-command-id"
    if calls_rq:
        viol.append({"key": "acceptor|%s|%s|handler-invoked%s" % (rt, cls, sfx + ("|unrestricted-storage" if ev.get("unr") else "")),
                     "detail": "%s (msg id %d) sent on context id %d (%s; accepted ids %r): handlers ran %r; peer then saw %r, end=%r" % (
                         rt, msg_id, tid, cls, sorted(accepted), calls_rq, obs["responses"], end)})
    if msgs:
        viol.append({"key": "acceptor|%s|%s|response-sent%s" % (rt, cls, sfx + ("|unrestricted-storage" if ev.get("unr") else "")),
                     "detail": "%s (msg id %d) sent on context id %d (%s; accepted ids %r): P-DATA-TF came back %r; handlers %r, end=%r" % (
                         rt, msg_id, tid, cls, sorted(accepted), obs["responses"], calls_rq, end)})
    for e in obs["excs"]:
        viol.append({"key": "escaped-exception|acceptor|%s|%s|%s" % (cls, e["type"], e["where"]), "detail": "%r %r" % (ev, e)})
    return viol, obs, inconc, dkey


def run_acceptor_case(case, counters):
    viol, samples, inconc, dkeys = [], [], [], []
    from pynetdicom import _config
    saved = _config.UNRESTRICTED_STORAGE_SERVICE
    _config.UNRESTRICTED_STORAGE_SERVICE = bool(case.get("unrestricted"))
    ae = harness.make_ae(title="VERIF-SCP", timeouts=(5.0, 5.0, 5.0, 5.0), supported=[(a, [IMPL, EXPL]) for a in SERVICE_ABS])
    server, port = harness.start_server(ae, acceptor_handlers())
    try:
        for ev in case["evals"]:
            v, obs, inc, dk = acceptor_eval(ev, port, counters)
            _bump(counters, "acc_evals")
            viol.extend(v)
            if inc:
                inconc.append("%s/%s/%s: %s" % (ev["rt"], ev["id"], ev["cls"], inc))
            elif dk:
                dkeys.append([dk, ev["cls"] in NONACC and ev["mode"] != "data-on-target"])
            if len(samples) < 3 or v:
                samples.append(obs)
    finally:
        harness.stop_ae(ae)
        _config.UNRESTRICTED_STORAGE_SERVICE = saved
    return viol, samples[:6], inconc, dkeys


# ------------------------------------------------------------------ direction 2: requestor

REQ_ABS = {"GET": PR_GET, "MOVE": PR_MOVE, "CT_I": CT, "CT_E": CT, "MR": MR, "SC": SC, "VER": VER}
REQ_TS = {"GET": IMPL, "MOVE": IMPL, "CT_I": IMPL, "CT_E": EXPL, "MR": IMPL, "SC": IMPL, "VER": IMPL}
REQ_RESULT = {"GET": 0, "MOVE": 0, "CT_I": 0, "CT_E": 4, "MR": 3, "SC": 0, "VER": 0}
FILL_ABS = ["1.2.840.10008.5.1.4.1.1.1", "1.2.840.10008.5.1.4.1.1.6.1", "1.2.840.10008.5.1.4.1.1.20",
            "1.2.840.10008.5.1.4.1.1.88.11", "1.2.840.10008.5.1.4.1.1.481.1"]


def requestor_layout(ev):
    """Ordered list of requested contexts [(name, abs, ts, result)], the target landing on id ev['id'] with class
    ev['cls'].  None when infeasible.  pynetdicom numbers requested contexts 1, 3, 5, ... in order."""
    rng = rng_for(ev["lseed"], PID, "rlayout")
    tid, cls = ev["id"], ev["cls"]
    main = ["GET", "MOVE", "CT_I", "CT_E", "MR", "SC", "VER"]
    rng.shuffle(main)

    def filler():
        a = rng.choice(FILL_ABS)
        return ("FILL", a, IMPL, rng.choice([0, 3, 3, 4]))
    target_name = {"accepted": "CT_I", "rejected-same-abs": "CT_E", "rejected": "MR",
                   "mismatch": rng.choice(["VER", "SC", "GET"])}.get(cls)
    items = [(n, REQ_ABS[n], REQ_TS[n], REQ_RESULT[n]) for n in main]
    if target_name is not None:
        idx = (tid - 1) // 2
        if idx > 127:
            return None
        tgt = [it for it in items if it[0] == target_name][0]
        others = [it for it in items if it[0] != target_name]
        n_before = idx
        # put as many of the other main contexts before the target as fit, fillers for the rest
        k = rng.randint(0, min(len(others), n_before))
        before = others[:k] + [filler() for _ in range(n_before - k)]
        rng.shuffle(before)
        after = others[k:]
        tail_room = 128 - (idx + 1) - len(after)
        if tail_room < 0:
            # not enough room after the target: move main contexts in front instead
            need = -tail_room
            fill_idx = [i for i, it in enumerate(before) if it[0] == "FILL"]
            if len(fill_idx) < need:
                return None
            for i in fill_idx[:need]:
                before[i] = after.pop()
            tail_room = 0
        after += [filler() for _ in range(rng.randint(0, min(3, tail_room)))]
        rng.shuffle(after)
        return before + [tgt] + after
    # never-proposed / even / zero: any layout whose ids do not include the target
    n_fill = rng.randint(0, 4)
    if cls == "never-proposed":
        max_n = (tid - 1) // 2          # ids 1..2n-1 must stay below tid
        if max_n < len(items):
            return None
        n_fill = rng.randint(0, min(6, max_n - len(items)))
    lay = items + [filler() for _ in range(n_fill)]
    rng.shuffle(lay)
    return lay


def requestor_eval(ev, counters):
    from pydicom.dataset import Dataset
    from pynetdicom import build_role, evt
    viol, inconc = [], None
    tid, cls, op, sopv = ev["id"], ev["cls"], ev["op"], ev["sop"]
    lay = requestor_layout(ev)
    obs = {"op": op, "id": tid, "cls": cls, "sop": sopv}
    if lay is None:
        _bump(counters, "req_infeasible_layouts")
        return viol, obs, None, None
    sop_uid = {"CT": CT, "MR": MR}[sopv]
    rng = rng_for(ev["lseed"], PID, "rmsg")
    sub_msg_id = rng.choice([1, 2, 99, 65535, rng.randrange(1, 65536)])
    taps.reset()
    Rec.reset()
    baseline = {t.ident for t in threading.enumerate()}
    ae = harness.make_ae(title="VERIF-SCU", timeouts=(5.0, 5.0, 5.0, 5.0))
    for (_, a, ts, _) in lay:
        ae.add_requested_context(a, ts)
    storage = sorted({a for (n, a, _, _) in lay if n in ("CT_I", "CT_E", "MR", "SC", "FILL")})
    scu_too = bool(rng.getrandbits(1))
    ext = [build_role(u, scu_role=scu_too, scp_role=True) for u in storage]
    lst = vpeer.Listener()
    script = {"msgs": [], "end": None, "error": None, "sent": False}

    def acceptor_script():
        p = lst.accept(8.0)
        if p is None:
            script["error"] = "no connection"
            return
        try:
            rq = p.recv_pdu(8.0)
            if not rq or rq.get("type") != "RQ":
                script["error"] = "no RQ: %r" % (_brief(rq),)
                return
            ids = [pc["id"] for pc in rq["pcs"]]
            if ids != [1 + 2 * i for i in range(len(lay))] or [pc["abs"] for pc in rq["pcs"]] != [it[1] for it in lay]:
                script["error"] = "requested contexts differ from the layout"
                return
            results = {}
            for pc, it in zip(rq["pcs"], lay):
                results[pc["id"]] = it[3]
            roles = [{"k": "role", "uid": u, "scu": 1 if scu_too else 0, "scp": 1} for u in storage]
            ac = ps38.make_ac(rq, results=results, extra_ui=roles)
            for pc in ac["pcs"]:
                if pc["result"] == 0:
                    p.accepted[pc["id"]] = pc["ts"]
            p.send_pdu(ac)
            script["accepted"] = sorted(p.accepted)
            m = p.recv_dimse(8.0)
            if not m or m.get("type") != "DIMSE":
                script["error"] = "no retrieve request: %r" % (_brief(m),)
                return
            script["rq"] = _brief(m)
            rq_field = m["cmd"].get("CommandField")
            cmd, data = build_request("C-STORE", sub_msg_id, sop=sop_uid)
            p.send_dimse(tid, cmd, data)
            script["sent"] = True
            # reaction or silence
            ended = False
            m2 = p.recv_dimse(8.0 if cls == "accepted" else SILENCE)
            while m2 is not None:
                if m2.get("type") != "DIMSE":
                    script["end"] = _brief(m2); ended = True
                    break
                script["msgs"].append(m2)
                m2 = p.recv_dimse(0.05)
            if ended:
                return
            final = cmdset.make(cmdset.FIELD_NAME[rq_field | 0x8000], AffectedSOPClassUID=m["cmd"].get("AffectedSOPClassUID"),
                                MessageIDBeingRespondedTo=m["cmd"].get("MessageID"), Status=0,
                                NumberOfCompletedSuboperations=1, NumberOfFailedSuboperations=0,
                                NumberOfWarningSuboperations=0)
            p.send_dimse(m["ctx"], final)
            # the requestor releases after the final response: everything before the A-RELEASE-RQ is captured
            t_end = time.time() + 8.0
            while time.time() < t_end:
                m3 = p.recv_dimse(max(0.05, t_end - time.time()))
                if m3 is None:
                    script["error"] = "requestor neither released nor aborted after the final response"
                    break
                if m3.get("type") == "DIMSE":
                    script["msgs"].append(m3)
                    continue
                script["end"] = _brief(m3)
                if m3.get("type") == "RELRQ":
                    p.send_pdu({"type": "RELRP"})
                    p.wait_eof(3.0)
                break
        except OSError as exc:
            script["error"] = "socket error: %r" % (exc,)
        finally:
            p.close()

    th = threading.Thread(target=acceptor_script, daemon=True)
    th.start()
    res = {}
    try:
        def on_store(e):
            Rec.add("C-STORE", e)
            return 0x0000
        assoc = ae.associate("127.0.0.1", lst.port, ext_neg=ext, evt_handlers=[(evt.EVT_C_STORE, on_store)])
        res["established"] = assoc.is_established
        if assoc.is_established:
            ident = Dataset()
            ident.QueryRetrieveLevel = "PATIENT"
            ident.PatientID = "C19"
            if op == "get":
                gen = assoc.send_c_get(ident, PR_GET)
            else:
                gen = assoc.send_c_move(ident, "DEST", PR_MOVE)
            res["statuses"] = []
            for st, _ in gen:
                res["statuses"].append(getattr(st, "Status", None))
            if assoc.is_established:
                assoc.release()
            res["released"], res["aborted"] = assoc.is_released, assoc.is_aborted
        th.join(12.0)
        quiet, _ = taps.wait_quiet(6.0)
        threads_done = _wait_threads(baseline)
    finally:
        lst.close()
        harness.stop_ae(ae)
    calls = Rec.snapshot()
    msgs = script["msgs"]
    obs.update({"n_requested": len(lay), "accepted_ids": script.get("accepted"), "result": res, "handler_calls": calls,
                "responses": [_brief(m) for m in msgs], "end": script["end"], "script_error": script["error"],
                "excs": [{"type": e["type"], "where": e["where"], "text": e["text"][:120]} for e in taps.State.excs]})
    if th.is_alive() or not quiet or not threads_done:
        inconc = "threads still alive after the watchdog"
    if not script["sent"]:
        return viol, obs, "sub-operation not sent: %s / %r" % (script["error"], res), None
    accepted = set(script.get("accepted") or [])
    if (cls in ("accepted", "mismatch")) != (tid in accepted):
        return viol, obs, "target id class not realised", None
    dkey = "requestor|%s|%d|%s|%s" % (op, tid, cls, sopv)
    end_t = (script["end"] or {}).get("type") if script["end"] else None
    reaction = "abort" if end_t == "ABORT" else "closed" if end_t == "EOF" else "continued" if end_t == "RELRQ" else "other"
    if cls == "accepted":
        ok = (len(calls) == 1 and calls[0][1] == sub_msg_id and len(msgs) == 1 and msgs[0]["ctx"] == tid
              and msgs[0]["cmd"].get("CommandField") == 0x8001 and msgs[0]["cmd"].get("MessageIDBeingRespondedTo") == sub_msg_id
              and msgs[0]["cmd"].get("Status") == 0)
        if ok:
            _bump(counters, "req_controls_ok")
        else:
            inconc = inconc or "control sub-operation on the accepted storage id not handled as valid: calls=%r responses=%r end=%r err=%r" % (
                calls, obs["responses"], script["end"], script["error"])
        return viol, obs, inconc, dkey
    if cls == "mismatch":
        _bump(counters, "req_mismatch_evals")
        _bump(counters, "req_mismatch_" + ("handler_invoked" if calls else "handler_silent"))
        _bump(counters, "req_mismatch_" + ("response" if msgs else "no_response"))
        _bump(counters, "req_mismatch_reaction_" + reaction)
        return viol, obs, inconc, dkey
    _bump(counters, "req_nonaccepted_evals")
    _bump(counters, "req_cls_" + cls)
    _bump(counters, "req_reaction_" + reaction)
    _bump(counters, "req_op_" + op)
    where = "sop-class-accepted-elsewhere" if sopv == "CT" else "sop-class-accepted-nowhere"
    if calls:
        viol.append({"key": "requestor|c-store-subop|non-accepted-id|handler-invoked|%s|%s" % (where, cls),
                     "detail": "C-%s: C-STORE-RQ (msg id %d, SOP class %s) sent by the acceptor on context id %d (%s; accepted ids %r): "
                               "EVT_C_STORE handler ran %r (reported context id = third field); responses %r; then %r" % (
                                   op.upper(), sub_msg_id, sop_uid, tid, cls, sorted(accepted), calls, obs["responses"], script["end"])})
    if msgs:
        b = _brief(msgs[0])
        viol.append({"key": "requestor|c-store-subop|non-accepted-id|response-sent|%s|status-%s|%s" % (where, _status_class(b.get("status")), cls),
                     "detail": "C-%s: C-STORE-RQ (msg id %d, SOP class %s) sent by the acceptor on context id %d (%s; accepted ids %r): "
                               "P-DATA-TF came back %r; handler calls %r; then %r" % (
                                   op.upper(), sub_msg_id, sop_uid, tid, cls, sorted(accepted), obs["responses"], calls, script["end"])})
    for e in obs["excs"]:
        viol.append({"key": "escaped-exception|requestor|%s|%s|%s" % (cls, e["type"], e["where"]), "detail": "%r %r" % (ev, e)})
    return viol, obs, inconc, dkey


def run_requestor_case(case, counters):
    viol, samples, inconc, dkeys = [], [], [], []
    for ev in case["evals"]:
        v, obs, inc, dk = requestor_eval(ev, counters)
        _bump(counters, "req_evals")
        viol.extend(v)
        if inc:
            inconc.append("%s/%s/%s/%s: %s" % (ev["op"], ev["id"], ev["cls"], ev["sop"], inc))
        elif dk:
            dkeys.append([dk, ev["cls"] not in ("accepted", "mismatch")])
        if len(samples) < 3 or v:
            samples.append(obs)
    return viol, samples[:6], inconc, dkeys


# ------------------------------------------------------------------ entry points

_RACE = {"installed": False, "on": False, "hits": 0}


def _race_injection(on):
    """An 80 ms stop (sys.monitoring LINE event) at the statement of ACSE._negotiate_as_requestor that follows the publication of the
    accepted-context table: whatever that table holds at that point stays visible to the N-EVENT-REPORT thread for a while."""
    import sys
    from pynetdicom.acse import ACSE
    mon = sys.monitoring
    code = ACSE._negotiate_as_requestor.__code__
    if not _RACE["installed"]:
        mon.use_tool_id(5, "c19-race-yields")
        from vlib import sched
        # the statement that follows the publication of the accepted-context table: a long stop there, short ones everywhere else
        _RACE["hot"] = sched.find_line(ACSE._negotiate_as_requestor, "self.assoc._rejected_cx = [")

        def hit(c, line):
            if _RACE["on"]:
                _RACE["hits"] += 1
                if line == _RACE.get("hot"):
                    time.sleep(0.08)
        mon.register_callback(5, mon.events.LINE, hit)
        _RACE["installed"] = True
    _RACE["on"] = on
    mon.set_local_events(5, code, mon.events.LINE if on else 0)


def run_race_associate(case, counters):
    from pynetdicom import evt
    taps.reset()
    NER_SOP = "1.2.840.10008.1.20.1"          # Storage Commitment Push Model
    lst = vpeer.Listener()
    calls = []
    seen = {}

    def script():
        q = lst.accept(5.0)
        if q is None:
            return
        try:
            rq = q.recv_pdu(4.0)
            if not rq or rq.get("type") != "RQ":
                return
            results = {pc["id"]: (0 if pc["abs"] == VER else 3) for pc in rq["pcs"]}
            ac = ps38.make_ac(rq, results=results)
            rej = [pc["id"] for pc in ac["pcs"] if pc["result"] != 0]
            seen["rejected"] = rej
            cmd = cmdset.make("N-EVENT-REPORT-RQ", AffectedSOPClassUID=NER_SOP, MessageID=5, AffectedSOPInstanceUID="1.2.3.4", EventTypeID=1,
                              CommandDataSetType=0x0101)
            ner = b"".join(ps38.encode(v) for v in q.dimse_pdus(rej[0], cmd))
            gap = (0.0, 0.003, 0.01, 0.02, 0.04)[case["i"] % 5]
            if gap == 0.0:
                q.send_raw(ps38.encode(ac) + ner)        # one write: AC + request on the rejected context
            else:
                q.send_raw(ps38.encode(ac))
                time.sleep(gap)                          # ... or shortly behind it, while associate() is still busy with the AC
                q.send_raw(ner)
            seen["answers"] = [x.get("type") + (":%04X" % x["cmd"].get("Status", -1) if x.get("type") == "DIMSE" else "") for x in
                               (dict(v_, type="DIMSE" if v_.get("type") == "PDATA" else v_.get("type"), cmd=_first_cmd(v_)) for v_ in q.drain(quiet=0.5, limit=3.0))]
        finally:
            q.close()
    th = threading.Thread(target=script, daemon=True)
    th.start()
    ae = harness.make_ae("C19-SCU", timeouts=(3.0, 3.0, 4.0, 3.0), requested=[VER, NER_SOP])

    def on_ner(event):
        calls.append(event.context.context_id)
        return 0x0000, None
    _RACE["hits"] = 0
    _race_injection(True)
    try:
        assoc = ae.associate("127.0.0.1", lst.port, evt_handlers=[(evt.EVT_N_EVENT_REPORT, on_ner)])
        th.join(6.0)
        if assoc.is_established:
            assoc.release()
    finally:
        _race_injection(False)
        lst.close()
        harness.stop_ae(ae, 2.0)
    _bump(counters, "race_associate_cases")
    _bump(counters, "race_yield_hits", _RACE["hits"])
    viol = []
    if calls:
        viol.append({"key": "requestor|request-racing-the-associate-call|rejected|handler-invoked",
                     "detail": "N-EVENT-REPORT-RQ sent together with the A-ASSOCIATE-AC on the rejected context %r: EVT_N_EVENT_REPORT handler "
                               "invoked with context id(s) %r; acceptor saw %r" % (seen.get("rejected"), calls, seen.get("answers"))})
    if any(a.startswith("DIMSE:0000") for a in (seen.get("answers") or [])):
        viol.append({"key": "requestor|request-racing-the-associate-call|rejected|answered-as-valid",
                     "detail": "a Success response went back for a request on the rejected context: %r" % seen.get("answers")})
    inc = [] if "rejected" in seen else ["scripted acceptor did not get to send its AC"]
    return viol, [{"rejected": seen.get("rejected"), "answers": seen.get("answers"), "handler_calls": calls, "yield_hits": _RACE["hits"]}], inc, [("race-associate", bool(seen.get("rejected")))]


def _first_cmd(v):
    try:
        raw = bytes.fromhex(v["pdvs"][0]["data"])
        return cmdset.decode(raw[1:]) if raw[0] & 1 else {}
    except Exception:
        return {}


def run_case(case):
    counters = {}
    if case["dir"] == "race-associate":
        viol, samples, inconc, dkeys = run_race_associate(case, counters)
    elif case["dir"] == "acceptor":
        viol, samples, inconc, dkeys = run_acceptor_case(case, counters)
    else:
        viol, samples, inconc, dkeys = run_requestor_case(case, counters)
    # one violation entry per mechanism key per case (details of the first), count kept in counters
    seen, out = set(), []
    for v in viol:
        _bump(counters, "violating_observations")
        if v["key"] not in seen:
            seen.add(v["key"])
            out.append(v)
    return {"key": sha(case), "nontrivial": any(nt for _, nt in dkeys),
            "sample": {"dir": case["dir"], "n_evals": len(case["evals"]), "observed": samples},
            "violations": out, "counters": counters, "dkeys": dkeys,
            "inconclusive": ("; ".join(inconc[:3]) if inconc else None)}


def extra_evidence(tier, results):
    distinct, nontriv, pairs, rpairs = set(), set(), set(), set()
    for r in results.values():
        for dk, nt in r.get("dkeys") or []:
            distinct.add(dk)
            if nt:
                nontriv.add(dk)
            parts = dk.split("|")
            if parts[0] == "acceptor":
                pairs.add((parts[1], parts[2]))
            else:
                rpairs.add(parts[2])
    return {"distinct_nontrivial": len(nontriv), "distinct_evaluations": len(distinct),
            "acceptor_type_x_id_pairs_covered": len(pairs), "acceptor_type_x_id_pairs_total": 11 * 256,
            "requestor_ids_covered": len(rpairs)}
