"""C26 — a failing notification handler never changes the protocol exchange.

Part A (differential).  Two real pynetdicom AEs on loopback run a deterministic scripted lifecycle (vlib.lifecycle)
twice: (a) benign recording handlers bound to all 17 notification events on both sides, (b) the same handlers, but a
chosen subset of invocations raises.  Observed and compared: the PDUs on the wire in both directions (socket proxy
of vlib.taps, framed by the reference codec vlib.ps38), the DIMSE statuses the requestor got, the DIMSE messages both
sides saw, both associations' outcome flags / terminal notifications / final FSM state, the FSM transition paths, and
everything that escaped a thread (threading.excepthook) or made an FSM action raise.

Part B (intervention).  Every intervention event (EVT_C_*, EVT_N_*, EVT_USER_ID, EVT_ASYNC_OPS, EVT_SOP_COMMON,
EVT_SOP_EXTENDED) gets a handler that raises; the requestor must see the documented failure response / rejection,
nothing may escape into the protocol machinery and the association must stay usable (a following C-ECHO succeeds
and the release is orderly).
"""
from __future__ import annotations

import functools
import logging
import queue
import threading
import time

from vlib import harness, lifecycle, ps38, taps
from vlib.common import rng_for, sha

PID = "C26"
LEVEL = "fault_enumeration"
RULE = ("Part A: (scenario, side in {acceptor, requestor, both}, raise mask, handler callable kind, exception class) "
        "-> one differential pair = baseline run vs raising run of the same scripted lifecycle.  Scenarios: the "
        "lifecycle.SCENARIOS whose baseline observation is identical in 3 consecutive runs (others are skipped and "
        "counted) plus own deterministic ones (store/find/echo mixes ending in release or abort).  Masks: each single "
        "notification event (every invocation), each single invocation of the frequent events (FSM_TRANSITION, "
        "PDU/DATA/DIMSE/ACSE SENT/RECV), all events at once, seeded random subsets of (event, k-th invocation).  "
        "Normalisation of the compared observation: NONE on the wire (PDU bytes are compared verbatim per socket and "
        "direction: loopback ports, thread ids and timestamps do not appear in PDUs, message ids are the API "
        "defaults); interleaving BETWEEN the two directions and between the two threads of one association is not "
        "compared (per-direction PDU sequences, per-event-name notification projections).  A component of the "
        "observation is compared only if it was identical in the 3 baseline runs; a difference counts only if (1) it "
        "reproduces in 3 further rounds of (baseline re-run still equal, variant re-run differs in the same class) and "
        "(2) a timing control - the same handlers raising the same exceptions at the same invocations but catching them "
        "themselves - does NOT show it (otherwise the scenario is timing-sensitive there and the difference is only "
        "counted).  For 'all'/'random' masks the raising event is localised by re-running with one event at a time.  "
        "distinct = (scenario, side, mask, kind, exception "
        "class); non-trivial = at least one handler invocation really raised in the variant run.  "
        "Part B: (intervention event, raise shape, exception class) -> one association with a raising handler; "
        "non-trivial = the handler was entered and raised.")
ASSUMPTIONS = [
    "the scenarios kept are deterministic on loopback: decided at run time (3 identical baseline observations), "
    "never assumed",
    "handlers raise subclasses of Exception (not BaseException: SystemExit/KeyboardInterrupt are outside the "
    "documented catch)",
    "a handler may be any callable accepted by bind(): function, bound method, functools.partial, callable object, and may be bound with extra arguments of any type",
    "documented reaction to a raising intervention handler: C-STORE 0xC211, C-FIND 0xC311, C-GET 0xC411, C-MOVE "
    "0xC511 (docs/reference/status.rst), N-* 0x0110 Processing failure (service class docs), C-ECHO 0x0000 "
    "(VerificationServiceClass.SCP docstring), EVT_USER_ID -> association rejected, EVT_ASYNC_OPS / EVT_SOP_COMMON / "
    "EVT_SOP_EXTENDED -> item ignored, association established (acse.py docstrings)",
    "evt.trigger skips an event's remaining handlers after one raised (documented as 'caught and logged'); the "
    "scenario's own plumbing handler is therefore bound before the raising recorder handlers",
    "the accept loop of the test servers polls every 20 ms instead of 500 ms (harness speed only)",
]
WORKERS = {"quick": 16, "thorough": 16}
REQUIRE = {"pairs_compared": 120, "pairs_nontrivial": 100, "handler_raises": 300, "scenarios_deterministic": 8,
           "events_raised_distinct": 17, "intervention_cases": 15, "intervention_raises": 15}
MAX_INCONCLUSIVE_FRAC = 0.05
CASE_BUDGET_S = 20.0      # only applies once a case has already produced a violation

_LOG = logging.getLogger("pynetdicom.events")

NOTIF = ["EVT_ABORTED", "EVT_ACCEPTED", "EVT_ACSE_RECV", "EVT_ACSE_SENT", "EVT_CONN_CLOSE", "EVT_CONN_OPEN",
         "EVT_DATA_RECV", "EVT_DATA_SENT", "EVT_DIMSE_RECV", "EVT_DIMSE_SENT", "EVT_ESTABLISHED",
         "EVT_FSM_TRANSITION", "EVT_PDU_RECV", "EVT_PDU_SENT", "EVT_REJECTED", "EVT_RELEASED", "EVT_REQUESTED"]
FREQUENT = ["EVT_FSM_TRANSITION", "EVT_PDU_SENT", "EVT_PDU_RECV", "EVT_DATA_SENT", "EVT_DATA_RECV", "EVT_DIMSE_SENT",
            "EVT_DIMSE_RECV", "EVT_ACSE_SENT", "EVT_ACSE_RECV"]
TERMINAL = ("EVT_REQUESTED", "EVT_ACCEPTED", "EVT_ESTABLISHED", "EVT_REJECTED", "EVT_RELEASED", "EVT_ABORTED")

# candidates among lifecycle.SCENARIOS (the race scenarios are left out; determinism is still measured at run time).
# acceptor-aborts-idle is left out too: whether its A-ABORT PDU reaches the wire is a race inside pynetdicom (the acceptor's
# association thread closes the socket while the DUL thread is in AA-1) that any handler timing flips - C06's subject.
LIFECYCLE_CANDIDATES = ["nominal-release", "nominal-find-release", "requestor-abort", "requestor-abort-immediately",
                        "handler-aborts", "acceptor-releases-idle", "network-timeout-abort",
                        "network-timeout-release", "rejected-called-aet", "store-then-release"]
OWN_SCENARIOS = [
    {"name": "own-store-find-echo-release", "ops": ["store", "find", "echo", "store"], "end": "release"},
    {"name": "own-find-find-abort", "ops": ["find", "find"], "end": "abort"},
    {"name": "own-store-store-abort", "ops": ["store", "store", "echo"], "end": "abort"},
    {"name": "own-no-dimse-release", "ops": [], "end": "release"},
]
# a race scenario kept on purpose: it must be detected as nondeterministic and skipped (self-check of the filter)
RACE_PROBE = ["release-collision"]


def scenario(name):
    for s in OWN_SCENARIOS:
        if s["name"] == name:
            return s
    return lifecycle.BY_NAME[name]


# --------------------------------------------------------------------------------------------- raising handlers

class HandlerBoom(Exception):
    pass


class OddStr(Exception):
    """A user exception whose __str__ is itself faulty (returns a non-str)."""

    def __str__(self):
        return 0xC000


class OddRepr(Exception):
    """... and one whose __repr__ raises."""

    def __repr__(self):
        raise KeyError("repr of the exception failed")


class _Factory:
    """Callable producing the exception instance: `name` or `name:noargs` (an instance with EMPTY .args, as produced
    by a bare `raise ValueError`, a failed assert without message, queue.Empty from get_nowait(), StopIteration)."""

    def __init__(self, cls, noargs):
        self.cls, self.noargs = cls, noargs

    def __call__(self, msg=""):
        return self.cls() if self.noargs else self.cls(msg)


def _exc_class(name):
    if name.endswith(":noargs"):
        return _Factory(_exc_class_plain(name[:-7]), True)
    return _exc_class_plain(name)


def _exc_class_plain(name):
    import socket
    return {"RuntimeError": RuntimeError, "ValueError": ValueError, "KeyError": KeyError, "OSError": OSError,
            "TimeoutError": TimeoutError, "ConnectionResetError": ConnectionResetError, "AttributeError": AttributeError,
            "StopIteration": StopIteration, "NotImplementedError": NotImplementedError, "queue.Empty": queue.Empty,
            "socket.timeout": socket.timeout, "AssertionError": AssertionError, "TypeError": TypeError,
            "HandlerBoom": HandlerBoom, "OddStr": OddStr, "OddRepr": OddRepr}[name]


EXC_NAMES = ["RuntimeError", "ValueError", "KeyError", "OSError", "TimeoutError", "ConnectionResetError", "AttributeError",
             "StopIteration", "NotImplementedError", "queue.Empty", "AssertionError", "TypeError", "HandlerBoom",
             "ValueError:noargs", "AssertionError:noargs", "queue.Empty:noargs", "StopIteration:noargs", "RuntimeError:noargs",
             "OddStr", "OddRepr", "OddStr:noargs"]
KINDS_NAMED = ["function", "method", "lambda", "args"]  # callables with a __name__; "args" = bound with extra non-string arguments (bind(evt, f, args))
KINDS_UNNAMED = ["partial", "object"]                    # legitimate callables without a __name__


class Every:
    """Raise mask 'every invocation of these events' (lifecycle.Recorder only needs truthiness and `in`)."""

    def __init__(self, names):
        self.names = set(names)

    def __bool__(self):
        return True

    def __contains__(self, item):
        return item[0] in self.names


class _CallableObject:
    def __init__(self, fn):
        self.fn = fn

    def __call__(self, event):
        return self.fn(event)


class _Holder:
    def __init__(self, fn):
        self.fn = fn

    def handle(self, event):
        return self.fn(event)


class Cfg:
    kind = "function"
    exc = "RuntimeError"
    swallow = False      # timing control: the handler raises the same exception but catches it itself
    raised = []          # (side, event name)
    dimse = []           # (side, SENT|RECV, message class, MessageID(BeingRespondedTo), Status)
    lock = threading.Lock()


class C26Recorder(lifecycle.Recorder):
    """lifecycle.Recorder whose handlers are wrapped in the configured callable kind and raise the configured class."""

    def make(self, side, raise_mask=None):
        out = []
        for e, h in super().make(side, raise_mask):
            if Cfg.kind == "args":
                out.append((e, self._wrap(side, e.name, h), [7, {"k": None}, None, b"x"]))
            else:
                out.append((e, self._wrap(side, e.name, h)))
        return out

    @staticmethod
    def _wrap(side, name, h):
        def g(event):
            if name in ("EVT_DIMSE_SENT", "EVT_DIMSE_RECV"):
                try:
                    m = event.message
                    cs = m.command_set
                    rec = (side, name[-4:], type(m).__name__,
                           cs.get("MessageID", None) or cs.get("MessageIDBeingRespondedTo", None), cs.get("Status", None))
                except Exception as exc:          # observation must never be the failure
                    rec = (side, name[-4:], "?", None, repr(exc)[:60])
                with Cfg.lock:
                    Cfg.dimse.append(rec)
            try:
                return h(event)
            except RuntimeError as exc:
                if "injected failure" not in str(exc):
                    raise
                with Cfg.lock:
                    Cfg.raised.append((side, name))
                if Cfg.swallow:
                    # same work as a propagating failure (raise + the two log calls evt.trigger makes), nothing propagates
                    try:
                        raise _exc_class(Cfg.exc)(str(exc)) from None
                    except Exception as inner:
                        _LOG.error("control: exception swallowed inside the handler")
                        _LOG.exception(inner)
                    return None
                raise _exc_class(Cfg.exc)(str(exc)) from None
        kind = Cfg.kind
        if kind == "partial":
            return functools.partial(g)
        if kind == "object":
            return _CallableObject(g)
        if kind == "method":
            return _Holder(g).handle
        if kind == "lambda":
            return lambda event: g(event)
        if kind == "args":
            def with_extra_args(event, *extra):
                return g(event)
            return with_extra_args
        return g


def setup_worker():
    harness.quiet_logging()
    taps.install()
    lifecycle.Recorder = C26Recorder
    # harness speed only: AE.shutdown() waits for the accept loop's poll interval (0.5 s by default)
    from pynetdicom.transport import AssociationServer
    if not getattr(AssociationServer, "_c26_fast_poll", False):
        orig = AssociationServer.serve_forever

        def serve_forever(self, poll_interval=0.02):
            return orig(self, 0.02)
        AssociationServer.serve_forever = serve_forever
        AssociationServer._c26_fast_poll = True


# --------------------------------------------------------------------------------------------- observation

PDU_NAME = {1: "A-ASSOCIATE-RQ", 2: "A-ASSOCIATE-AC", 3: "A-ASSOCIATE-RJ", 4: "P-DATA-TF", 5: "A-RELEASE-RQ",
            6: "A-RELEASE-RP", 7: "A-ABORT"}


def _pdu_desc(b):
    if not b:
        return "<none>"
    s = "%s[%d]" % (PDU_NAME.get(b[0], "type-%d" % b[0]), len(b))
    if b[0] == 4 and len(b) >= 12:
        s += "(ctx %d %s%s)" % (b[10], "cmd" if b[11] & 1 else "data", "/last" if b[11] & 2 else "")
        if b[11] & 1:
            try:
                from vlib import cmdset
                cmd = cmdset.decode(bytes(b[12:]))
                inv = {v: k for k, v in cmdset.COMMAND_FIELD.items()} if isinstance(cmdset.COMMAND_FIELD, dict) else {}
                cf = cmd.get("CommandField")
                s += "{%s status=%r}" % (inv.get(cf, cf), cmd.get("Status"))
            except Exception:
                pass
    elif b[0] == 7 and len(b) >= 10:
        s += "(source %d reason %d)" % (b[8], b[9])
    elif b[0] == 3 and len(b) >= 10:
        s += "(result %d source %d reason %d)" % (b[7], b[8], b[9])
    return s


def observe(out):
    """Everything compared between two runs, grouped in components; taken right after lifecycle.run()."""
    wire = {}
    for p in list(taps.State.socks):
        ent = {}
        for d in ("tx", "rx"):
            pdus, rem = taps.wire_pdus(p.sid, d)
            ent[d] = [bytes(x).hex() for x in pdus]
            ent[d + "_rem"] = bytes(rem).hex()
        wire.setdefault(str(p.role), []).append(ent)
    hist = out["history"]
    proj = {}
    fsm = {}
    dul_payload = {}
    counts = {"req": {}, "acc": {}}
    for e in hist:
        side, nm = e["side"], e["name"]
        if nm not in NOTIF:
            continue
        counts[side][nm] = counts[side].get(nm, 0) + 1
        if nm == "EVT_FSM_TRANSITION":
            fsm.setdefault(side, []).append("%s+%s>%s>%s" % (e["cur"], e["fsm_event"], e["action"], e["nxt"]))
        elif nm in ("EVT_PDU_SENT", "EVT_PDU_RECV", "EVT_DATA_SENT", "EVT_DATA_RECV"):
            b = e.get("bytes")
            dul_payload.setdefault(side + "/" + nm, []).append(sha(b) if b is not None else e.get("err"))
        elif nm in ("EVT_ACSE_SENT", "EVT_ACSE_RECV"):
            proj.setdefault(side + "/" + nm, []).append(e.get("prim"))
    with Cfg.lock:
        dimse = {}
        for (side, d, cls, mid, st) in Cfg.dimse:
            dimse.setdefault(side + "/" + d, []).append("%s id=%r status=%r" % (cls, mid, st))
    terminal = {s: [e["name"] for e in hist if e["side"] == s and e["name"] in TERMINAL] for s in ("req", "acc")}

    def fl(f):
        return None if f is None else {k: f[k] for k in ("established", "released", "aborted", "rejected", "alive", "dul_alive", "fsm")}
    comp = {
        "wire": wire,
        "statuses": out["statuses"],
        "outcome": {"req": fl(out["req"]), "acc": fl(out["acc"]), "terminal": terminal, "user_exc": out["user_exc"],
                    "requestor_returned": out["requestor_returned"], "quiet": out["quiet"],
                    "open_sockets": out["open_sockets"], "stuck": len(out["stuck"])},
        "dimse": dimse,
        "fsm": fsm,
        "acse": proj,
        "dul_payload": dul_payload,
        "counts": counts,
    }
    problems = {"excs": [{k: x.get(k) for k in ("thread", "type", "where", "text", "frames")} for x in out["excs"]],
                "fsm_problems": [{k: p.get(k) for k in ("kind", "pair", "action", "exc", "text")} for p in out["fsm_problems"]]}
    return comp, problems


VIOLATION_COMPONENTS = ["wire", "statuses", "outcome", "dimse", "fsm"]     # what the property statement talks about
INFO_COMPONENTS = ["acse", "dul_payload", "counts"]                          # reported in counters only


def _first_diff(a, b, path=""):
    if type(a) is not type(b):
        return "%s: %r != %r" % (path, a, b)
    if isinstance(a, dict):
        for k in sorted(set(a) | set(b), key=str):
            if a.get(k) != b.get(k):
                return _first_diff(a.get(k), b.get(k), path + "/" + str(k)) if (k in a and k in b) else \
                    "%s/%s: %r != %r" % (path, k, a.get(k), b.get(k))
    if isinstance(a, list):
        for i in range(max(len(a), len(b))):
            x = a[i] if i < len(a) else None
            y = b[i] if i < len(b) else None
            if x != y:
                if isinstance(x, (dict, list)) and isinstance(y, (dict, list)):
                    return _first_diff(x, y, "%s[%d]" % (path, i))
                return "%s[%d] (lengths %d/%d): %s != %s" % (path, i, len(a), len(b), _short(x), _short(y))
    return "%s: %s != %s" % (path, _short(a), _short(b))


def _short(x):
    if isinstance(x, str) and len(x) > 24 and all(c in "0123456789abcdef" for c in x):
        try:
            return _pdu_desc(bytes.fromhex(x))
        except ValueError:
            pass
    r = repr(x)
    return r if len(r) < 160 else r[:160] + "..."


def run_once(scn, seed, mask_acc=None, mask_req=None, kind="function", exc="RuntimeError", swallow=False):
    Cfg.kind, Cfg.exc, Cfg.swallow = kind, exc, swallow
    with Cfg.lock:
        Cfg.raised = []
        Cfg.dimse = []
    out = lifecycle.run(scn, seed, raise_mask_acc=mask_acc, raise_mask_req=mask_req, watchdog=6.0)
    comp, problems = observe(out)
    with Cfg.lock:
        raised = list(Cfg.raised)
    return comp, problems, raised


_BASELINES = {}


def baseline(scn, seed, fresh=False):
    """3 benign runs -> (reference components, set of stable component names, invocation counts, problems) or None."""
    key = scn["name"]
    if key in _BASELINES and not fresh:
        return _BASELINES[key]
    runs = [run_once(scn, seed) for _ in range(3)]
    comps = [r[0] for r in runs]
    stable = {c for c in comps[0] if all(x[c] == comps[0][c] for x in comps[1:])}
    problems = [r[1] for r in runs]
    res = {"ref": comps[0], "stable": stable, "counts": comps[0]["counts"], "clean": all(not p["excs"] and not p["fsm_problems"] for p in problems),
           "problems": problems[0], "unstable_detail": None}
    if not {"wire", "statuses", "outcome"} <= stable:
        for c in ("wire", "statuses", "outcome"):
            if c not in stable:
                other = next(x for x in comps[1:] if x[c] != comps[0][c])
                res["unstable_detail"] = "%s %s" % (c, _first_diff(comps[0][c], other[c]))
                break
    _BASELINES[key] = res
    return res


# --------------------------------------------------------------------------------------------- masks

def concrete_masks(spec, side, counts, seed, scn_name):
    """mask spec -> list of (label, event-for-key, {side: mask}) using the baseline invocation counts."""
    sides = ("acc", "req") if side == "both" else (side,)
    t = spec["t"]
    out = []
    if t == "event":
        ev = spec["ev"]
        if any(counts[s].get(ev) for s in sides):
            out.append(("every:" + ev, ev, {s: Every([ev]) for s in sides if counts[s].get(ev)}))
    elif t == "all":
        out.append(("all", "ALL", {s: Every(NOTIF) for s in sides}))
    elif t == "each":
        ev = spec["ev"]
        n = max(counts[s].get(ev, 0) for s in sides)
        ks = list(range(1, n + 1))
        cap = spec.get("max")
        if cap and len(ks) > cap:
            r = rng_for(seed, PID, "each", scn_name, side, ev)
            ks = sorted(r.sample(ks, cap))
        for k in ks:
            m = {s: {(ev, k)} for s in sides if counts[s].get(ev, 0) >= k}
            if m:
                out.append(("one:%s#%d" % (ev, k), ev, m))
    elif t == "random":
        r = rng_for(seed, PID, "random", scn_name, side, spec["n"])
        p = spec.get("p", 0.25)
        m = {}
        for s in sides:
            sel = {(ev, k) for ev in NOTIF for k in range(1, counts[s].get(ev, 0) + 1) if r.random() < p}
            if sel:
                m[s] = sel
        if m:
            out.append(("random#%d" % spec["n"], "RANDOM", m))
    return out


def _mask_events(m):
    evs = set()
    for s, mk in m.items():
        evs |= set(mk.names) if isinstance(mk, Every) else {e for e, _ in mk}
    return sorted(evs)


def _restrict(m, ev):
    out = {}
    for s, mk in m.items():
        if isinstance(mk, Every):
            if ev in mk.names:
                out[s] = Every([ev])
        else:
            sel = {(e, k) for e, k in mk if e == ev}
            if sel:
                out[s] = sel
    return out


# --------------------------------------------------------------------------------------------- differential pair

def compare(base, comp, problems):
    """-> list of (class, detail) for reproducible-relevant differences, info dict."""
    diffs = []
    for c in VIOLATION_COMPONENTS:
        if c in base["stable"] and comp[c] != base["ref"][c]:
            diffs.append((c, _first_diff(base["ref"][c], comp[c], c)))
    for x in problems["excs"]:
        diffs.append(("exc", "%s in thread %s at %s: %s %r" % (x["type"], x["thread"], x["where"], x["text"], x["frames"])))
    for p in problems["fsm_problems"]:
        diffs.append(("fsmproblem", "%s %s %s %s" % (p["kind"], p.get("pair"), p.get("exc"), p.get("text"))))
    info = [c for c in INFO_COMPONENTS if c in base["stable"] and comp[c] != base["ref"][c]]
    return diffs, info


CLASS_KEY = {"wire": "wire-differs", "statuses": "outcome-differs|dimse-status", "outcome": "outcome-differs|association",
             "dimse": "dimse-messages-differ", "fsm": "fsm-path-differs"}


def differential(scn, seed, side, label, evkey, m, kind, exc, base, counters):
    viol = []
    comp, problems, raised = run_once(scn, seed, m.get("acc"), m.get("req"), kind, exc)
    counters["pairs_compared"] += 1
    counters["handler_raises"] += len(raised)
    if raised:
        counters["pairs_nontrivial"] += 1
    diffs, info = compare(base, comp, problems)
    for c in info:
        counters["info_%s_differs" % c] = counters.get("info_%s_differs" % c, 0) + 1
    if not diffs:
        return viol, raised, None
    if not raised:
        counters["difference_without_any_raise"] = counters.get("difference_without_any_raise", 0) + 1
        return viol, raised, "run differs from the baseline although no handler raised (flaky run)"
    # ---- confirm: three more rounds (baseline re-run, variant re-run); the baseline must still reproduce every time and
    #      the variant must differ in the same classes every time (the machine is shared: stalls of > 100 ms happen, and
    #      pynetdicom's requestor has a rare unrelated race that loses a DIMSE response)
    classes = {c for c, _ in diffs}
    for _ in range(3):
        b2, bp2, _r = run_once(scn, seed)
        if any(c in base["stable"] and b2[c] != base["ref"][c] for c in VIOLATION_COMPONENTS) or bp2["excs"] or bp2["fsm_problems"]:
            counters["unconfirmed_baseline_flaky"] += 1
            return viol, raised, "baseline did not reproduce"
        comp2, problems2, raised2 = run_once(scn, seed, m.get("acc"), m.get("req"), kind, exc)
        diffs2, _i = compare(base, comp2, problems2)
        classes &= {c for c, _ in diffs2}
        if not classes:
            counters["unconfirmed_variant_flaky"] += 1
            return viol, raised, "difference did not reproduce: %r" % (diffs[:1],)
    # ---- timing control: the same handlers raise the same exceptions at the same invocations but catch them themselves.
    #      If that alone changes the exchange, the scenario is timing-sensitive at this point (a slow benign handler would
    #      do the same) and the difference says nothing about exception propagation.
    cc, cp, cr = run_once(scn, seed, m.get("acc"), m.get("req"), kind, exc, swallow=True)
    cd, _ = compare(base, cc, cp)
    if {c for c, _ in cd} & classes:
        cc2, cp2, _ = run_once(scn, seed, m.get("acc"), m.get("req"), kind, exc, swallow=True)
        cd2, _ = compare(base, cc2, cp2)
        classes -= ({c for c, _ in cd} | {c for c, _ in cd2})
        counters["timing_sensitive_differences"] = counters.get("timing_sensitive_differences", 0) + 1
        if not classes:
            return viol, raised, "timing-sensitive (the swallowing control differs from the baseline too): %r" % (cd[:1],)
    # ---- localise the raising event of multi-event masks
    culprit = evkey
    if evkey in ("ALL", "RANDOM"):
        culprit = "COMBINATION"
        for ev in _mask_events(m):
            mm = _restrict(m, ev)
            if not mm:
                continue
            c3, p3, r3 = run_once(scn, seed, mm.get("acc"), mm.get("req"), kind, exc)
            d3, _ = compare(base, c3, p3)
            if r3 and {c for c, _ in d3} & classes:
                culprit = ev
                break
    unnamed = kind not in KINDS_NAMED
    where = "mask %s on %s, handler kind %s raising %s, %d raise(s) [%s]" % (
        label, side, kind, exc, len(raised), ",".join(sorted({"%s/%s" % r for r in raised}))[:200])
    for c, detail in diffs:
        if c not in classes:
            continue
        if c == "exc":
            x = problems["excs"][0]
            key = "exception-escaped|%s|%s|%s" % (culprit, x["type"], x["where"] or x["thread"])
        elif c == "fsmproblem":
            p = problems["fsm_problems"][0]
            key = "fsm-problem|%s|%s|%s" % (culprit, p["kind"], p.get("pair"))
        else:
            key = "%s|%s|%s|%s" % (CLASS_KEY[c], scn["name"], culprit, side)
        if unnamed:
            # one root cause class first (a callable without __name__), then only the raising event
            key = "handler-without-__name__|%s|%s" % ("exchange-differs" if c in CLASS_KEY else key.split("|")[0], culprit)
        if not any(v["key"] == key for v in viol):
            viol.append({"key": key, "detail": "%s: %s; %s" % (scn["name"], detail, where)})
    return viol, raised, None


# --------------------------------------------------------------------------------------------- cases

def _mask_specs(tier, seed, scn_name, side):
    r = rng_for(seed, PID, "specs", scn_name, side)
    specs = [{"t": "event", "ev": ev} for ev in NOTIF] + [{"t": "all"}]
    if tier == "quick" and side == "both":
        specs = [{"t": "event", "ev": ev} for ev in sorted(r.sample(NOTIF, 8))] + [{"t": "all"}]
    if tier == "quick":
        specs += [{"t": "random", "n": 0, "p": 0.25}]
        for ev in r.sample(FREQUENT, 2):
            specs.append({"t": "each", "ev": ev, "max": 3})
    else:
        specs += [{"t": "random", "n": i, "p": (0.05, 0.1, 0.25, 0.5)[i % 4]} for i in range(32)]
        for ev in FREQUENT:
            specs.append({"t": "each", "ev": ev, "max": 40})
    return specs


def gen_cases(tier, seed):
    cases, unnamed = [], []
    names = LIFECYCLE_CANDIDATES + [s["name"] for s in OWN_SCENARIOS] + RACE_PROBE
    # quick: one case per (scenario, side) - the 3 baseline runs are cached per worker and scenario, so fewer, larger cases
    # mean fewer baseline runs; thorough: blocks (the 'each' specs expand to many masks)
    block = 100 if tier == "quick" else 14
    reps = 1 if tier == "quick" else 3          # thorough: every (scenario, side) with 3 (callable kind, exception class) draws
    for name in names:
        for side in ("acc", "req", "both"):
            specs = _mask_specs(tier, seed, name, side)
            if name in RACE_PROBE:
                specs = specs[:2]
            for rep in range(reps if name not in RACE_PROBE else 1):
                r = rng_for(seed, PID, "kinds", name, side, rep)
                for bi in range(0, len(specs), block):
                    cases.append({"part": "diff", "scenario": name, "side": side, "seed": seed, "specs": specs[bi:bi + block],
                                  "kind": r.choice(KINDS_NAMED), "exc": r.choice(EXC_NAMES)})
            # legitimate callables without __name__ (functools.partial / callable object) get their own small blocks, so
            # that their keys stay separable
            if name not in RACE_PROBE:
                r = rng_for(seed, PID, "unnamed-kinds", name, side)
                unnamed.append({"part": "diff", "scenario": name, "side": side, "seed": seed,
                                "specs": [{"t": "event", "ev": ev} for ev in r.sample(NOTIF, 1 if tier == "quick" else 8)],
                                "kind": r.choice(KINDS_UNNAMED), "exc": r.choice(EXC_NAMES)})
    cases += intervention_cases(tier, seed)
    if tier == "quick":
        unnamed = rng_for(seed, PID, "unnamed").sample(unnamed, 8)     # one event each: slow on a tree where they fail
    # first: on a tree where they fail each pair is mostly waiting for timeouts (cheap in CPU, long in wall time), so they
    # should overlap with everything else instead of forming the tail of the run
    return unnamed + cases


def run_case(case):
    if case["part"] == "diff":
        return run_diff_case(case)
    return run_intervention_case(case)


def run_diff_case(case):
    scn = scenario(case["scenario"])
    seed, side = case["seed"], case["side"]
    counters = {"pairs_compared": 0, "pairs_nontrivial": 0, "handler_raises": 0, "unconfirmed_baseline_flaky": 0,
                "unconfirmed_variant_flaky": 0, "masks_skipped_event_absent": 0, "scenario_blocks_skipped_nondeterministic": 0,
                "scenario_blocks_deterministic": 0}
    base = baseline(scn, seed)
    sample = {"scenario": scn["name"], "side": side, "kind": case["kind"], "exc": case["exc"]}
    if not base["clean"]:
        counters["baseline_not_clean"] = 1
        return {"key": "baseline-not-clean|" + scn["name"], "nontrivial": False, "sample": dict(sample, problems=base["problems"]),
                "violations": [], "counters": counters, "inconclusive": None, "pair_keys": [], "det": None, "events": []}
    if not {"wire", "statuses", "outcome"} <= base["stable"]:
        counters["scenario_blocks_skipped_nondeterministic"] = 1
        return {"key": "nondeterministic|" + scn["name"], "nontrivial": False,
                "sample": dict(sample, skipped="baseline differs between runs: %s" % base["unstable_detail"]),
                "violations": [], "counters": counters, "inconclusive": None, "pair_keys": [], "det": [scn["name"], False], "events": []}
    counters["scenario_blocks_deterministic"] = 1
    viol, pair_keys, events, notes = [], [], set(), []
    t_start = time.time()
    for spec in case["specs"]:
        masks = concrete_masks(spec, side, base["counts"], seed, scn["name"])
        if not masks:
            counters["masks_skipped_event_absent"] += 1
        for label, evkey, m in masks:
            if viol and time.time() - t_start > CASE_BUDGET_S:
                # a broken tree makes every pair expensive (confirmation rounds, timeouts): enough has been shown
                counters["masks_skipped_case_budget"] = counters.get("masks_skipped_case_budget", 0) + 1
                continue
            v, raised, note = differential(scn, seed, side, label, evkey, m, case["kind"], case["exc"], base, counters)
            for x in v:
                if not any(y["key"] == x["key"] for y in viol):
                    viol.append(x)
            if raised:
                pair_keys.append("|".join([scn["name"], side, label, case["kind"], case["exc"]]))
                events |= {"%s/%s" % r for r in raised}
            if note:
                notes.append("%s: %s" % (label, note))
    sample.update(pairs=counters["pairs_compared"], raises=counters["handler_raises"],
                  baseline_wire={role: [[_pdu_desc(bytes.fromhex(x)) for x in s["tx"]] for s in socks]
                                 for role, socks in base["ref"]["wire"].items()},
                  stable=sorted(base["stable"]), notes=notes[:4])
    return {"key": sha(pair_keys), "nontrivial": bool(pair_keys), "sample": sample, "violations": viol, "counters": counters,
            "inconclusive": None, "pair_keys": pair_keys, "det": [scn["name"], True], "events": sorted(events)}


def extra_evidence(tier, results):
    pairs, det, nondet, events, iv = set(), set(), set(), set(), set()
    for r in results.values():
        pairs |= set(r.get("pair_keys") or [])
        d = r.get("det")
        if d:
            (det if d[1] else nondet).add(d[0])
        events |= set(r.get("events") or [])
        if r.get("iv_key"):
            iv.add(r["iv_key"])
    slow = sorted(((r.get("wall", 0), (r.get("sample") or {}).get("scenario") or (r.get("sample") or {}).get("event"),
                    (r.get("sample") or {}).get("side"), (r.get("sample") or {}).get("kind")) for r in results.values()),
                  key=lambda x: -x[0])[:6]
    return {"slowest_cases": slow, "total_case_wall_s": int(sum(r.get("wall", 0) for r in results.values())),
            "distinct_nontrivial": len(pairs) + len(iv), "scenarios_deterministic": len(det),
            "scenarios_used": sorted(det), "scenarios_with_a_nondeterministic_baseline_block": sorted(nondet),
            "events_raised_distinct": len({e.split("/")[1] for e in events}),
            "side_events_raised": sorted(events), "intervention_distinct": len(iv)}


# --------------------------------------------------------------------------------------------- part B: intervention

VER = "1.2.840.10008.1.1"
CT = "1.2.840.10008.5.1.4.1.1.2"
FIND = "1.2.840.10008.5.1.4.1.2.1.1"
MOVE = "1.2.840.10008.5.1.4.1.2.1.2"
GET = "1.2.840.10008.5.1.4.1.2.1.3"
FILM = "1.2.840.10008.5.1.1.1"          # Basic Film Session: Print Management accepts all six DIMSE-N services

# event -> (documented status of the (last) response | None for negotiation events)
IV_STATUS = {"EVT_C_ECHO": 0x0000, "EVT_C_STORE": 0xC211, "EVT_C_FIND": 0xC311, "EVT_C_GET": 0xC411, "EVT_C_MOVE": 0xC511,
             "EVT_N_ACTION": 0x0110, "EVT_N_CREATE": 0x0110, "EVT_N_DELETE": 0x0110, "EVT_N_EVENT_REPORT": 0x0110,
             "EVT_N_GET": 0x0110, "EVT_N_SET": 0x0110}
IV_NEGOTIATION = ["EVT_USER_ID", "EVT_ASYNC_OPS", "EVT_SOP_COMMON", "EVT_SOP_EXTENDED"]
IV_GENERATORS = ["EVT_C_FIND", "EVT_C_GET", "EVT_C_MOVE"]


def intervention_cases(tier, seed):
    cases = []
    r = rng_for(seed, PID, "intervention")
    targets = [(ev, "call") for ev in list(IV_STATUS) + IV_NEGOTIATION + ["EVT_C_STORE@requestor"]]
    targets += [(ev, sh) for ev in IV_GENERATORS for sh in ("gen-first", "gen-mid")]
    for ev, shape in targets:
        excs = EXC_NAMES if tier != "quick" else r.sample(EXC_NAMES, 2)
        for exc in excs:
            cases.append({"part": "intervention", "event": ev, "shape": shape, "exc": exc, "seed": seed})
    return cases


def _identifier():
    from pydicom.dataset import Dataset
    ds = Dataset()
    ds.QueryRetrieveLevel = "PATIENT"
    ds.PatientName = "*"
    return ds


def _instance():
    from pydicom.dataset import Dataset, FileMetaDataset
    ds = Dataset()
    ds.SOPClassUID = CT
    ds.SOPInstanceUID = "1.2.826.0.1.3680043.9.3811.26.1"
    ds.PatientName = "C26"
    ds.file_meta = FileMetaDataset()
    ds.file_meta.TransferSyntaxUID = "1.2.840.10008.1.2"
    return ds


def run_intervention_case(case):
    """A violation must reproduce in two further runs of the same case (pynetdicom's requestor has a rare, unrelated race
    in which a DIMSE response is taken by the requestor's own reactor: the API then returns an empty status and aborts)."""
    res = _intervention_once(case)
    if res["violations"]:
        keys = {v["key"] for v in res["violations"]}
        for _ in range(2):
            again = _intervention_once(case)
            keys &= {v["key"] for v in again["violations"]}
            if not keys:
                break
        dropped = [v["key"] for v in res["violations"] if v["key"] not in keys]
        res["violations"] = [v for v in res["violations"] if v["key"] in keys]
        if dropped:
            res["counters"]["intervention_unconfirmed"] = len(dropped)
            res["sample"]["unconfirmed"] = dropped
    return res


def _intervention_once(case):
    from pynetdicom import evt, build_role
    from pynetdicom.pdu_primitives import (UserIdentityNegotiation, AsynchronousOperationsWindowNegotiation,
                                           SOPClassExtendedNegotiation, SOPClassCommonExtendedNegotiation)
    from pydicom.dataset import Dataset
    target, shape, excname = case["event"], case["shape"], case["exc"]
    ev_name = target.split("@")[0]
    exc_cls = _exc_class(excname)
    taps.reset()
    st = {"entered": 0, "raised": 0, "subop_rsp": [], "echo": 0}
    viol = []
    counters = {"intervention_cases": 1, "intervention_raises": 0}

    def boom():
        st["raised"] += 1
        raise exc_cls("injected failure in %s handler" % target)

    def h_call(event):
        st["entered"] += 1
        if ev_name == "EVT_C_ECHO" and st["entered"] > 1:
            st["echo"] += 1
            return 0x0000          # the follow-up C-ECHO that proves the association is still usable
        boom()

    def h_gen(event):
        st["entered"] += 1
        if shape == "gen-mid":
            if ev_name == "EVT_C_FIND":
                ds = _identifier(); ds.PatientName = "A"
                yield 0xFF00, ds
            elif ev_name == "EVT_C_GET":
                yield 1
            elif ev_name == "EVT_C_MOVE":
                yield ("127.0.0.1", st["dest_port"])
                yield 1
        boom()
        yield 0x0000, None          # pragma: no cover (makes this a generator function)

    def h_echo(event):
        st["echo"] += 1
        return 0x0000

    def h_get_for_subop(event):
        yield 1
        yield 0xFF00, _instance()

    def h_dimse_recv(event):
        m = event.message
        if type(m).__name__ == "C_STORE_RSP":
            st["subop_rsp"].append(m.command_set.get("Status", None))

    raising = h_gen if shape.startswith("gen") else h_call
    acc_handlers, req_handlers, ext_neg = [], [], []
    if target == "EVT_C_STORE@requestor":
        acc_handlers = [(evt.EVT_C_GET, h_get_for_subop), (evt.EVT_C_ECHO, h_echo), (evt.EVT_DIMSE_RECV, h_dimse_recv)]
        req_handlers = [(evt.EVT_C_STORE, raising)]
        ext_neg.append(build_role(CT, scp_role=True))
    else:
        acc_handlers = [(getattr(evt, ev_name), raising)]
        if ev_name != "EVT_C_ECHO":
            acc_handlers.append((evt.EVT_C_ECHO, h_echo))
    if ev_name == "EVT_USER_ID":
        ui = UserIdentityNegotiation()
        ui.user_identity_type = 1
        ui.primary_field = b"user"
        ext_neg.append(ui)
    elif ev_name == "EVT_ASYNC_OPS":
        ao = AsynchronousOperationsWindowNegotiation()
        ao.maximum_number_operations_invoked = 3
        ao.maximum_number_operations_performed = 2
        ext_neg.append(ao)
    elif ev_name == "EVT_SOP_EXTENDED":
        se = SOPClassExtendedNegotiation()
        se.sop_class_uid = CT
        se.service_class_application_information = b"\x02\x00\x03\x00\x01\x00"
        ext_neg.append(se)
    elif ev_name == "EVT_SOP_COMMON":
        sc = SOPClassCommonExtendedNegotiation()
        sc.sop_class_uid = CT
        sc.service_class_uid = "1.2.840.10008.4.2"
        ext_neg.append(sc)

    ae_acc = harness.make_ae(title="ACCEPTOR", timeouts=(1.0, 1.0, 2.0, 1.0), supported=[VER, CT, FIND, GET, MOVE, FILM])
    if target == "EVT_C_STORE@requestor":
        for cx in ae_acc.supported_contexts:
            if cx.abstract_syntax == CT:
                cx.scu_role, cx.scp_role = True, True
    ae_req = harness.make_ae(title="REQUESTOR", timeouts=(1.0, 1.5, 2.0, 1.0), requested=[VER, CT, FIND, GET, MOVE, FILM])
    ae_dest = None
    if ev_name == "EVT_C_MOVE" and shape == "gen-mid":
        # a real move destination, so that the handler is resumed (and raises) after the store association is up
        ae_dest = harness.make_ae(title="DEST", timeouts=(1.0, 1.0, 2.0, 1.0), supported=[CT])
        _, st["dest_port"] = harness.start_server(ae_dest, [(evt.EVT_C_STORE, lambda event: 0x0000)])
        ae_acc.add_requested_context(CT)
    server, port = harness.start_server(ae_acc, acc_handlers)
    obs = {"established": None, "rejected": None, "statuses": None, "echo": None, "released": None, "user_exc": None,
           "final": None}

    def requestor():
        try:
            a = ae_req.associate("127.0.0.1", port, ext_neg=ext_neg or None, evt_handlers=req_handlers)
            obs["assoc"] = a
            obs["established"], obs["rejected"] = a.is_established, a.is_rejected
            if not a.is_established:
                return
            al = Dataset(); al.PatientName = "x"
            if ev_name == "EVT_C_ECHO":
                obs["statuses"] = [getattr(a.send_c_echo(), "Status", None)]
            elif target == "EVT_C_STORE":
                obs["statuses"] = [getattr(a.send_c_store(_instance()), "Status", None)]
            elif ev_name == "EVT_C_FIND":
                obs["statuses"] = [getattr(s, "Status", None) for s, _ in a.send_c_find(_identifier(), FIND)]
            elif ev_name == "EVT_C_GET" or target == "EVT_C_STORE@requestor":
                rsps = list(a.send_c_get(_identifier(), GET))
                obs["statuses"] = [getattr(s, "Status", None) for s, _ in rsps]
                if rsps:
                    obs["final"] = {k: getattr(rsps[-1][0], k, None) for k in (
                        "NumberOfFailedSuboperations", "NumberOfCompletedSuboperations", "NumberOfWarningSuboperations")}
            elif ev_name == "EVT_C_MOVE":
                obs["statuses"] = [getattr(s, "Status", None) for s, _ in a.send_c_move(_identifier(), "DEST", MOVE)]
            elif ev_name == "EVT_N_CREATE":
                obs["statuses"] = [getattr(a.send_n_create(al, FILM, "1.2.3.4")[0], "Status", None)]
            elif ev_name == "EVT_N_SET":
                obs["statuses"] = [getattr(a.send_n_set(al, FILM, "1.2.3.4")[0], "Status", None)]
            elif ev_name == "EVT_N_GET":
                obs["statuses"] = [getattr(a.send_n_get([0x00100010], FILM, "1.2.3.4")[0], "Status", None)]
            elif ev_name == "EVT_N_ACTION":
                obs["statuses"] = [getattr(a.send_n_action(al, 1, FILM, "1.2.3.4")[0], "Status", None)]
            elif ev_name == "EVT_N_EVENT_REPORT":
                obs["statuses"] = [getattr(a.send_n_event_report(al, 1, FILM, "1.2.3.4")[0], "Status", None)]
            elif ev_name == "EVT_N_DELETE":
                obs["statuses"] = [getattr(a.send_n_delete(FILM, "1.2.3.4"), "Status", None)]
            if a.is_established:
                obs["echo"] = getattr(a.send_c_echo(), "Status", None)
            if a.is_established:
                a.release()
            obs["released"] = a.is_released
        except Exception as exc:
            obs["user_exc"] = repr(exc)

    t = threading.Thread(target=requestor, daemon=True)
    t0 = time.time()
    t.start()
    t.join(12.0)
    quiet_ok, _ = taps.wait_quiet(max(1.0, 12.0 - (time.time() - t0)))
    accs = harness.acceptor_assocs()
    accs = [a for a in accs if a.ae is ae_acc] or accs
    acc = accs[0] if accs else None
    acc_flags = None if acc is None else {"released": acc.is_released, "aborted": acc.is_aborted, "rejected": acc.is_rejected,
                                          "established": acc.is_established}
    excs = [{k: x.get(k) for k in ("thread", "type", "where", "text", "frames")} for x in taps.State.excs]
    fsm_problems = [{k: p.get(k) for k in ("kind", "pair", "action", "exc", "text")} for p in taps.State.fsm_problems]
    harness.stop_ae(ae_acc, 3.0)
    harness.stop_ae(ae_req, 3.0)
    if ae_dest is not None:
        harness.stop_ae(ae_dest, 3.0)
    counters["intervention_raises"] = 1 if st["raised"] else 0
    what = "%s handler (%s) raising %s" % (target, shape, excname)
    sample = {"event": target, "shape": shape, "exc": excname, "observed": {k: v for k, v in obs.items() if k != "assoc"},
              "acceptor": acc_flags, "handler": st}
    inconclusive = None
    if t.is_alive() or not quiet_ok:
        viol.append({"key": "intervention|%s|hang" % target, "detail": "%s: requestor returned=%s, all threads ended=%s; %r" % (
            what, not t.is_alive(), quiet_ok, sample["observed"])})
    if obs["user_exc"]:
        viol.append({"key": "intervention|%s|requestor-api-raised" % target, "detail": "%s: %s" % (what, obs["user_exc"])})
    for x in excs:
        viol.append({"key": "intervention|%s|exception-escaped|%s|%s" % (target, x["type"], x["where"] or x["thread"]),
                     "detail": "%s: %s in thread %s: %s %r" % (what, x["type"], x["thread"], x["text"], x["frames"])})
    for p in fsm_problems:
        viol.append({"key": "intervention|%s|fsm-problem|%s|%s" % (target, p["kind"], p.get("pair")),
                     "detail": "%s: %r" % (what, p)})
    if not st["raised"]:
        inconclusive = "the %s handler never raised (entered %d times): %r" % (target, st["entered"], sample["observed"])
    elif ev_name == "EVT_USER_ID":
        if not obs["rejected"] or obs["established"] or (acc_flags and acc_flags["established"]):
            viol.append({"key": "intervention|EVT_USER_ID|not-rejected",
                         "detail": "%s: requestor established=%r rejected=%r, acceptor %r" % (what, obs["established"], obs["rejected"], acc_flags)})
    else:
        if not obs["established"]:
            viol.append({"key": "intervention|%s|not-established" % target,
                         "detail": "%s: association not established (rejected=%r)" % (what, obs["rejected"])})
        else:
            got = obs["statuses"]
            if ev_name in IV_STATUS and target != "EVT_C_STORE@requestor":
                want = [[IV_STATUS[ev_name]]]
                if shape == "gen-mid" and ev_name == "EVT_C_FIND":
                    want = [[0xFF00, 0xC311]]
                elif shape == "gen-first" and ev_name == "EVT_C_GET":
                    want.append([0xC413])       # documentation ambiguous for a failure before the first yield: both
                elif shape == "gen-first" and ev_name == "EVT_C_MOVE":
                    want.append([0xC514])       # documented candidates are accepted (same rule as C21)
                if got not in want:
                    viol.append({"key": "intervention|%s|wrong-status" % target, "detail": "%s: requestor received statuses %s, documented %s" % (
                        what, _hexes(got), " or ".join(_hexes(w) for w in want))})
            if target == "EVT_C_STORE@requestor":
                if st["subop_rsp"] != [0xC211]:
                    viol.append({"key": "intervention|%s|wrong-status" % target, "detail": "%s: C-STORE sub-operation responses seen by the "
                                 "acceptor %s, documented [0xC211]" % (what, _hexes(st["subop_rsp"]))})
                fin = obs["final"] or {}
                if not got or got[-1] in (0x0000, 0xFF00, None) or fin.get("NumberOfFailedSuboperations") != 1:
                    viol.append({"key": "intervention|%s|failed-suboperation-not-reported" % target,
                                 "detail": "%s: C-GET statuses %s, final counts %r" % (what, _hexes(got), fin)})
            if obs["echo"] != 0x0000 or not obs["released"] or not (acc_flags and acc_flags["released"]):
                viol.append({"key": "intervention|%s|association-unusable-afterwards" % target,
                             "detail": "%s: follow-up C-ECHO status %r, requestor released=%r, acceptor %r" % (
                                 what, obs["echo"], obs["released"], acc_flags)})
    if excname.split(":")[0] in ("OddStr", "OddRepr"):
        # an exception object that cannot be formatted is its own class of input: keyed apart so that a listed finding about it
        # can never hide a failure with ordinary exceptions
        for v in viol:
            v["key"] = v["key"].replace("intervention|", "intervention|unformattable-exception|", 1)
    seen = set()
    viol = [v for v in viol if not (v["key"] in seen or seen.add(v["key"]))]
    return {"key": "|".join([target, shape, excname]), "nontrivial": bool(st["raised"]), "sample": sample, "violations": viol,
            "counters": counters, "inconclusive": inconclusive, "iv_key": "|".join([target, shape, excname]) if st["raised"] else None}


def _hexes(xs):
    if xs is None:
        return "None"
    return "[" + ", ".join("None" if x is None else "0x%04X" % x for x in xs) + "]"
