"""C29 — qrscp returns exactly the entities the PS3.4 matching rules select.

Monitor: small generated databases are stored with the REAL `pynetdicom.apps.qrscp.db.add_instance` into a
temporary sqlite file; generated C-FIND / C-GET / C-MOVE identifiers (encoded, then decoded by the real
`pynetdicom.events.Event.identifier`, exactly as qrscp receives them) are run through the REAL
`db.search(model, identifier, session)` and the REAL handlers `handle_find` / `handle_get` / `handle_move`.
Observed per query:
  * search(): InvalidIdentifier / other exception / rows (mapped to entity keys at the query level, or SOP UIDs)
  * handle_find: the yielded statuses; number of Pending (0xFF00) responses and the entity each belongs to
  * handle_get / handle_move: 0xA900, failure, or the number of sub-operations announced
Oracle: the independent reference `vlib.refqr` (PS3.4 C.2.2.2 matching + hierarchy validity).  Where PS3.4 leaves
a choice to the SCP (PN case sensitivity, ...) every permitted variant is accepted.

Classifier (DESIGN 1.7 explain-by-quirk): for a discrepancy the smallest subset of refqr's named quirks under which
the reference reproduces ALL observations of the query gives the violation key "quirk|a+b"; if no subset does:
"unexplained|<level>|<matching types>".
"""
import itertools
import json
import logging
import os
import shutil
import tempfile
import warnings
from io import BytesIO

from vlib import refqr
from vlib.common import rng_for, sha

PID = "C29"
LEVEL = "exploration"
RULE = ("seeded databases of 1-12 instances (shared patients/studies/series, attribute alphabets aAbB_%*? with "
        "case/metacharacter confusables, absent and empty values) x identifiers for FIND/GET/MOVE, Patient Root and "
        "Study Root, every level, every supported key with every applicable matching type (single, universal, UID "
        "list, wildcard * ?, range), plus hierarchy-invalid identifiers; distinct = hash of (database, identifier); "
        "non-trivial = hierarchy-valid identifier whose expected match set is a non-empty proper subset of the "
        "entities at its level, or a hierarchy-invalid identifier")
ASSUMPTIONS = [
    "vlib/refqr.py is a faithful transcription of PS3.4 C.2.2.2 / C.4.1-C.4.3 for the 12 keys qrscp supports",
    "stored data form a consistent hierarchy (a study belongs to one patient, attributes of an entity are equal on "
    "all of its instances); DA/TM values are canonical (YYYYMMDD, HHMMSS[.F] without trailing zeros); VM 1; ASCII",
    "PN single-value and wildcard matching may each be case-sensitive or not (PS3.4 allows both): both accepted",
    "C-GET/C-MOVE identifiers lacking the unique key of their own level put no checkable obligation on the SCP: "
    "skipped and counted; required keys in C-GET/C-MOVE identifiers are ignored (documented qrscp behaviour)",
    "a hierarchy is invalid when: no/unknown Query/Retrieve Level for the model, a unique key of a higher level is "
    "absent, or a supported key of a lower level is present",
    "identifiers reach search()/handlers the way qrscp receives them: encoded to Implicit/Explicit VR LE bytes and "
    "decoded by the real Event.identifier (zero-length text values therefore arrive as '' not None)",
]
WORKERS = {"quick": 16, "thorough": 16}
REQUIRE = {"queries": 3000, "expected_invalid": 200, "selective": 400, "find_handler_runs": 1000,
           "get_handler_runs": 200, "move_handler_runs": 200, "mtype_single": 300, "mtype_universal": 300,
           "mtype_uidlist": 100, "mtype_wildcard": 300, "mtype_range": 100}

# Violation keys: False = one key per minimal explaining subset, "quirk|a+b" (as specified in DESIGN 1.7);
# True = one key per quirk of that subset, "quirk|a" and "quirk|b" (keeps the number of distinct keys linear).
SPLIT_QUIRK_KEYS = os.environ.get("C29_SPLIT_QUIRK_KEYS", "1") == "1"

MODEL_UID = {("P", "FIND"): "1.2.840.10008.5.1.4.1.2.1.1", ("P", "MOVE"): "1.2.840.10008.5.1.4.1.2.1.2",
             ("P", "GET"): "1.2.840.10008.5.1.4.1.2.1.3", ("S", "FIND"): "1.2.840.10008.5.1.4.1.2.2.1",
             ("S", "MOVE"): "1.2.840.10008.5.1.4.1.2.2.2", ("S", "GET"): "1.2.840.10008.5.1.4.1.2.2.3"}
COLUMN = {"PatientID": "patient_id", "StudyInstanceUID": "study_instance_uid",
          "SeriesInstanceUID": "series_instance_uid", "SOPInstanceUID": "sop_instance_uid"}

DATES = ["20191231", "20200101", "20200102", "20200115", "20210101"]
TIMES = ["000000", "090000", "093000", "120000", "120000.5", "235959"]
TEXT_ALPHA = "aaaaAAAAbbbbBBBB___%%%*?"
CS_ALPHA = "AAAABBBB___11"
OPTIONAL_UNSUPPORTED = ["PatientBirthDate", "StudyDescription", "NumberOfStudyRelatedInstances"]


def setup_worker():
    logging.disable(logging.CRITICAL)
    warnings.simplefilter("ignore")


def gen_cases(tier, seed):
    if tier == "quick":
        nblocks, ndb, nq = 64, 4, 60
    else:
        nblocks, ndb, nq = 960, 8, 100
    return [{"seed": seed, "block": b, "ndb": ndb, "nq": nq} for b in range(nblocks)]


# =================================================================== generation

def _rtext(rng, alpha, lo=1, hi=3):
    return "".join(rng.choice(alpha) for _ in range(rng.randint(lo, hi)))


def _flipcase(rng, s):
    idx = [i for i, c in enumerate(s) if c.isalpha()]
    if not idx:
        return s
    i = rng.choice(idx)
    return s[:i] + s[i].swapcase() + s[i + 1:]


def _confuse(rng, s, alpha):
    """A value easily confused with `s` by a sloppy matcher."""
    if not s:
        return _rtext(rng, alpha)
    r = rng.random()
    i = rng.randrange(len(s))
    if r < 0.35:
        return _flipcase(rng, s)
    if r < 0.6:
        if s[i] == "_":
            return s[:i] + rng.choice("abAB") + s[i + 1:]
        return s[:i] + "_" + s[i + 1:]
    if r < 0.8:
        if "%" in s:
            j = s.index("%")
            return s[:j] + _rtext(rng, "abAB", 0, 2) + s[j + 1:]
        return s[:i] + "%" + s[i + 1:]
    if r < 0.9:
        return s + rng.choice(alpha)
    return s[:i] + s[i + 1:] or _rtext(rng, alpha)


def _new_text(rng, pool, alpha, pn=False):
    if pool and rng.random() < 0.6:
        v = _confuse(rng, rng.choice(pool), alpha)
    else:
        v = _rtext(rng, alpha)
        if pn and rng.random() < 0.5:
            v = v + "^" + _rtext(rng, alpha, 1, 2)
    v = v.strip()
    if not v or v.endswith("^"):
        v = "a" + v.rstrip("^")
    pool.append(v)
    return v


def _optional(rng, value):
    r = rng.random()
    if r < 0.08:
        return None        # attribute absent from the stored instance
    if r < 0.11:
        return ""          # present with an empty value
    return value


def gen_db(rng):
    n = rng.choice([1, 2, 3, 4, 5, 6, 8, 10, 12])
    pools = {k: [] for k in ("pid", "pn", "acc", "sid", "mod")}
    patients, studies, series = [], [], []
    instances = []
    ctr = {"st": 0, "se": 0, "im": 0}

    def new_patient():
        for _ in range(50):
            pid = _new_text(rng, pools["pid"], TEXT_ALPHA)
            if pid not in [p["PatientID"] for p in patients]:
                break
        else:
            pid = "p%d" % len(patients)
        p = {"PatientID": pid, "PatientName": _optional(rng, _new_text(rng, pools["pn"], TEXT_ALPHA, pn=True))}
        patients.append(p)
        return p

    def new_study(p):
        ctr["st"] += 1
        s = dict(p)
        s.update({"StudyInstanceUID": "1.2.%d" % ctr["st"],
                  "StudyDate": _optional(rng, rng.choice(DATES)),
                  "StudyTime": _optional(rng, rng.choice(TIMES)),
                  "AccessionNumber": _optional(rng, _new_text(rng, pools["acc"], TEXT_ALPHA)),
                  "StudyID": _optional(rng, _new_text(rng, pools["sid"], TEXT_ALPHA))})
        studies.append(s)
        return s

    def new_series(s):
        ctr["se"] += 1
        e = dict(s)
        sn = _optional(rng, rng.choice([0, 1, 2, 3, 12, -1]))
        e.update({"SeriesInstanceUID": "1.3.%d" % ctr["se"],
                  "Modality": _optional(rng, _new_text(rng, pools["mod"], CS_ALPHA)),
                  "SeriesNumber": None if sn == "" else sn})
        series.append(e)
        return e

    for _ in range(n):
        r = rng.random()
        if series and r < 0.40:
            e = rng.choice(series)
        elif studies and r < 0.65:
            e = new_series(rng.choice(studies))
        elif patients and r < 0.82:
            e = new_series(new_study(rng.choice(patients)))
        else:
            e = new_series(new_study(new_patient()))
        ctr["im"] += 1
        inst = dict(e)
        num = _optional(rng, rng.choice([1, 2, 3, 10]))
        inst.update({"SOPInstanceUID": "1.4.%d" % ctr["im"], "InstanceNumber": None if num == "" else num})
        instances.append(inst)
    return instances


def _keys_at(root, level):
    return [kw for kw in refqr.ATTRS if refqr.key_level(root, kw) == level]


def _wild_from(rng, s, alpha):
    s = s or _rtext(rng, alpha)
    for _ in range(rng.choice([1, 1, 2])):
        i = rng.randrange(len(s) + 1)
        r = rng.random()
        if r < 0.45:
            j = min(len(s), i + rng.choice([0, 1, 1, 2, 3]))
            s = s[:i] + "*" + s[j:]
        elif r < 0.9 and i < len(s):
            s = s[:i] + "?" + s[i + 1:]
        else:
            s = s + "*"
    if rng.random() < 0.45:
        # disturb a literal position: case flip, or put a SQL LIKE metacharacter where a literal stands
        lit = [i for i, c in enumerate(s) if c not in "*?"]
        if lit:
            i = rng.choice(lit)
            r = rng.random()
            if r < 0.4:
                s = s[:i] + s[i].swapcase() + s[i + 1:]
            elif r < 0.7:
                s = s[:i] + "_" + s[i + 1:]
            else:
                j = min(len(s), i + rng.choice([1, 2]))
                s = s[:i] + "%" + s[j:]
    if "*" not in s and "?" not in s:
        s += "*"
    return s


def gen_value(rng, kw, stored, instances, want):
    """A key value of (approximately) the wanted matching type, related to `stored` most of the time."""
    vr = refqr.ATTRS[kw][2]
    others = [i.get(kw) for i in instances if i.get(kw) not in (None, "")]
    base = stored if (stored not in (None, "") and rng.random() < 0.8) else (rng.choice(others) if others and rng.random() < 0.7 else None)
    if want == "universal":
        return ""
    if vr == "UI":
        bogus = "1.9.%d" % rng.randint(1, 3)
        if want == "uidlist":
            cand = [str(x) for x in others] + [bogus]
            k = rng.choice([1, 2, 2, 3])
            vals = [str(base)] if base and rng.random() < 0.8 else []
            while len(vals) < k:
                v = rng.choice(cand)
                if v not in vals:
                    vals.append(v)
                elif len(set(cand)) <= len(vals):
                    break
            rng.shuffle(vals)
            return vals
        return str(base) if base and rng.random() < 0.85 else bogus
    if vr == "IS":
        v = base if base is not None and rng.random() < 0.8 else rng.choice([0, 1, 2, 3, 10, 12, -1, 7])
        return str(v) if rng.random() < 0.5 else int(v)
    if vr in ("DA", "TM"):
        pool = DATES if vr == "DA" else TIMES
        v = base or rng.choice(pool)
        if want == "range":
            i = pool.index(v) if v in pool else rng.randrange(len(pool))
            lo = pool[max(0, i - rng.choice([0, 0, 1, 2]))]
            hi = pool[min(len(pool) - 1, i + rng.choice([0, 0, 1, 2]))]
            if rng.random() < 0.12:
                lo, hi = pool[rng.randrange(len(pool))], pool[rng.randrange(len(pool))]
            r = rng.random()
            if r < 0.5:
                return lo + "-" + hi
            if r < 0.75:
                return lo + "-"
            return "-" + hi
        return v if rng.random() < 0.8 else rng.choice(pool)
    alpha = CS_ALPHA if vr == "CS" else TEXT_ALPHA
    if want == "wildcard":
        if rng.random() < 0.08:
            return rng.choice(["*", "**", "?", "*?", "?*"])
        return _wild_from(rng, base, alpha + ("^" if vr == "PN" and rng.random() < 0.3 else ""))
    # single value
    if base is None:
        return _rtext(rng, alpha.replace("*", "a").replace("?", "a"))
    r = rng.random()
    if r < 0.6:
        return base
    return _confuse(rng, base, alpha.replace("*", "a").replace("?", "a")) or "a"


def _types_for(kw):
    vr = refqr.ATTRS[kw][2]
    if vr == "UI":
        return ["single", "universal", "uidlist"]
    if vr == "IS":
        return ["single", "universal"]
    if vr in ("DA", "TM"):
        return ["single", "universal", "range"]
    return ["single", "universal", "wildcard", "wildcard"]


def gen_query(rng, instances):
    op = rng.choice(["FIND"] * 6 + ["GET"] * 2 + ["MOVE"] * 2)
    root = rng.choice("PS")
    levels = refqr.LEVELS[root]
    level = rng.choice(levels)
    idx = levels.index(level)
    target = rng.choice(instances)
    if rng.random() < 0.07:
        target = dict(target)          # a path that does not exist in the database
        target["PatientID"] = "zz"
        target["StudyInstanceUID"] = "1.9.9"
    keys = []
    for upper in levels[:idx]:
        kw = refqr.UNIQUE[upper]
        val = str(target[kw])
        if rng.random() < 0.06:
            val = gen_value(rng, kw, target[kw], instances, rng.choice(_types_for(kw)))
        keys.append([kw, val])
    own = _keys_at(root, level)
    mode = rng.random()
    chosen = []
    if op == "FIND":
        if mode < 0.6:
            chosen = [rng.choice(own)]
            if rng.random() < 0.4 and refqr.UNIQUE[level] not in chosen:
                keys.append([refqr.UNIQUE[level], ""])
        elif mode < 0.85:
            chosen = rng.sample(own, rng.randint(2, min(4, len(own))))
        else:
            chosen = []
        if rng.random() < 0.12 and idx > 0:
            # a required key of a higher level (matched against the ancestors)
            up = [kw for lv in levels[:idx] for kw in _keys_at(root, lv) if kw != refqr.UNIQUE[lv]]
            if up:
                chosen.append(rng.choice(up))
    else:
        if rng.random() < 0.9:
            chosen = [refqr.UNIQUE[level]]
        if rng.random() < 0.25:
            chosen.append(rng.choice(own))
        if root == "S" and rng.random() < 0.15:
            chosen.append("PatientID")
    for kw in chosen:
        if kw in [k for k, _ in keys]:
            continue
        types = _types_for(kw)
        if op != "FIND" and kw == refqr.UNIQUE[level]:
            types = ["single", "single", "uidlist", "uidlist", "universal"] + (["wildcard"] if kw == "PatientID" else [])
        keys.append([kw, gen_value(rng, kw, target.get(kw), instances, rng.choice(types))])
    if rng.random() < 0.1:
        keys.append([rng.choice(OPTIONAL_UNSUPPORTED), ""])
    q = {"op": op, "root": root, "level": level, "keys": keys, "ts": rng.choice(["implicit", "implicit", "explicit"])}
    # hierarchy breakers
    r = rng.random()
    if r < 0.16:
        how = rng.choice(["nolevel", "boguslevel", "emptylevel", "patient-in-study-root", "drop-upper", "drop-upper",
                          "below", "below", "nokeys", "optional-only", "lower-case-level"])
        if how == "nolevel":
            q["level"] = None
        elif how == "boguslevel":
            q["level"] = rng.choice(["BOGUS", "INSTANCE", "PATIENTS"])
        elif how == "emptylevel":
            q["level"] = ""
        elif how == "lower-case-level":
            q["level"] = level.lower()
        elif how == "patient-in-study-root":
            q["root"] = "S"
            q["level"] = "PATIENT"
            q["keys"] = [k for k in keys if k[0] in ("PatientID", "PatientName")] or [["PatientID", ""]]
            if rng.random() < 0.5:
                q["keys"] = [["PatientID", str(target["PatientID"])]]
        elif how == "drop-upper":
            ups = [refqr.UNIQUE[u] for u in refqr.LEVELS[q["root"]][:idx]]
            if ups:
                drop = rng.choice(ups)
                q["keys"] = [k for k in keys if k[0] != drop]
        elif how == "below":
            lower = [kw for lv in levels[idx + 1:] for kw in _keys_at(root, lv)]
            if lower:
                kw = rng.choice(lower)
                q["keys"] = keys + [[kw, gen_value(rng, kw, target.get(kw), instances, rng.choice(_types_for(kw)))]]
        elif how == "nokeys":
            q["keys"] = []
            if rng.random() < 0.5:
                q["level"] = refqr.LEVELS[q["root"]][0]
        elif how == "optional-only":
            q["keys"] = [[rng.choice(OPTIONAL_UNSUPPORTED), ""]]
            q["level"] = refqr.LEVELS[q["root"]][0]
    if q["level"] not in refqr.LEVELS[q["root"]] and rng.random() < 0.5:
        # unknown level, but the unique keys of every level are there (nothing else could make it invalid)
        have = [k[0] for k in q["keys"]]
        for lv in refqr.LEVELS[q["root"]]:
            if refqr.UNIQUE[lv] not in have:
                q["keys"].append([refqr.UNIQUE[lv], str(target[refqr.UNIQUE[lv]])])
    return q


# Hand-written witnesses, one per suspected mechanism; evaluated in block 0 of every run so that the
# corresponding KNOWN-FINDING / VIOLATION line is deterministic.
def _i(pid, st, se, sop, **kw):
    d = {"PatientID": pid, "PatientName": None, "StudyInstanceUID": st, "StudyDate": None, "StudyTime": None,
         "AccessionNumber": None, "StudyID": None, "SeriesInstanceUID": se, "Modality": None, "SeriesNumber": None,
         "SOPInstanceUID": sop, "InstanceNumber": None}
    d.update(kw)
    return d


PINNED = [
    # per-instance rows: one patient, two instances, PATIENT level query
    {"db": [_i("a", "1.2.1", "1.3.1", "1.4.1"), _i("a", "1.2.1", "1.3.1", "1.4.2")],
     "queries": [{"op": "FIND", "root": "P", "level": "PATIENT", "keys": [["PatientID", "a"]], "ts": "implicit"}]},
    # LIKE metacharacters and case folding on a non-PN key (IMAGE level: one row per entity anyway)
    {"db": [_i("aXb", "1.2.1", "1.3.1", "1.4.1", AccessionNumber="aXb")],
     "queries": [
         {"op": "FIND", "root": "S", "level": "STUDY", "keys": [["AccessionNumber", "a_b*"]], "ts": "implicit"},
         {"op": "FIND", "root": "S", "level": "STUDY", "keys": [["AccessionNumber", "a%?"]], "ts": "implicit"},
         {"op": "FIND", "root": "S", "level": "STUDY", "keys": [["AccessionNumber", "AX*"]], "ts": "implicit"}]},
    # zero-length (universal) value of a text key; '*' against an absent value; UID list; identifier without keys
    {"db": [_i("a", "1.2.1", "1.3.1", "1.4.1")],
     "queries": [
         {"op": "FIND", "root": "P", "level": "PATIENT", "keys": [["PatientID", ""]], "ts": "implicit"},
         {"op": "FIND", "root": "P", "level": "PATIENT", "keys": [["PatientID", "a"], ["PatientName", "*"]], "ts": "implicit"},
         {"op": "FIND", "root": "S", "level": "STUDY", "keys": [["StudyInstanceUID", ["1.2.1", "1.2.2"]]], "ts": "implicit"},
         {"op": "MOVE", "root": "S", "level": "STUDY", "keys": [["StudyInstanceUID", ["1.2.1", "1.2.2"]]], "ts": "implicit"},
         {"op": "FIND", "root": "P", "level": "PATIENT", "keys": [], "ts": "implicit"},
         {"op": "FIND", "root": "P", "level": "PATIENT", "keys": [["PatientBirthDate", ""]], "ts": "implicit"}]},
    # open-ended range against a study whose date is present but empty
    {"db": [_i("a", "1.2.1", "1.3.1", "1.4.1", StudyDate="")],
     "queries": [{"op": "FIND", "root": "S", "level": "STUDY", "keys": [["StudyDate", "-20200101"]], "ts": "implicit"}]},
]


# =================================================================== the real system under observation

class _NS:
    pass


class RealDB:
    """A temporary sqlite database filled through the real add_instance."""

    def __init__(self, instances):
        from pydicom.dataset import Dataset, FileMetaDataset
        from sqlalchemy.orm import sessionmaker
        from pynetdicom.apps.qrscp import db
        self.db = db
        self.dir = tempfile.mkdtemp(prefix="c29_")
        self.path = "sqlite:///" + os.path.join(self.dir, "instances.sqlite")
        self.engine = db.create(self.path)
        self.Session = sessionmaker(bind=self.engine)
        self.rejected = 0
        session = self.Session()
        try:
            for inst in instances:
                ds = Dataset()
                for kw, val in inst.items():
                    if val is not None:
                        setattr(ds, kw, val)
                ds.SOPClassUID = "1.2.840.10008.5.1.4.1.1.7"
                ds.file_meta = FileMetaDataset()
                ds.file_meta.TransferSyntaxUID = "1.2.840.10008.1.2"
                db.add_instance(ds, session, os.path.join(self.dir, str(inst["SOPInstanceUID"])))
        finally:
            session.close()
        self.assoc = _NS()
        self.assoc.requestor = _NS()
        self.assoc.requestor.address = "127.0.0.1"
        self.assoc.requestor.port = 11112
        self.assoc.ae = _NS()
        self.assoc.ae.ae_title = "QRSCP"
        self.logger = logging.getLogger("c29")

    def close(self):
        try:
            self.engine.dispose()
        finally:
            shutil.rmtree(self.dir, ignore_errors=True)

    # ---- request construction: what an SCU would put on the wire
    def event(self, query):
        from pydicom.dataset import Dataset
        from pydicom.uid import UID
        from pynetdicom import evt
        from pynetdicom.dimse_primitives import C_FIND, C_GET, C_MOVE
        from pynetdicom.dsutils import encode
        from pynetdicom.events import Event
        from pynetdicom.presentation import PresentationContextTuple
        ds = Dataset()
        if query.get("level") is not None:
            ds.QueryRetrieveLevel = query["level"]
        for kw, val in query["keys"]:
            setattr(ds, kw, None if refqr.is_zero_length(val) else val)
        implicit = query.get("ts", "implicit") == "implicit"
        data = encode(ds, implicit, True)
        if data is None:
            raise RuntimeError("identifier could not be encoded: %r" % (query,))
        op = query["op"]
        req = {"FIND": C_FIND, "GET": C_GET, "MOVE": C_MOVE}[op]()
        req.MessageID = 1
        req.AffectedSOPClassUID = MODEL_UID[(query["root"], op)]
        req.Identifier = BytesIO(data)
        if op == "MOVE":
            req.MoveDestination = "DEST"
        cx = PresentationContextTuple(1, req.AffectedSOPClassUID,
                                      UID("1.2.840.10008.1.2" if implicit else "1.2.840.10008.1.2.1"))
        etype = {"FIND": evt.EVT_C_FIND, "GET": evt.EVT_C_GET, "MOVE": evt.EVT_C_MOVE}[op]
        return Event(self.assoc, etype, {"request": req, "context": cx, "_is_cancelled": lambda msg_id: False})

    # ---- observation 1: db.search()
    def run_search(self, query):
        ev = self.event(query)
        ident = ev.identifier
        session = self.Session()
        try:
            try:
                rows = self.db.search(ev.request.AffectedSOPClassUID, ident, session)
            except self.db.InvalidIdentifier as exc:
                session.rollback()
                return {"status": "invalid", "msg": str(exc)}
            except Exception as exc:
                session.rollback()
                return {"status": "error", "exc": type(exc).__name__, "msg": str(exc)[:200]}
            return {"status": "ok",
                    "rows": [{kw: getattr(r, col) for kw, col in COLUMN.items()} for r in rows]}
        finally:
            session.close()

    # ---- observation 2: the handlers
    def run_handler(self, query):
        from pynetdicom.apps.qrscp import handlers
        ev = self.event(query)
        op = query["op"]
        if op == "FIND":
            tapped = []
            Instance = self.db.Instance
            orig = Instance.as_identifier

            def tap(inst_self, identifier, model):
                tapped.append({kw: getattr(inst_self, col) for kw, col in COLUMN.items()})
                return orig(inst_self, identifier, model)

            Instance.as_identifier = tap
            try:
                out = list(handlers.handle_find(ev, self.path, None, self.logger))
            except Exception as exc:
                return {"status": "raised", "exc": type(exc).__name__, "msg": str(exc)[:200]}
            finally:
                Instance.as_identifier = orig
            statuses = [o[0] if isinstance(o, tuple) else o for o in out]
            if statuses == [0xA900]:
                return {"status": "invalid"}
            bad = [s for s in statuses if s != 0xFF00]
            if bad:
                return {"status": "error", "code": "0x%04X" % bad[0] if isinstance(bad[0], int) else repr(bad[0])}
            pend = [o[1] for o in out]
            level = query.get("level")
            ukw = refqr.UNIQUE.get(level)
            keys = None
            if ukw and all(p is not None and ukw in p for p in pend):
                keys = [str(p[ukw].value) for p in pend]
            elif ukw and len(tapped) == len(pend):
                keys = [str(t[ukw]) for t in tapped]
            return {"status": "ok", "n": len(pend), "keys": keys}
        if op == "GET":
            gen = handlers.handle_get(ev, self.path, None, self.logger)
        else:
            gen = handlers.handle_move(ev, {"DEST": ("127.0.0.1", 11113)}, self.path, None, self.logger)
        try:
            first = next(gen)
            if op == "MOVE" and isinstance(first, tuple) and len(first) == 3:
                first = next(gen)
        except StopIteration:
            return {"status": "error", "code": "no-yield"}
        except Exception as exc:
            return {"status": "raised", "exc": type(exc).__name__, "msg": str(exc)[:200]}
        finally:
            gen.close()
        if isinstance(first, int):
            return {"status": "ok", "n": first, "keys": None}
        if isinstance(first, tuple) and first[0] == 0xA900:
            return {"status": "invalid"}
        return {"status": "error", "code": repr(first)[:60]}


# =================================================================== oracle

def agrees(query, search, handler, exp):
    """List of aspects in which the observations differ from the expected outcome `exp` (empty = agree)."""
    diffs = []
    st = exp["status"]
    if search["status"] != st:
        diffs.append("search-status:%s!=%s" % (search["status"], st))
    if handler["status"] != st:
        diffs.append("handler-status:%s!=%s" % (handler["status"], st))
    if st != "ok" or diffs:
        return diffs
    rows = search["rows"]
    if query["op"] == "FIND":
        ukw = refqr.UNIQUE[query["level"]]
        got = sorted(set(str(r[ukw]) for r in rows))
        if got != exp["entities"]:
            diffs.append("search-entities")
        if handler["n"] != len(exp["responses"]):
            diffs.append("find-response-count:%d!=%d" % (handler["n"], len(exp["responses"])))
        elif handler["keys"] is not None and sorted(handler["keys"]) != exp["responses"]:
            diffs.append("find-response-entities")
    else:
        got = sorted(str(r["SOPInstanceUID"]) for r in rows)
        if got != exp["instances"]:
            diffs.append("search-instances")
        if handler["n"] != len(exp["instances"]):
            diffs.append("suboperation-count:%d!=%d" % (handler["n"], len(exp["instances"])))
    return diffs


def judge(instances, query, search, handler):
    """-> (verdict, info).  verdict: 'held' | 'quirk' | 'unexplained'."""
    variants = refqr.all_variants(query)
    first = None
    for quirks in refqr.subsets_by_size(refqr.QUIRKS):
        for var in variants:
            exp = refqr.evaluate(instances, query, quirks, var)
            d = agrees(query, search, handler, exp)
            if first is None:
                first = (exp, d)
            if not d:
                if not quirks:
                    return "held", {"expected": exp}
                return "quirk", {"quirks": sorted(quirks), "expected": first[0], "diffs": first[1]}
    return "unexplained", {"expected": first[0], "diffs": first[1]}


def _mtypes(query):
    return sorted(set(refqr.classify(kw, v) for kw, v in query["keys"] if kw in refqr.ATTRS)) or ["nokeys"]


def _brief(obs):
    o = dict(obs)
    if "rows" in o:
        o["rows"] = [r["SOPInstanceUID"] for r in o["rows"]]
    return o


def _brief_db(instances):
    return [{k: v for k, v in i.items() if v is not None} for i in instances]


def evaluate_db(instances, queries, counters, combos, viols, dkeys):
    real = RealDB(instances)
    counters["dbs"] = counters.get("dbs", 0) + 1
    counters["instances_added"] = counters.get("instances_added", 0) + len(instances)
    try:
        for query in queries:
            c = counters
            c["queries"] = c.get("queries", 0) + 1
            if refqr.dont_care(query):
                c["skipped_dont_care"] = c.get("skipped_dont_care", 0) + 1
                continue
            try:
                exp0 = refqr.evaluate(instances, query)
            except ValueError:
                c["skipped_outside_model"] = c.get("skipped_outside_model", 0) + 1
                continue
            search = real.run_search(query)
            handler = real.run_handler(query)
            c["%s_handler_runs" % query["op"].lower()] = c.get("%s_handler_runs" % query["op"].lower(), 0) + 1
            for kw, v in query["keys"]:
                if kw in refqr.ATTRS:
                    t = refqr.classify(kw, v)
                    c["mtype_" + t] = c.get("mtype_" + t, 0) + 1
                    combos.add("%s|%s|%s|%s|%s" % (query["op"], query["root"], query.get("level"), kw, t))
            nontrivial = False
            if exp0["status"] == "invalid":
                c["expected_invalid"] = c.get("expected_invalid", 0) + 1
                c["invalid_" + exp0["reason"]] = c.get("invalid_" + exp0["reason"], 0) + 1
                nontrivial = True
            else:
                c["expected_valid"] = c.get("expected_valid", 0) + 1
                total = len(set(str(i[refqr.UNIQUE[query["level"]]]) for i in instances))
                if exp0["entities"]:
                    c["nonempty_expected"] = c.get("nonempty_expected", 0) + 1
                    if len(exp0["entities"]) < total:
                        c["selective"] = c.get("selective", 0) + 1
                        nontrivial = True
                    if len(exp0["instances"]) > len(exp0["entities"]):
                        c["entity_with_several_instances"] = c.get("entity_with_several_instances", 0) + 1
            if nontrivial:
                dkeys.add(sha([instances, query]))
            verdict, info = judge(instances, query, search, handler)
            if verdict == "held":
                c["held"] = c.get("held", 0) + 1
                continue
            c["discrepancies"] = c.get("discrepancies", 0) + 1
            if verdict == "quirk":
                keys = ["quirk|" + "+".join(info["quirks"])]
                if SPLIT_QUIRK_KEYS:
                    keys = ["quirk|" + qn for qn in info["quirks"]]
                for qn in info["quirks"]:
                    c["quirk_" + qn] = c.get("quirk_" + qn, 0) + 1
            else:
                keys = ["unexplained|%s|%s" % (query.get("level"), "+".join(_mtypes(query)))]
                c["unexplained"] = c.get("unexplained", 0) + 1
            size = len(instances) * 100 + len(query["keys"])
            for key in keys:
                if key not in viols or viols[key]["size"] > size:
                    viols[key] = {"size": size, "key": key, "detail": json.dumps({
                        "query": query, "db": _brief_db(instances), "expected": info["expected"],
                        "explained_by": info.get("quirks"),
                        "observed_search": _brief(search), "observed_handler": handler,
                        "differs_in": info["diffs"]}, sort_keys=True, default=repr)}
    finally:
        real.close()


def run_case(case):
    counters, combos, viols, dkeys = {}, set(), {}, set()
    sample = None
    if "explicit" in case:
        work = [(w["db"], w["queries"]) for w in case["explicit"]]
    else:
        rng = rng_for(case["seed"], PID, case["block"])
        work = []
        if case["block"] == 0:
            work.extend((w["db"], w["queries"]) for w in PINNED)
        for _ in range(case["ndb"]):
            instances = gen_db(rng)
            queries = [gen_query(rng, instances) for _ in range(case["nq"])]
            work.append((instances, queries))
    for instances, queries in work:
        if not refqr.consistent(instances):
            counters["inconsistent_db_skipped"] = counters.get("inconsistent_db_skipped", 0) + 1
            continue
        evaluate_db(instances, queries, counters, combos, viols, dkeys)
        if sample is None and queries:
            sample = {"db": _brief_db(instances)[:4], "n_instances": len(instances), "first_queries": queries[:3]}
    counters["distinct_nontrivial_queries"] = len(dkeys)
    return {"key": sha(sorted(dkeys)), "nontrivial": bool(dkeys), "sample": sample,
            "violations": [{"key": v["key"], "detail": v["detail"]} for _, v in sorted(viols.items())],
            "counters": counters, "combos": sorted(combos)}


def extra_evidence(tier, results):
    combos = set()
    n = 0
    for r in results.values():
        combos.update(r.get("combos") or [])
        n += (r.get("counters") or {}).get("distinct_nontrivial_queries", 0)
    possible = set()
    for op in ("FIND", "GET", "MOVE"):
        for root in "PS":
            levels = refqr.LEVELS[root]
            for li, level in enumerate(levels):
                for kw in refqr.ATTRS:
                    if levels.index(refqr.key_level(root, kw)) > li:
                        continue
                    if op == "FIND" and refqr.key_level(root, kw) != level and kw not in refqr.UNIQUE.values():
                        continue
                    if op != "FIND" and kw != refqr.UNIQUE[level]:
                        continue
                    for t in set(_types_for(kw)):
                        if op != "FIND" and t == "wildcard":
                            continue
                        possible.add("%s|%s|%s|%s|%s" % (op, root, level, kw, t))
    return {"distinct_nontrivial": n,
            "combos_covered": len(combos), "core_combos_possible": len(possible),
            "core_combos_missed": sorted(possible - combos)[:40],
            "note": "combo = op|model|level|key|matching type; core = keys of the query level for FIND and the level's "
                    "unique key for GET/MOVE (+ higher-level unique keys); distinct_nontrivial sums per-block distinct "
                    "(database, identifier) hashes (blocks use disjoint RNG streams)"}
