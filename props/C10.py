"""C10 — acceptor-side presentation-context negotiation follows PS3.8 and the documented role table.

Monitor: generated (proposed contexts, supported contexts with scu_role/scp_role, role proposals, mode)
are handed to the REAL pynetdicom code on two paths

  direct : pynetdicom.presentation.negotiate_as_acceptor / negotiate_unrestricted
  acse   : ACSE._negotiate_as_acceptor() of an unstarted acceptor Association whose requestor primitive is
           the generated A-ASSOCIATE request and whose DUL is a recording stub; the negotiation mode is
           chosen by the real code from _config.UNRESTRICTED_STORAGE_SERVICE; observed are the
           association's accepted/rejected contexts and the role items of the A-ASSOCIATE (accept)
           primitive it hands to the DUL

and what comes back is checked against postconditions computed by the independent reference
vlib.refneg (PS3.8 result semantics, PS3.7 D.3.3.4, the role table of docs/user/
presentation_role_selection.rst, the UNRESTRICTED_STORAGE_SERVICE doc text):

  P1 exactly one result per proposed context id, none for other ids, with the proposed abstract syntax
  P2 result code: 0x03 iff abstract syntax unsupported; 0x04 iff supported and no common transfer syntax;
     0x01 iff supported, common transfer syntax, and the role table says "rejected"; 0x00 otherwise
     (unrestricted mode: storage / private / unknown-public abstract syntaxes accepted)
  P3 accepted => exactly one transfer syntax, proposed for that id, supported, and the acceptor's first
     preference among the common ones (unrestricted storage-like: the first proposed)
  P4 accepted => (as_scu, as_scp) = documented table applied to (proposal, supported roles masked by the
     proposal); None in either supported role or no proposal => default roles
  P5 never accepted with (as_scu, as_scp) == (False, False)
  P6 role replies: at most one per SOP class, only for SOP classes with a role proposal, never 1 where 0
     was proposed, none when a supported role is None
  P7 the requestor-side reading (refneg.negotiate_as_requestor_ref) of the replies actually returned is
     complementary to the acceptor's (as_scu, as_scp) on every accepted context
"""
import logging
import os

from vlib import refneg
from vlib.common import rng_for, sha

PID = "C10"
LEVEL = "exploration"
RULE = ("(a) exhaustive role table: 5 role proposals (absent,TT,TF,FT,FF) x 9 supported (scu_role,scp_role) in "
        "{None,True,False}^2 x 3 transfer-syntax situations (single match, acceptor preference differs from "
        "requestor order, no match) x 5 abstract-syntax categories x 6 list layouts (alone; after / before a "
        "neighbour context carrying a different role proposal, list order and id order varied; duplicate abstract "
        "syntax) x 2 modes; (b) seeded lists of 0..128 contexts over 13 abstract syntaxes (duplicates), ordered "
        "subsets of 6 transfer syntaxes, supported contexts with all 9 role settings, role proposals incl. for "
        "unproposed SOP classes, both modes; every 4th seeded input and every table input also driven through "
        "ACSE._negotiate_as_acceptor; (c) unrestricted-mode classification probe over 101 abstract syntaxes (71 known "
        "non-storage SOP classes, 26 storage, private, unassigned). distinct = SHA-1 of the canonical input (+path); non-trivial = >= 1 proposed "
        "abstract syntax is supported (or storage-like in unrestricted mode) and >= 1 role proposal for a proposed "
        "abstract syntax")
ASSUMPTIONS = [
    "vlib/refneg.py transcribes docs/user/presentation_role_selection.rst's table faithfully (self-checked at "
    "import against the PS3.7 D.3.3.4 rule: requestor is SCU/SCP iff that proposal was answered 1)",
    "supported contexts have unique abstract syntaxes and >= 1 transfer syntax; proposed ids are distinct odd "
    "1..255 and each context has >= 1 transfer syntax (what PS3.8 / the public setters admit)",
    "abstract-syntax categories of the 13 pool UIDs are those of PS3.4/PS3.6 (vlib.refneg.POOL)",
    "acse path: the Association is not started; DUL replaced by a recording stub (no bytes are encoded)",
]
WORKERS = {"quick": 16, "thorough": 16}
EXHAUSTIVE = {"quick": False, "thorough": False}

ROLE_PROPOSALS = [None, (True, True), (True, False), (False, True), (False, False)]
SUPPORTED_ROLES = [(a, b) for a in (None, True, False) for b in (None, True, False)]


def _rs(r):
    if r is None:
        return "absent"
    return "".join("N" if x is None else ("T" if x else "F") for x in r)


REQUIRE = {"evals_direct": 3000, "evals_acse": 1000, "evals_unrestricted": 1000, "lists_128": 3, "lists_empty": 3,
           "lists_dup_abstract": 200, "result_0x00": 2000, "result_0x01": 200, "result_0x03": 500,
           "result_0x04": 500, "replies_checked": 500, "stale_layout_contexts": 200,
           "unrestricted_storage_like": 500, "pref_differs_from_requestor_order": 200,
           "classification_uids_probed": 90, "concurrent_rounds": 4, "concurrent_negotiations": 1500, "concurrent_yield_hits": 20000}
for _p in ROLE_PROPOSALS:
    for _s in SUPPORTED_ROLES:
        REQUIRE["cell_%s_%s" % (_rs(_p), _rs(_s))] = 4

TS = refneg.TRANSFER_SYNTAXES
POOL = list(refneg.POOL)


# ------------------------------------------------------------------------------------ generation

def gen_cases(tier, seed):
    cases = []
    tab = table_inputs()
    per_t = 450
    for b in range((len(tab) + per_t - 1) // per_t):
        cases.append({"seed": seed, "kind": "table", "block": b, "lo": b * per_t, "hi": min(len(tab), (b + 1) * per_t)})
    cases.append({"seed": seed, "kind": "classify", "block": 0})
    for b in range(6 if tier == "quick" else 120):
        cases.append({"seed": seed, "kind": "concurrent", "block": b})
    n = 16000 if tier == "quick" else 600000
    per = 250 if tier == "quick" else 5000
    for b in range(n // per):
        cases.append({"seed": seed, "kind": "random", "block": b, "count": per})
    return cases


def table_inputs():
    out = []
    targets = ["1.2.840.10008.1.1", "1.2.840.10008.5.1.4.1.1.2", "1.2.840.10008.5.1.4.1.2.2.3",
               "1.2.826.0.1.3680043.9.3811.1.1", "1.2.840.10008.5.1.4.1.1.9999"]
    nb = "1.2.840.10008.5.1.4.1.2.1.1"   # neighbour: non-storage in both modes
    for mode in ("normal", "unrestricted"):
        for ab in targets:
            for prop in ROLE_PROPOSALS:
                for sr in SUPPORTED_ROLES:
                    for tsit in ("first", "pref", "none"):
                        if tsit == "first":
                            p_ts, s_ts = [TS[0], TS[1], TS[2]], [TS[0]]
                        elif tsit == "pref":
                            p_ts, s_ts = [TS[0], TS[1], TS[2]], [TS[5], TS[2], TS[1]]
                        else:
                            p_ts, s_ts = [TS[0], TS[1]], [TS[4], TS[5]]
                        for layout in ("single", "after", "after-idrev", "before", "before-idrev", "dup"):
                            roles = {}
                            if prop is not None:
                                roles[ab] = list(prop)
                            supported = [[ab, s_ts, sr[0], sr[1]]]
                            if layout == "single":
                                proposed = [[1, ab, p_ts]]
                            elif layout == "dup":
                                proposed = [[1, ab, p_ts], [3, ab, [TS[3]]], [5, ab, list(reversed(p_ts))]]
                            else:
                                nprop = (True, True) if prop != (True, True) else (False, True)
                                roles[nb] = list(nprop)
                                supported.append([nb, [TS[1], TS[0]], True, True])
                                t_id, n_id = (3, 1) if layout in ("after", "before-idrev") else (1, 3)
                                tgt, nbr = [t_id, ab, p_ts], [n_id, nb, [TS[0], TS[1]]]
                                proposed = [nbr, tgt] if layout.startswith("after") else [tgt, nbr]
                                if layout.endswith("idrev"):
                                    supported.reverse()
                            out.append({"proposed": proposed, "supported": supported, "roles": roles, "mode": mode})
    return out


def classify_inputs(counters):
    """Unrestricted mode, every abstract syntax of refneg.WIDE_POOL (71 non-storage SOP classes, 27 storage,
    private, unassigned): alone with nothing supported, and with a supported context of its own (explicit roles
    + a role proposal).  The tables are the reference's own transcription of PS3.6 Table A-1; as a guard against
    a transcription slip only UIDs that pydicom's UID dictionary also lists as (Meta) SOP Class are used."""
    from pydicom._uid_dict import UID_dictionary
    out = []
    for uid, (name, cat) in sorted(refneg.WIDE_POOL.items()):
        if cat in ("storage", "non-storage"):
            ent = UID_dictionary.get(uid)
            if not ent or ent[1] not in ("SOP Class", "Meta SOP Class") or (("Storage" in ent[0]) != (cat == "storage")
                                                                         and "Storage Commitment" not in ent[0]):
                counters["classification_uids_unconfirmed"] += 1
                continue
        counters["classification_uids_probed"] += 1
        ver = "1.2.840.10008.1.1"
        other = [[3, ver, [TS[0]]]] if uid != ver else []
        out.append({"proposed": [[1, uid, [TS[2], TS[0]]]] + other, "supported": [], "roles": {}, "mode": "unrestricted"})
        out.append({"proposed": other + [[5, uid, [TS[2], TS[0], TS[1]]]],
                    "supported": [[uid, [TS[1], TS[0]], True, True]] + ([[ver, [TS[0]], None, None]] if other else []),
                    "roles": {uid: [True, True]}, "mode": "unrestricted"})
    return out


def _ordered_subset(rng):
    k = rng.choice([1, 1, 2, 2, 3, 3, 4, 5, 6])
    return rng.sample(TS, k)


def gen_input(rng):
    mode = rng.choice(["normal", "normal", "unrestricted"])
    r = rng.random()
    if r < 0.02:
        n = 0
    elif r < 0.08:
        n = 1
    elif r < 0.72:
        n = rng.randint(2, 6)
    elif r < 0.93:
        n = rng.randint(7, 40)
    else:
        n = rng.choice([127, 128, 128, rng.randint(41, 128)])
    ids = rng.sample(range(1, 256, 2), n)
    if rng.random() < 0.6:
        ids.sort()
    sub = rng.sample(POOL, rng.randint(1, len(POOL)))
    proposed = [[cid, rng.choice(sub), _ordered_subset(rng)] for cid in ids]
    supported = []
    if rng.random() >= 0.04:
        p_sup = rng.choice([0.3, 0.6, 0.9])
        explicit = rng.choice([0.3, 0.7, 1.0])
        for ab in POOL:
            if rng.random() < (p_sup if ab in sub else p_sup / 3):
                if rng.random() < explicit:
                    sr = (rng.random() < 0.5, rng.random() < 0.5)
                else:
                    sr = rng.choice(SUPPORTED_ROLES)
                supported.append([ab, _ordered_subset(rng), sr[0], sr[1]])
        rng.shuffle(supported)
    roles = {}
    q = rng.choice([0.0, 0.3, 0.6, 1.0])
    for ab in sorted(set(p[1] for p in proposed)):
        if rng.random() < q:
            roles[ab] = list(rng.choice(ROLE_PROPOSALS[1:]))
    if rng.random() < 0.1:
        others = [ab for ab in POOL if ab not in roles]
        if others:
            roles[rng.choice(others)] = list(rng.choice(ROLE_PROPOSALS[1:]))
    return {"proposed": proposed, "supported": supported, "roles": roles, "mode": mode}


# ------------------------------------------------------------------------------------ real code

class Rejected(Exception):
    pass


_STATE = {}


def setup_worker():
    logging.disable(logging.CRITICAL)


def _build_real(inp):
    from pydicom.uid import UID
    from pynetdicom.presentation import PresentationContext
    try:
        rq = []
        for cid, ab, tss in inp["proposed"]:
            cx = PresentationContext()
            cx.context_id = cid
            cx.abstract_syntax = ab
            cx.transfer_syntax = list(tss)
            rq.append(cx)
        ac = []
        for ab, tss, scu, scp in inp["supported"]:
            cx = PresentationContext()
            cx.abstract_syntax = ab
            cx.transfer_syntax = list(tss)
            cx.scu_role = scu
            cx.scp_role = scp
            ac.append(cx)
    except (ValueError, TypeError) as exc:
        raise Rejected(repr(exc))
    roles = {UID(ab): (bool(v[0]), bool(v[1])) for ab, v in inp["roles"].items()}
    return rq, ac, roles


def _norm(result_cx, reply_items):
    res = []
    for cx in result_cx:
        res.append([cx.context_id, None if cx.abstract_syntax is None else str(cx.abstract_syntax), cx.result,
                    [str(t) for t in cx.transfer_syntax], cx.as_scu, cx.as_scp])
    rep = [[None if it.sop_class_uid is None else str(it.sop_class_uid), it.scu_role, it.scp_role]
           for it in reply_items]
    return {"results": res, "replies": rep}


def observe_direct(inp):
    from pynetdicom import presentation
    rq, ac, roles = _build_real(inp)
    fn = presentation.negotiate_unrestricted if inp["mode"] == "unrestricted" else presentation.negotiate_as_acceptor
    # ACSE passes a (possibly empty) dict; the documented alternative for "no items" is None
    out_cx, out_roles = fn(rq, ac, roles if (roles or inp.get("empty_roles_as_dict")) else None)
    return _norm(out_cx, out_roles)


class _StubDUL:
    def __init__(self):
        self.sent = []

    def send_pdu(self, primitive):
        self.sent.append(primitive)


def observe_acse(inp):
    """Through the real ACSE._negotiate_as_acceptor; returns (observation, mode_used, problem|None)."""
    from pynetdicom import AE, _config, acse as acse_mod
    from pynetdicom.association import Association
    from pynetdicom.pdu_primitives import (A_ASSOCIATE, ImplementationClassUIDNotification,
                                           MaximumLengthNotification, SCP_SCU_RoleSelectionNegotiation)
    if "ae" not in _STATE:
        _STATE["ae"] = AE(ae_title="ACCEPTOR")
    rq_cx, ac_cx, roles = _build_real(inp)
    assoc = Association(_STATE["ae"], "acceptor")
    assoc.dul = _StubDUL()
    rq = A_ASSOCIATE()
    rq.application_context_name = "1.2.840.10008.3.1.1.1"
    rq.calling_ae_title = "REQUESTOR"
    rq.called_ae_title = "ACCEPTOR"
    try:
        rq.presentation_context_definition_list = rq_cx
        ml = MaximumLengthNotification()
        ml.maximum_length_received = 16382
        ic = ImplementationClassUIDNotification()
        ic.implementation_class_uid = "1.2.826.0.1.3680043.9.3811.99"
        items = [ml, ic]
        for ab, (scu, scp) in roles.items():
            it = SCP_SCU_RoleSelectionNegotiation()
            it.sop_class_uid = ab
            it.scu_role = scu
            it.scp_role = scp
            items.append(it)
        rq.user_information = items
    except (ValueError, TypeError) as exc:
        raise Rejected(repr(exc))
    assoc.requestor.primitive = rq
    assoc.acceptor.ae_title = "ACCEPTOR"
    assoc.acceptor.supported_contexts = ac_cx
    # spy on which negotiation function the real ACSE picks
    used = []
    real_n, real_u = acse_mod.negotiate_as_acceptor, acse_mod.negotiate_unrestricted

    def spy_n(*a, **k):
        used.append("normal")
        return real_n(*a, **k)

    def spy_u(*a, **k):
        used.append("unrestricted")
        return real_u(*a, **k)

    saved = _config.UNRESTRICTED_STORAGE_SERVICE
    _config.UNRESTRICTED_STORAGE_SERVICE = inp["mode"] == "unrestricted"
    acse_mod.negotiate_as_acceptor, acse_mod.negotiate_unrestricted = spy_n, spy_u
    try:
        assoc.acse._negotiate_as_acceptor()
    finally:
        _config.UNRESTRICTED_STORAGE_SERVICE = saved
        acse_mod.negotiate_as_acceptor, acse_mod.negotiate_unrestricted = real_n, real_u
    sent = assoc.dul.sent
    if len(sent) != 1 or not isinstance(sent[0], A_ASSOCIATE) or sent[0].result != 0x00 or not assoc.is_established:
        return None, used, "acse did not accept the association: sent=%r" % ([type(s).__name__ for s in sent],)
    prim = sent[0]
    view = list(assoc.accepted_contexts) + list(assoc.rejected_contexts)
    reply_items = [it for it in prim.user_information if isinstance(it, SCP_SCU_RoleSelectionNegotiation)]
    obs = _norm(view, reply_items)
    # what goes to the peer must be the association's own view
    wire = sorted((cx.context_id, cx.result, tuple(str(t) for t in cx.transfer_syntax))
                  for cx in prim.presentation_context_definition_results_list)
    mine = sorted((r[0], r[2], tuple(r[3])) for r in obs["results"])
    problem = None
    if wire != mine:
        problem = "accept primitive result list %r differs from the association's contexts %r" % (wire[:6], mine[:6])
    return obs, used, problem


# ------------------------------------------------------------------------------------ oracle

def real_treats_as_storage_like(uid):
    """Probe (cached per worker): does the real unrestricted negotiation accept `uid` with nothing supported?"""
    cache = _STATE.setdefault("class", {})
    if uid not in cache:
        from pynetdicom import presentation
        from pynetdicom.presentation import PresentationContext
        cx = PresentationContext()
        cx.context_id = 1
        cx.abstract_syntax = uid
        cx.transfer_syntax = [TS[2], TS[0]]
        try:
            out, _ = presentation.negotiate_unrestricted([cx], [], None)
            cache[uid] = len(out) == 1 and out[0].result == 0x00
        except Exception:
            cache[uid] = None
    return cache[uid]


def check(inp, obs, counters):
    """Postconditions P1..P7 on one observation; returns violation dicts."""
    mode = inp["mode"]
    unrestricted = mode == "unrestricted"
    roles = {ab: (bool(v[0]), bool(v[1])) for ab, v in inp["roles"].items()}
    proposed = [(p[0], p[1], list(p[2])) for p in inp["proposed"]]
    supported = [(s[0], list(s[1]), s[2], s[3]) for s in inp["supported"]]
    sup = {s[0]: s for s in supported}
    exp = refneg.negotiate_as_acceptor_ref(proposed, supported, roles, unrestricted=unrestricted)
    V = []

    def viol(key, detail):
        V.append({"key": key, "detail": "%s ; input=%r ; observed=%r" % (detail, _short(inp), _short_obs(obs))})

    # P1
    by_id = {p[0]: p for p in proposed}
    seen = {}
    for row in obs["results"]:
        cid = row[0]
        if cid not in by_id:
            viol("result-list|unproposed-id|%s" % mode, "result for id %r which was not proposed" % (cid,))
        elif cid in seen:
            viol("result-list|duplicate-id|%s" % mode, "two results for id %r" % (cid,))
        else:
            seen[cid] = row
    for cid in by_id:
        if cid not in seen:
            viol("result-list|missing-id|%s" % mode, "no result for proposed id %r" % (cid,))

    # unrestricted mode: which abstract syntaxes does the real code classify differently from PS3.4/the doc text?
    # Reported once per abstract syntax under its own mechanism key; the remaining postconditions are not
    # evaluated for those contexts (they would only restate the same root cause under other keys).
    misclassified = set()
    if unrestricted:
        for ab in sorted(set(p[1] for p in proposed)):
            ref_sl = refneg.is_storage_like(ab)
            real_sl = real_treats_as_storage_like(ab)
            if real_sl is None or real_sl == ref_sl:
                continue
            misclassified.add(ab)
            if ref_sl:
                viol("unrestricted-classification|%s-negotiated-as-normal" % refneg.category(ab),
                     "%s (%s) is not accepted by the unrestricted storage service" % (ab, refneg.WIDE_POOL.get(ab, ("?",))[0]))
            else:
                viol("unrestricted-classification|known-non-storage-sop-class-treated-as-storage|%s" % ab,
                     "%s (%s) is a known non-storage SOP class but the unrestricted mode accepts it without a "
                     "supported context" % (ab, refneg.WIDE_POOL.get(ab, ("?",))[0]))

    # P6
    rep = {}
    for uid, scu, scp in obs["replies"]:
        counters["replies_checked"] += 1
        if uid in rep:
            viol("role-reply|duplicate-sop-class|%s" % mode, "two role replies for %s" % uid)
            continue
        rep[uid] = (scu, scp)
        if uid in misclassified:
            continue
        if not isinstance(scu, bool) or not isinstance(scp, bool):
            viol("role-reply|not-bool|%s" % mode, "reply %r for %s" % ((scu, scp), uid))
            continue
        p = roles.get(uid)
        if p is None:
            viol("role-reply|unproposed-sop-class|%s" % mode,
                 "role reply %r for %s, for which the requestor sent no role item" % ((scu, scp), uid))
        elif (scu and not p[0]) or (scp and not p[1]):
            viol("role-reply|grants-unproposed-role|%s|rq=%s|reply=%s" % (mode, _rs(p), _rs((scu, scp))),
                 "reply %r to proposal %r for %s" % ((scu, scp), p, uid))
        storage_like = unrestricted and refneg.is_storage_like(uid)
        if not storage_like and uid in sup and (sup[uid][2] is None or sup[uid][3] is None):
            viol("role-reply|sent-with-None-supported-role|%s" % mode,
                 "reply %r for %s although supported roles are %r" % ((scu, scp), uid, (sup[uid][2], sup[uid][3])))

    for cid, row in seen.items():
        _, ab, res, ts, as_scu, as_scp = row
        _, p_ab, p_ts = by_id[cid]
        e = exp["results"][cid]
        counters["contexts_checked"] += 1
        if ab != p_ab:
            viol("abstract-syntax-changed|%s" % mode, "id %d: proposed %s, result carries %s" % (cid, p_ab, ab))
        if res in (0, 1, 2, 3, 4):
            counters["result_0x%02x" % res] += 1
        if p_ab in misclassified:
            counters["contexts_skipped_misclassified"] += 1
            continue
        storage_like = unrestricted and refneg.is_storage_like(p_ab)
        cls = "storage-like" if storage_like else "negotiated"
        prop = roles.get(p_ab)
        sr = None if (storage_like or p_ab not in sup) else (sup[p_ab][2], sup[p_ab][3])
        if storage_like:
            counters["unrestricted_storage_like"] += 1
        # P2
        if e["result"] is not None and res != e["result"]:
            viol("result-code|%s|%s|expected-0x%02x|got-%s|%s" % (mode, cls, e["result"], _hx(res), e["why"]),
                 "id %d (%s): expected result 0x%02x (%s), got %s" % (cid, p_ab, e["result"], e["why"], _hx(res)))
        if e["why"] in ("role-table", "supported-role-None", "no-role-proposal", "no-usable-role"):
            counters["cell_%s_%s" % (_rs(prop), _rs(sr))] += 1   # role table consulted for this context
        if res != 0x00:
            continue
        # P3
        if len(ts) != 1:
            viol("transfer-syntax|count|%s" % mode, "id %d accepted with %d transfer syntaxes" % (cid, len(ts)))
        elif ts[0] not in p_ts:
            viol("transfer-syntax|not-proposed|%s" % mode, "id %d accepted with %s, proposed %r" % (cid, ts[0], p_ts))
        elif e["result"] == 0x00 and e["ts"] is not None and ts[0] != e["ts"]:
            if storage_like:
                viol("transfer-syntax|not-first-proposed|unrestricted",
                     "id %d accepted with %s, first proposed is %s" % (cid, ts[0], e["ts"]))
            elif ts[0] not in sup[p_ab][1]:
                viol("transfer-syntax|not-supported|%s" % mode,
                     "id %d accepted with %s, supported %r" % (cid, ts[0], sup[p_ab][1]))
            else:
                viol("transfer-syntax|not-acceptor-first-preference|%s" % mode,
                     "id %d accepted with %s; acceptor preference order %r, proposed %r -> %s"
                     % (cid, ts[0], sup[p_ab][1], p_ts, e["ts"]))
        if e["result"] == 0x00 and not storage_like:
            common = [t for t in p_ts if t in sup[p_ab][1]]
            if len(common) > 1 and common[0] != e["ts"]:
                counters["pref_differs_from_requestor_order"] += 1
        # P4/P5
        rolekey = "%s|%s|rq=%s|ac=%s" % (mode, cls, _rs(prop), "any" if storage_like else _rs(sr))
        if not isinstance(as_scu, bool) or not isinstance(as_scp, bool):
            viol("roles|not-bool|%s" % mode, "id %d accepted with as_scu=%r as_scp=%r" % (cid, as_scu, as_scp))
            continue
        role_bad = False
        if not as_scu and not as_scp:
            role_bad = True
            viol("accepted-no-usable-role|%s" % rolekey,
                 "id %d (%s) accepted (0x00) with as_scu=False, as_scp=False" % (cid, p_ab))
        elif e["result"] == 0x00 and e["as_scu"] is not None and (as_scu, as_scp) != (e["as_scu"], e["as_scp"]):
            role_bad = True
            viol("roles-differ|%s|got=%s" % (rolekey, _rs((as_scu, as_scp))),
                 "id %d (%s): acceptor roles (as_scu, as_scp)=%r, documented table gives %r (%s)"
                 % (cid, p_ab, (as_scu, as_scp), (e["as_scu"], e["as_scp"]), e["why"]))
        # P7: requestor's reading of the actual reply must be the complement
        if not role_bad:
            r = rep.get(p_ab)
            if r is not None and not (isinstance(r[0], bool) and isinstance(r[1], bool)):
                r = None
            view = refneg.negotiate_as_requestor_ref([(cid, p_ab, p_ts)], [(cid, 0x00, ts[0] if ts else None)],
                                                     roles, {} if r is None else {p_ab: r})[cid]
            if view["documented"] and not refneg.complementary(view, as_scu, as_scp):
                viol("role-reply|inconsistent-with-acceptor-roles|%s|%s|reply=%s|rq=%s|ac=%s"
                     % (mode, cls, _rs(r), _rs(prop), "any" if storage_like else _rs(sr)),
                     "id %d (%s): acceptor holds (as_scu, as_scp)=%r but a requestor reading reply %r to proposal %r "
                     "holds (as_scu, as_scp)=%r" % (cid, p_ab, (as_scu, as_scp), r, prop,
                                                    (view["as_scu"], view["as_scp"])))
    return V


def _hx(res):
    return ("0x%02x" % res) if isinstance(res, int) else repr(res)


def _short(inp):
    if len(inp["proposed"]) <= 6:
        return inp
    return {"proposed": inp["proposed"][:4] + ["... %d contexts" % len(inp["proposed"])], "supported": inp["supported"],
            "roles": inp["roles"], "mode": inp["mode"]}


def _short_obs(obs):
    if obs is None or len(obs["results"]) <= 6:
        return obs
    return {"results": obs["results"][:4] + ["... %d" % len(obs["results"])], "replies": obs["replies"]}


# ------------------------------------------------------------------------------------ stats on inputs

def _input_stats(inp, counters):
    proposed, supported, roles = inp["proposed"], inp["supported"], inp["roles"]
    n = len(proposed)
    if n == 0:
        counters["lists_empty"] += 1
    if n == 128:
        counters["lists_128"] += 1
    abs_ = [p[1] for p in proposed]
    if len(set(abs_)) < len(abs_):
        counters["lists_dup_abstract"] += 1
    sup = {s[0]: s for s in supported}
    # the layout in which a stale per-iteration variable would show: a context without role proposal, whose
    # supported roles are explicit, placed after a context that has a role proposal and is supported
    earlier_proposal = False
    for cid, ab, tss in proposed:
        if ab in sup and ab not in roles and earlier_proposal and sup[ab][2] is not None and sup[ab][3] is not None:
            counters["stale_layout_contexts"] += 1
        if ab in sup and ab in roles:
            earlier_proposal = True
    unrestricted = inp["mode"] == "unrestricted"
    supported_any = any((ab in sup) or (unrestricted and refneg.is_storage_like(ab)) for ab in abs_)
    return supported_any and any(ab in roles for ab in abs_)


def _canon(inp, path):
    return sha([inp["proposed"], inp["supported"], sorted(inp["roles"].items()), inp["mode"], path])


# ------------------------------------------------------------------------------------ case runner

def _new_counters():
    c = {k: 0 for k in REQUIRE}
    c.update({"contexts_checked": 0, "result_0x02": 0, "inputs_rejected_by_api": 0, "evals_normal": 0,
              "acse_mode_choice_checked": 0, "contexts_skipped_misclassified": 0,
              "classification_uids_probed": 0, "classification_uids_unconfirmed": 0})
    return c


def evaluate(inp, path, counters):
    """One evaluation of the real code on `path`; returns (violations, inconclusive|None)."""
    mode = inp["mode"]
    try:
        if path == "direct":
            obs = observe_direct(inp)
            used, problem = None, None
        else:
            obs, used, problem = observe_acse(inp)
    except Rejected:
        counters["inputs_rejected_by_api"] += 1
        return [], None
    except Exception as exc:  # the real code raised on an input the API admitted
        import traceback
        tb = traceback.extract_tb(exc.__traceback__)
        where = tb[-1].name if tb else "?"
        return [{"key": "raises|%s|%s|%s|%s" % (path, mode, type(exc).__name__, where),
                 "detail": "%r ; input=%r" % (exc, _short(inp))}], None
    V = []
    if path == "acse":
        counters["evals_acse"] += 1
        counters["acse_mode_choice_checked"] += 1
        if used != [mode]:
            V.append({"key": "acse-mode-choice|config-%s|used-%s" % (mode, "+".join(used) or "none"),
                      "detail": "UNRESTRICTED_STORAGE_SERVICE=%r but ACSE called %r ; input=%r"
                                % (mode == "unrestricted", used, _short(inp))})
        if obs is None:
            return V, problem
        if problem:
            V.append({"key": "acse-accept-primitive-differs", "detail": problem})
    else:
        counters["evals_direct"] += 1
    counters["evals_unrestricted" if mode == "unrestricted" else "evals_normal"] += 1
    V.extend(check(inp, obs, counters))
    return V, None


# ---- concurrent negotiations (every association is negotiated in its own thread of the acceptor AE): the outcome of one
# negotiation must not depend on others running at the same time.  Yields are injected at every function entry and line
# of pynetdicom/presentation.py (sys.monitoring), so any Python-level step of the real code is a possible hand-over point.
INJ = {"installed": False, "hits": 0}
_TOOL = 4


def _injection(on):
    import sys
    import time as _t
    mon = sys.monitoring
    if not INJ["installed"]:
        mon.use_tool_id(_TOOL, "c10-yield-injection")
        tail = os.path.join("pynetdicom", "presentation.py")

        def hit(code, *_):
            if not code.co_filename.endswith(tail):
                return mon.DISABLE
            INJ["hits"] += 1
            _t.sleep(0.0002 if INJ["hits"] % 7 == 0 else 0)
        mon.register_callback(_TOOL, mon.events.PY_START, hit)
        mon.register_callback(_TOOL, mon.events.LINE, hit)
        INJ["installed"] = True
    mon.set_events(_TOOL, (mon.events.PY_START | mon.events.LINE) if on else 0)


def run_concurrent(case):
    import threading
    rng = rng_for(case["seed"], PID, "concurrent", case["block"])
    tab = table_inputs()
    nthreads = 6
    per = 60
    plans = [[tab[rng.randrange(len(tab))] for _ in range(per)] + [gen_input(rng) for _ in range(per // 3)] for _ in range(nthreads)]
    for pl in plans:
        rng.shuffle(pl)
    # single-threaded baseline first: a violation that shows up there is not a concurrency effect (and is reported by the other kinds)
    base = set()
    for pl in plans:
        for inp in pl:
            V, _ = evaluate(inp, "direct", _new_counters())
            base.update(v["key"] for v in V)
    out = [[] for _ in range(nthreads)]
    cnts = [_new_counters() for _ in range(nthreads)]
    barrier = threading.Barrier(nthreads)

    def worker(k):
        barrier.wait(5.0)
        for inp in plans[k]:
            V, _ = evaluate(inp, "direct", cnts[k])
            out[k].extend(V)
    INJ["hits"] = 0
    _injection(True)
    try:
        ths = [threading.Thread(target=worker, args=(k,), daemon=True) for k in range(nthreads)]
        for t in ths:
            t.start()
        for t in ths:
            t.join(120.0)
    finally:
        _injection(False)
    counters = _new_counters()
    counters["concurrent_rounds"] = 1
    counters["concurrent_negotiations"] = sum(c["evals_direct"] for c in cnts)
    counters["concurrent_yield_hits"] = INJ["hits"]
    viols, seen = [], set()
    for V in out:
        for v in V:
            if v["key"] in base:
                continue
            k = "concurrent-only|" + v["key"]
            if k not in seen:
                seen.add(k)
                viols.append({"key": k, "detail": "only when %d threads negotiate at the same time: %s" % (nthreads, v["detail"])})
    inconclusive = "a negotiation thread did not finish" if any(t.is_alive() for t in ths) else None
    return {"key": sha(["concurrent", case["block"], counters["concurrent_negotiations"]]), "nontrivial": counters["concurrent_negotiations"] > 0,
            "sample": {"kind": "concurrent", "threads": nthreads, "negotiations": counters["concurrent_negotiations"], "yield_hits": INJ["hits"],
                       "first_input_of_thread_0": _short(plans[0][0])},
            "violations": viols, "counters": counters, "inconclusive": inconclusive}


def run_case(case):
    if case.get("kind") == "concurrent":
        return run_concurrent(case)
    counters = _new_counters()
    viols, keys, seen_vkeys = [], set(), set()
    sample = None
    inconclusive = None
    if "input" in case:
        work = [(case["input"], case.get("paths", ["direct", "acse"]))]
    elif case["kind"] == "table":
        tab = table_inputs()
        work = [(inp, ["direct", "acse"]) for inp in tab[case["lo"]:case["hi"]]]
    elif case["kind"] == "classify":
        work = [(inp, ["direct"]) for inp in classify_inputs(counters)]
    else:
        rng = rng_for(case["seed"], PID, "random", case["block"])
        work = []
        for i in range(case["count"]):
            inp = gen_input(rng)
            paths = ["direct"]
            if i % 4 == 0 and inp["proposed"]:
                paths.append("acse")
            work.append((inp, paths))
    for inp, paths in work:
        nontrivial = _input_stats(inp, counters)
        for path in paths:
            V, inc = evaluate(inp, path, counters)
            if inc and not inconclusive:
                inconclusive = inc
            if nontrivial:
                keys.add(_canon(inp, path))
            for v in V:
                if v["key"] not in seen_vkeys:
                    seen_vkeys.add(v["key"])
                    viols.append(v)
        if sample is None and nontrivial and 2 <= len(inp["proposed"]) <= 4:
            try:
                sample = {"input": inp, "observed_direct": observe_direct(inp)}
            except Exception:
                sample = {"input": inp}
    counters["distinct_nontrivial_inputs"] = len(keys)
    return {"key": sha(sorted(keys)), "nontrivial": bool(keys), "sample": sample, "violations": viols,
            "counters": counters, "inconclusive": inconclusive}


def extra_evidence(tier, results):
    n = sum(r.get("counters", {}).get("distinct_nontrivial_inputs", 0) for r in results.values())
    return {"distinct_nontrivial": n,
            "note": "distinct_nontrivial counts (input, path) pairs; per-block distinct sets summed (table blocks are "
                    "disjoint slices, random blocks use disjoint RNG streams)",
            "stated_limits": [
                "roles of storage-like contexts in unrestricted mode WITH a role proposal are not compared with a "
                "table cell (the documentation does not say which supported roles apply); only P5, P6 and P7 apply",
                "transfer syntax / roles of rejected contexts are not asserted; ordering of results/replies is not "
                "asserted; whether a role reply is sent when the outcome is the default anyway is not asserted "
                "beyond P6/P7",
                "acse path stops at the A-ASSOCIATE primitive handed to the DUL (encoding is C01/C12's subject)",
            ]}
