"""C09 — protocol timers measure elapsed time, not wall-clock time.

Two monitors.  (1) Live: a real acceptor association (network timeout 1 s, ARTIM 0.8 s) whose view of the WALL clock
(`time.time` as bound in pynetdicom.timer / dul / association) is stepped by +-3600 / +-5 / 0 s while it is idle, while it
receives a C-ECHO every 0.25 s, or while a connected peer stays silent: expiry must come after the timeout of ELAPSED time
(not before 0.9 x, not later than +3 s) and a busy association must never time out.  (2) Unit: the real pynetdicom.timer.Timer runs with `pynetdicom.timer.time` replaced by a
virtual clock module (wall clock and monotonic clock are separate and both virtual); an
elapsed-time reference timer is stepped with the same operations; every read of
`expired` / `remaining` is compared.  Agnostic to which clock function a correct
implementation reads: monotonic()/perf_counter()(+_ns) advance only with elapsed time,
time()/time_ns() additionally jump with wall steps.
"""
import types

from vlib.common import rng_for, sha

PID = "C09"
LEVEL = "exploration"
RULE = ("seeded operation sequences {start, stop, restart, set-timeout(None|0|x), advance elapsed time, "
        "step wall clock +-s, read expired/remaining} on the real Timer under a virtual clock; distinct = "
        "hash of the op sequence; non-trivial = contains a wall-clock step while the timer is running "
        "followed by a read")
ASSUMPTIONS = ["a correct Timer reads time only through the `time` module bound in pynetdicom.timer",
               "virtual clock: wall = elapsed + offset; only `advance` moves elapsed time"]
WORKERS = {"quick": 8, "thorough": 16}
REQUIRE = {"reads_after_wall_step_while_running": 100, "expired_true_reads": 50, "expired_false_reads": 50,
           "live_scenarios": 15, "live_traffic": 5, "live_idle": 5, "live_artim": 5, "expiry_times_measured": 10, "echoes_under_stepped_clock": 40}


class VClock:
    def __init__(self):
        self.elapsed = 1000.0
        self.offset = 1.7e9

    def module(self):
        m = types.ModuleType("time")
        import time as real
        for name in dir(real):
            if not name.startswith("__"):
                setattr(m, name, getattr(real, name))
        m.time = lambda: self.elapsed + self.offset
        m.time_ns = lambda: int((self.elapsed + self.offset) * 1e9)
        m.monotonic = lambda: self.elapsed
        m.monotonic_ns = lambda: int(self.elapsed * 1e9)
        m.perf_counter = lambda: self.elapsed
        m.perf_counter_ns = lambda: int(self.elapsed * 1e9)
        m.sleep = lambda s: None
        return m


class RefTimer:
    """Elapsed-time reference, from the Timer class documentation."""

    def __init__(self, timeout):
        self.timeout = timeout
        self.start = None
        self.end = None

    def remaining(self, now):
        if self.timeout is None:
            return 1
        if self.start is None:
            return self.timeout
        end = now if self.end is None else self.end
        return self.timeout - (end - self.start)

    def expired(self, now):
        if self.timeout is None or self.start is None:
            return False
        return self.remaining(now) < 0


def gen_cases(tier, seed):
    n = 4000 if tier == "quick" else 120000
    per = 250 if tier == "quick" else 2000
    cases = [{"seed": seed, "block": b, "count": per} for b in range(n // per)]
    # live part: the idle (network) timer and ARTIM as the provider uses them, wall clock stepped under a running association
    steps = [3600.0, -3600.0, 5.0, -5.0, 0.0]
    reps = 1 if tier == "quick" else 6
    for r in range(reps):
        for scn in ("traffic", "idle", "artim"):
            for st in steps:
                cases.append({"seed": seed, "live": scn, "step": st, "rep": r})
    return cases


# ---------------------------------------------------------------- live scenarios
class _WallProxy:
    """Stands in for the `time` module inside pynetdicom: time()/time_ns() are offset, everything else is the real module."""

    def __init__(self):
        import time as real
        self._real = real
        self.offset = 0.0

    def __getattr__(self, name):
        return getattr(self._real, name)

    def time(self):
        return self._real.time() + self.offset

    def time_ns(self):
        return self._real.time_ns() + int(self.offset * 1e9)


_LIVE = {}


def _live_setup():
    if _LIVE:
        return
    import sys
    from vlib import harness, taps
    harness.quiet_logging()
    taps.install()
    import pynetdicom
    wall = _WallProxy()
    patched = []
    for name, mod in list(sys.modules.items()):
        if name.startswith("pynetdicom") and getattr(mod, "time", None) is wall._real:
            mod.time = wall
            patched.append(name)
    _LIVE.update(wall=wall, patched=patched)


def run_live(case):
    import time as real
    from vlib import cmdset, harness, peer as vpeer, ps38, taps
    _live_setup()
    wall = _LIVE["wall"]
    wall.offset = 0.0
    taps.reset()
    NT, AT = 1.0, 0.8          # network (idle) timeout, ACSE timeout (= ARTIM)
    ae = harness.make_ae(timeouts=(AT, 5.0, NT, 5.0), supported=["1.2.840.10008.1.1"])
    server, port = harness.start_server(ae, [])
    viol, obs = [], {"scenario": case["live"], "wall_step": case["step"], "modules_with_stepped_wall_clock": _LIVE["patched"]}
    counters = {"live_scenarios": 1, "live_" + case["live"]: 1}
    p = None
    try:
        p = vpeer.Peer.connect(port)
        t_conn = real.monotonic()
        scn = case["live"]
        tag = "%s|step%+d" % (scn, int(case["step"]))
        if scn == "artim":
            real.sleep(0.3)
            wall.offset = case["step"]
            closed = p.wait_eof(AT + 3.0)
            dt = real.monotonic() - t_conn
            obs.update(closed=closed, closed_after_s=round(dt, 3), artim_timeout=AT)
            if not closed:
                viol.append({"key": "artim-expiry-delayed|" + tag, "detail": "silent peer: connection still open %.2f s after connecting (ARTIM %.1f s, wall clock stepped %+.0f s at 0.3 s)" % (dt, AT, case["step"])})
            elif dt < AT * 0.9:
                viol.append({"key": "artim-expired-early|" + tag, "detail": "silent peer: connection closed after %.2f s, ARTIM is %.1f s (wall clock stepped %+.0f s at 0.3 s)" % (dt, AT, case["step"])})
            counters["expiry_times_measured"] = 1
        else:
            ac = p.associate(ps38.make_rq())
            if not ac or ac.get("type") != "AC":
                return {"key": sha(["live", tag, "setup"]), "nontrivial": False, "sample": obs, "violations": [], "counters": counters, "inconclusive": "association not accepted"}
            t_last = real.monotonic()
            if scn == "idle":
                real.sleep(0.3)
                wall.offset = case["step"]
                v = p.recv_pdu(NT + 3.0)
                dt = real.monotonic() - t_last
                obs.update(answer=(v or {}).get("type"), after_s=round(dt, 3), network_timeout=NT)
                if v is None:
                    viol.append({"key": "idle-expiry-delayed|" + tag, "detail": "idle association: nothing %.2f s after the last PDU (network timeout %.1f s, wall clock stepped %+.0f s at 0.3 s)" % (dt, NT, case["step"])})
                elif dt < NT * 0.9:
                    viol.append({"key": "idle-expired-early|" + tag, "detail": "idle association ended (%s) %.2f s after the last PDU, network timeout is %.1f s (wall clock stepped %+.0f s)" % (v.get("type"), dt, NT, case["step"])})
                counters["expiry_times_measured"] = 1
            else:
                # traffic every 0.25 s for 3 network timeouts: the association is never idle for as long as the timeout
                answered, ended = 0, None
                t0 = real.monotonic()
                k = 0
                while real.monotonic() - t0 < 3 * NT:
                    k += 1
                    if k == 3:
                        wall.offset = case["step"]
                    p.send_dimse(1, cmdset.c_echo_rq(k))
                    m = p.recv_dimse(2.0)
                    if m is None or m.get("type") != "DIMSE":
                        ended = (m or {}).get("type", "no answer")
                        break
                    answered += 1
                    real.sleep(0.25)
                obs.update(echoes_answered=answered, ended=ended, network_timeout=NT)
                counters["echoes_under_stepped_clock"] = answered
                if ended is not None:
                    viol.append({"key": "busy-association-timed-out|" + tag, "detail": "C-ECHO every 0.25 s, network timeout %.1f s, wall clock stepped %+.0f s before echo 3: after %d answers the peer got %r" % (NT, case["step"], answered, ended)})
                else:
                    p.release(2.0)
    finally:
        wall.offset = 0.0
        if p is not None:
            p.close()
        harness.stop_ae(ae, 2.0)
    return {"key": sha(["live", case["live"], case["step"]]), "nontrivial": True, "sample": obs, "violations": viol, "counters": counters}


def gen_ops(rng):
    ops = []
    t0 = rng.choice([None, 0, 0.5, 1, 5, 30, rng.uniform(0.01, 100)])
    ops.append(("init", t0))
    for _ in range(rng.randint(1, 40)):
        r = rng.random()
        if r < 0.18:
            ops.append(("start",))
        elif r < 0.28:
            ops.append(("stop",))
        elif r < 0.33:
            ops.append(("restart",))
        elif r < 0.40:
            ops.append(("timeout", rng.choice([None, 0, 0.5, 1, 5, 30, rng.uniform(0.01, 100)])))
        elif r < 0.60:
            ops.append(("advance", rng.choice([0, 0.001, 0.25, 0.5, 1, 5, 30, rng.uniform(0, 120)])))
        elif r < 0.75:
            ops.append(("wall", rng.choice([-1, 1]) * rng.choice([0.5, 1, 3600, 86400, rng.uniform(0.001, 1e5)])))
        else:
            ops.append(("read",))
    ops.append(("read",))
    return ops


def run_ops(ops):
    import pynetdicom.timer as tm
    clock = VClock()
    saved = tm.time
    tm.time = clock.module()
    counters = {"reads": 0, "reads_after_wall_step_while_running": 0, "expired_true_reads": 0,
                "expired_false_reads": 0, "boundary_reads": 0}
    viol = []
    try:
        real = ref = None
        stepped_running = False
        for i, op in enumerate(ops):
            k = op[0]
            if k == "init":
                real = tm.Timer(op[1]); ref = RefTimer(op[1])
            elif k == "start":
                real.start(); ref.start = clock.elapsed; ref.end = None; stepped_running = False
            elif k == "restart":
                real.restart(); ref.start = clock.elapsed; ref.end = None; stepped_running = False
            elif k == "stop":
                real.stop(); ref.end = clock.elapsed
            elif k == "timeout":
                real.timeout = op[1]; ref.timeout = op[1]
            elif k == "advance":
                clock.elapsed += op[1]
            elif k == "wall":
                clock.offset += op[1]
                if ref.start is not None and ref.timeout is not None:
                    stepped_running = True
            elif k == "read":
                counters["reads"] += 1
                e_real, r_real = real.expired, real.remaining
                e_ref, r_ref = ref.expired(clock.elapsed), ref.remaining(clock.elapsed)
                if stepped_running:
                    counters["reads_after_wall_step_while_running"] += 1
                counters["expired_true_reads" if e_ref else "expired_false_reads"] += 1
                if ref.timeout is not None and ref.start is not None and abs(r_ref) < 1e-12:
                    counters["boundary_reads"] += 1
                bad = (e_real != e_ref) or (real.timeout != ref.timeout)
                if not bad:
                    if (r_real is None) or abs(float(r_real) - float(r_ref)) > 1e-4:
                        bad = True
                if bad:
                    mech = "wall-step" if stepped_running else "no-wall-step"
                    viol.append({"key": "timer-mismatch|%s" % mech,
                                 "detail": "op#%d: real expired=%r remaining=%r; elapsed-time reference "
                                           "expired=%r remaining=%r; ops=%r" % (i, e_real, r_real, e_ref, r_ref, ops[:i + 1])})
                    break
    finally:
        tm.time = saved
    return counters, viol


def run_case(case):
    if "live" in case:
        return run_live(case)
    rng = rng_for(case["seed"], PID, case["block"])
    counters = {}
    viols = []
    keys = set()
    sample = None
    if "ops" in case:
        seqs = [case["ops"]]
    else:
        seqs = [gen_ops(rng) for _ in range(case["count"])]
        if case["block"] == 0:
            # boundary: exactly timeout elapsed must NOT be expired (strictly greater)
            seqs.append([("init", 5), ("start",), ("advance", 5), ("read",), ("advance", 0.001), ("read",)])
            seqs.append([("init", 1), ("start",), ("wall", 3600), ("read",), ("wall", -7200), ("advance", 2), ("read",)])
            seqs.append([("init", 1), ("start",), ("advance", 0.5), ("stop",), ("wall", 10), ("advance", 10), ("read",)])
    nontrivial = 0
    for ops in seqs:
        ops = [tuple(o) for o in ops]
        c, v = run_ops(ops)
        for k, n in c.items():
            counters[k] = counters.get(k, 0) + n
        if c["reads_after_wall_step_while_running"]:
            keys.add(sha(ops)); nontrivial += 1
        if v and not viols:
            viols = v
            viols[0]["ops"] = ops
        if sample is None and c["reads_after_wall_step_while_running"]:
            sample = {"ops": ops, "observed_counters": c}
    counters["sequences"] = len(seqs)
    counters["distinct_nontrivial_sequences"] = len(keys)
    res = {"key": sha(sorted(keys)), "nontrivial": bool(keys), "sample": sample,
           "violations": [{"key": v["key"], "detail": v["detail"]} for v in viols], "counters": counters}
    if viols:
        res["sample"] = {"violating_ops": viols[0].get("ops")}
    return res


def extra_evidence(tier, results):
    n = sum(r.get("counters", {}).get("distinct_nontrivial_sequences", 0) for r in results.values())
    n += len({r["key"] for r in results.values() if r.get("counters", {}).get("live_scenarios") and r.get("nontrivial")})
    return {"distinct_nontrivial": n, "note": "distinct_nontrivial counts op sequences (per-block distinct sets summed; blocks use disjoint RNG streams) plus distinct live (scenario, wall step) pairs"}
