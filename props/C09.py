"""C09 — protocol timers measure elapsed time, not wall-clock time.

Monitor: the real pynetdicom.timer.Timer runs with `pynetdicom.timer.time` replaced by a
virtual clock module (wall clock and monotonic clock are separate and both virtual); an
elapsed-time reference timer is stepped with the same operations; every read of
`expired` / `remaining` is compared.  Agnostic to which clock function a correct
implementation reads: monotonic()/perf_counter()(+_ns) advance only with elapsed time,
time()/time_ns() additionally jump with wall steps.
"""
import types

from vlib.common import rng_for, sha

PID = "C09"
LEVEL = "exploration"
RULE = ("seeded operation sequences {start, stop, restart, set-timeout(None|0|x), advance elapsed time, "
        "step wall clock +-s, read expired/remaining} on the real Timer under a virtual clock; distinct = "
        "hash of the op sequence; non-trivial = contains a wall-clock step while the timer is running "
        "followed by a read")
ASSUMPTIONS = ["a correct Timer reads time only through the `time` module bound in pynetdicom.timer",
               "virtual clock: wall = elapsed + offset; only `advance` moves elapsed time"]
WORKERS = {"quick": 8, "thorough": 16}
REQUIRE = {"reads_after_wall_step_while_running": 100, "expired_true_reads": 50, "expired_false_reads": 50}


class VClock:
    def __init__(self):
        self.elapsed = 1000.0
        self.offset = 1.7e9

    def module(self):
        m = types.ModuleType("time")
        import time as real
        for name in dir(real):
            if not name.startswith("__"):
                setattr(m, name, getattr(real, name))
        m.time = lambda: self.elapsed + self.offset
        m.time_ns = lambda: int((self.elapsed + self.offset) * 1e9)
        m.monotonic = lambda: self.elapsed
        m.monotonic_ns = lambda: int(self.elapsed * 1e9)
        m.perf_counter = lambda: self.elapsed
        m.perf_counter_ns = lambda: int(self.elapsed * 1e9)
        m.sleep = lambda s: None
        return m


class RefTimer:
    """Elapsed-time reference, from the Timer class documentation."""

    def __init__(self, timeout):
        self.timeout = timeout
        self.start = None
        self.end = None

    def remaining(self, now):
        if self.timeout is None:
            return 1
        if self.start is None:
            return self.timeout
        end = now if self.end is None else self.end
        return self.timeout - (end - self.start)

    def expired(self, now):
        if self.timeout is None or self.start is None:
            return False
        return self.remaining(now) < 0


def gen_cases(tier, seed):
    n = 4000 if tier == "quick" else 120000
    per = 250 if tier == "quick" else 2000
    return [{"seed": seed, "block": b, "count": per} for b in range(n // per)]


def gen_ops(rng):
    ops = []
    t0 = rng.choice([None, 0, 0.5, 1, 5, 30, rng.uniform(0.01, 100)])
    ops.append(("init", t0))
    for _ in range(rng.randint(1, 40)):
        r = rng.random()
        if r < 0.18:
            ops.append(("start",))
        elif r < 0.28:
            ops.append(("stop",))
        elif r < 0.33:
            ops.append(("restart",))
        elif r < 0.40:
            ops.append(("timeout", rng.choice([None, 0, 0.5, 1, 5, 30, rng.uniform(0.01, 100)])))
        elif r < 0.60:
            ops.append(("advance", rng.choice([0, 0.001, 0.25, 0.5, 1, 5, 30, rng.uniform(0, 120)])))
        elif r < 0.75:
            ops.append(("wall", rng.choice([-1, 1]) * rng.choice([0.5, 1, 3600, 86400, rng.uniform(0.001, 1e5)])))
        else:
            ops.append(("read",))
    ops.append(("read",))
    return ops


def run_ops(ops):
    import pynetdicom.timer as tm
    clock = VClock()
    saved = tm.time
    tm.time = clock.module()
    counters = {"reads": 0, "reads_after_wall_step_while_running": 0, "expired_true_reads": 0,
                "expired_false_reads": 0, "boundary_reads": 0}
    viol = []
    try:
        real = ref = None
        stepped_running = False
        for i, op in enumerate(ops):
            k = op[0]
            if k == "init":
                real = tm.Timer(op[1]); ref = RefTimer(op[1])
            elif k == "start":
                real.start(); ref.start = clock.elapsed; ref.end = None; stepped_running = False
            elif k == "restart":
                real.restart(); ref.start = clock.elapsed; ref.end = None; stepped_running = False
            elif k == "stop":
                real.stop(); ref.end = clock.elapsed
            elif k == "timeout":
                real.timeout = op[1]; ref.timeout = op[1]
            elif k == "advance":
                clock.elapsed += op[1]
            elif k == "wall":
                clock.offset += op[1]
                if ref.start is not None and ref.timeout is not None:
                    stepped_running = True
            elif k == "read":
                counters["reads"] += 1
                e_real, r_real = real.expired, real.remaining
                e_ref, r_ref = ref.expired(clock.elapsed), ref.remaining(clock.elapsed)
                if stepped_running:
                    counters["reads_after_wall_step_while_running"] += 1
                counters["expired_true_reads" if e_ref else "expired_false_reads"] += 1
                if ref.timeout is not None and ref.start is not None and abs(r_ref) < 1e-12:
                    counters["boundary_reads"] += 1
                bad = (e_real != e_ref) or (real.timeout != ref.timeout)
                if not bad:
                    if (r_real is None) or abs(float(r_real) - float(r_ref)) > 1e-4:
                        bad = True
                if bad:
                    mech = "wall-step" if stepped_running else "no-wall-step"
                    viol.append({"key": "timer-mismatch|%s" % mech,
                                 "detail": "op#%d: real expired=%r remaining=%r; elapsed-time reference "
                                           "expired=%r remaining=%r; ops=%r" % (i, e_real, r_real, e_ref, r_ref, ops[:i + 1])})
                    break
    finally:
        tm.time = saved
    return counters, viol


def run_case(case):
    rng = rng_for(case["seed"], PID, case["block"])
    counters = {}
    viols = []
    keys = set()
    sample = None
    if "ops" in case:
        seqs = [case["ops"]]
    else:
        seqs = [gen_ops(rng) for _ in range(case["count"])]
        if case["block"] == 0:
            # boundary: exactly timeout elapsed must NOT be expired (strictly greater)
            seqs.append([("init", 5), ("start",), ("advance", 5), ("read",), ("advance", 0.001), ("read",)])
            seqs.append([("init", 1), ("start",), ("wall", 3600), ("read",), ("wall", -7200), ("advance", 2), ("read",)])
            seqs.append([("init", 1), ("start",), ("advance", 0.5), ("stop",), ("wall", 10), ("advance", 10), ("read",)])
    nontrivial = 0
    for ops in seqs:
        ops = [tuple(o) for o in ops]
        c, v = run_ops(ops)
        for k, n in c.items():
            counters[k] = counters.get(k, 0) + n
        if c["reads_after_wall_step_while_running"]:
            keys.add(sha(ops)); nontrivial += 1
        if v and not viols:
            viols = v
            viols[0]["ops"] = ops
        if sample is None and c["reads_after_wall_step_while_running"]:
            sample = {"ops": ops, "observed_counters": c}
    counters["sequences"] = len(seqs)
    counters["distinct_nontrivial_sequences"] = len(keys)
    res = {"key": sha(sorted(keys)), "nontrivial": bool(keys), "sample": sample,
           "violations": [{"key": v["key"], "detail": v["detail"]} for v in viols], "counters": counters}
    if viols:
        res["sample"] = {"violating_ops": viols[0].get("ops")}
    return res


def extra_evidence(tier, results):
    n = sum(r.get("counters", {}).get("distinct_nontrivial_sequences", 0) for r in results.values())
    return {"distinct_nontrivial": n, "note": "distinct_nontrivial counts op sequences (per-block distinct sets summed; blocks use disjoint RNG streams)"}
