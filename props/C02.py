"""C02 — arbitrary received bytes never crash the provider or yield unstable PDUs.

Layer A (deciding): a REAL provider (acceptor behind AssociationServer, or requestor against a scripted acceptor) is
brought to a chosen FSM state with valid PDUs, then receives the fuzz stream, then the peer closes.  Observed:
  * exceptions escaping any pynetdicom thread (threading.excepthook), actions that raise, undefined (state,event) pairs
  * every PDU the provider decoded must be stable: q.decode(p.encode()); q == p and q.encode() == p.encode()
  * PS3.8-conformant PDUs (incl. non-zero reserved bytes) must be decoded (their own event), never Evt19
  * after the peer closes the association's threads end and the FSM is idle (bounded progress; a watchdog firing with a
    stable blocked stack is a violation, otherwise inconclusive)
Layer B (selection only): in-process decode of many mutated inputs; anything it flags is re-run through layer A and
only layer A's observation is reported.
"""
import struct
import threading
import time

from vlib import adapt, cmdset, gen, harness, peer as vpeer, ps38, taps
from vlib.common import rng_for, sha

PID = "C02"
LEVEL = "exploration"
RULE = ("structure-aware mutation of reference PDUs (truncate/extend, bit flips, every length field -> {0,1,len-1,len+1,max}, "
        "unknown PDU/item types, enumerated-field sweeps 0..255, hostile UID/AE bytes, random bytes, zero/oversize lengths) and "
        "conformant PDUs with non-zero reserved bytes, delivered to a real provider in Sta2/Sta5/Sta6/Sta7/Sta13; distinct = "
        "(mutator, target field, FSM state, outcome class); non-trivial = stream differs from a plain valid conversation")
ASSUMPTIONS = ["unknown item types inside A-ASSOCIATE PDUs are not required to be accepted (PS3.8 9.3.1 leaves it open) - not asserted",
               "protocol_version values other than 1 are not asserted either way",
               "bounded progress: all timeouts 1 s, watchdog 10 s"]
WORKERS = {"quick": 16, "thorough": 16}
REQUIRE = {"layerA_streams": 800, "layerB_inputs": 20000, "decoded_pdus_stability_checked": 300, "conformant_checked": 150,
           "state_Sta2": 100, "state_Sta6": 100, "state_Sta13": 30, "state_Sta5": 30, "evt19_observed": 50, "evt17_observed": 50}
VER = "1.2.840.10008.1.1"


def setup_worker():
    harness.quiet_logging()
    taps.install()


# ------------------------------------------------------------------ mutators

def length_fields(b):
    """[(offset_of_length_field, size, path)] using the reference walker."""
    w = ps38.Walk()
    try:
        ps38.decode(b, w)
    except Exception:
        pass
    out = []
    for (path, off, declared, actual) in w.lengths:
        if off < 0:
            continue
        if path == "pdu":
            out.append((2, 4, "pdu"))
        elif path.startswith("PDATA/pdv"):
            out.append((off, 4, "pdv"))
        else:
            out.append((off + 2, 2, path))
    return out


def base_values(rng):
    """Valid abstract values to mutate (all 7 types)."""
    v = gen.gen_value(rng)
    if v["type"] in ("RQ", "AC") and len(v["pcs"]) > 6:
        v["pcs"] = v["pcs"][:6]
    return v


def mutate(rng, b, v):
    """Returns (name, field, bytes)."""
    r = rng.random()
    t = v["type"]
    if r < 0.12:
        k = rng.randint(0, len(b))
        fix = rng.random() < 0.5 and k >= 6
        out = b[:k]
        if fix:
            out = out[:2] + struct.pack(">I", len(out) - 6) + out[6:]
        return ("truncate-fixlen" if fix else "truncate"), "offset", out
    if r < 0.18:
        extra = rng.randbytes(rng.choice([1, 2, 4, 7, 64]))
        out = b + extra
        if rng.random() < 0.5:
            out = out[:2] + struct.pack(">I", len(out) - 6) + out[6:]
            return "extend-fixlen", "tail", out
        return "extend", "tail", out
    if r < 0.38:
        k = rng.randrange(len(b))
        out = bytearray(b)
        out[k] ^= 1 << rng.randrange(8)
        return "bitflip", ("header" if k < 6 else "body"), bytes(out)
    if r < 0.58:
        lf = length_fields(b)
        if lf:
            off, size, path = rng.choice(lf)
            cur = int.from_bytes(b[off:off + size], "big")
            newv = rng.choice([0, 1, max(0, cur - 1), cur + 1, (1 << (8 * size)) - 1, cur + 2, max(0, cur - 2)])
            out = b[:off] + newv.to_bytes(size, "big") + b[off + size:]
            return "length-field", path.split("/")[-1], out
    if r < 0.64:
        out = bytes([rng.choice([0, 8, 9, 0x10, 0x50, 0xFF])]) + b[1:]
        return "unknown-pdu-type", "type", out
    if r < 0.72 and t in ("RQ", "AC") and len(b) > 80:
        # replace an item / sub-item type byte
        lf = [x for x in length_fields(b) if x[2] not in ("pdu", "pdv")]
        if lf:
            off, size, path = rng.choice(lf)
            out = bytearray(b)
            out[off - 2] = rng.choice([0x00, 0x11, 0x22, 0x31, 0x41, 0x5A, 0x60, 0xFF, 0x51, 0x58, 0x59, 0x20, 0x21, 0x10])
            return "item-type", path.split("/")[-1], bytes(out)
    if r < 0.84:
        # enumerated-field sweeps
        val = rng.randrange(256)
        out = bytearray(b)
        if t == "ABORT":
            which = rng.choice([8, 9, 6, 7]); out[which] = val
            return "enum-sweep", "abort-byte-%d" % which, bytes(out)
        if t == "RJ":
            which = rng.choice([7, 8, 9, 6]); out[which] = val
            return "enum-sweep", "rj-byte-%d" % which, bytes(out)
        if t in ("RQ", "AC") and len(b) > 80:
            # context id / result / role bytes / user identity type / protocol version / reserved bytes
            cands = []
            off = 74
            while off + 4 <= len(b):
                it = b[off]; ln = int.from_bytes(b[off + 2:off + 4], "big")
                if it in (0x20, 0x21):
                    cands += [(off + 4, "context-id"), (off + 6, "pc-result-or-reserved"), (off + 5, "pc-reserved"), (off + 1, "item-reserved")]
                if it == 0x50:
                    so = off + 4
                    while so + 4 <= off + 4 + ln and so + 4 <= len(b):
                        st = b[so]; sl = int.from_bytes(b[so + 2:so + 4], "big")
                        if st == 0x54:
                            cands += [(so + 4 + sl - 2, "role-scu"), (so + 4 + sl - 1, "role-scp")]
                        if st == 0x58:
                            cands += [(so + 4, "user-identity-type"), (so + 5, "user-identity-resp")]
                        cands.append((so + 1, "subitem-reserved"))
                        so += 4 + sl
                off += 4 + ln
            cands += [(7, "protocol-version"), (8, "reserved-9"), (rng.randrange(42, 74), "reserved-32")]
            pos, name = rng.choice(cands)
            if pos < len(out):
                out[pos] = val
                return "enum-sweep", name, bytes(out)
        if t == "PDATA" and len(b) > 12:
            out[10] = val
            return "enum-sweep", "pdv-context-id", bytes(out)
    if r < 0.93 and t in ("RQ", "AC"):
        # hostile AE title / UID bytes
        out = bytearray(b)
        kind = rng.choice(["ae-called", "ae-calling", "uid"])
        hostile = rng.choice([b" " * 16, b"\0" * 16, b"ABC\0\0\0\0\0\0\0\0\0\0\0\0\0", "ÄÖÜ".encode("latin-1").ljust(16),
                              b"\x01\x02\x7f".ljust(16), b"A\\B".ljust(16), b"\xff" * 16, b"  LEAD".ljust(16), b"x" * 16,
                              # a non-ASCII character next to the padding (only decodable with a fallback codec)
                              b"\xc2\xa0 ANY-SCP".ljust(16), b"ANY-SCP \xc3\xa9".ljust(16), b"\xe9 PEER".ljust(16), b"PEER \xe9 ".ljust(16)])
        if kind == "ae-called":
            out[10:26] = hostile
            return "hostile-bytes", "called-ae", bytes(out)
        if kind == "ae-calling":
            out[26:42] = hostile
            return "hostile-bytes", "calling-ae", bytes(out)
        i = bytes(out).find(b"1.2.840")
        if i > 2 and rng.random() < 0.35:
            # the whole UID field re-written in another text encoding (what a peer with a different default codec sends); only
            # decodable when _config.CODECS names such a fallback
            ln = int.from_bytes(out[i - 2:i], "big")
            if 4 <= ln <= 64 and i + ln <= len(out):
                how = rng.choice(["utf-16-be-bom", "ebcdic", "latin-1-tail"])
                if how == "utf-16-be-bom" and ln % 2 == 0:
                    txt = ("1.2." + "".join(rng.choice("0123456789") for _ in range(64)))[:(ln - 2) // 2]
                    out[i:i + ln] = b"\xfe\xff" + txt.encode("utf-16-be")
                    return "hostile-bytes", "uid-utf16", bytes(out)
                if how == "ebcdic":
                    txt = ("1.2." + "".join(rng.choice("0123456789") for _ in range(64)))[:ln]
                    out[i:i + ln] = txt.encode("cp037")
                    return "hostile-bytes", "uid-ebcdic", bytes(out)
                out[i + ln - 1] = 0xE9
                return "hostile-bytes", "uid-latin1-tail", bytes(out)
        if i > 0:
            repl = rng.choice([b"1.2.\xe4", b"1..2   ", b"\0\0\0\0\0\0\0", b"1.2.840", b"abc.def", b"0001.02", b" 1.2.84"])
            out[i:i + 7] = repl
            return "hostile-bytes", "uid", bytes(out)
    if rng.random() < 0.5:
        n = rng.choice([1, 5, 6, 7, 10, 100])
        return "random-bytes", "all", rng.randbytes(n)
    ln = rng.choice([0, 1, 3, 0xFFFFFFFF, 0x7FFFFFFF, 1 << 20])
    return "pdu-length", "pdu", b[:2] + struct.pack(">I", ln) + b[6:]


def conformant_variant(rng, v):
    """A PS3.8-conformant encoding with things receivers must not test: non-zero reserved bytes, arbitrary AE bytes in AC."""
    b = bytearray(ps38.encode(v))
    t = v["type"]
    what = []
    if rng.random() < 0.6:
        b[1] = rng.randrange(256); what.append("pdu-reserved")
    if t in ("RQ", "AC"):
        if rng.random() < 0.5:
            b[8] = rng.randrange(256); b[9] = rng.randrange(256); what.append("reserved-9-10")
        if rng.random() < 0.5:
            k = rng.randrange(42, 74); b[k] = rng.randrange(1, 256); what.append("reserved-32")
        if t == "AC" and rng.random() < 0.7:
            b[10:42] = rng.randbytes(32); what.append("ac-reserved-ae-fields")
    elif t in ("RELRQ", "RELRP"):
        if rng.random() < 0.7:
            b[6 + rng.randrange(4)] = rng.randrange(1, 256); what.append("release-reserved")
    elif t == "ABORT":
        if rng.random() < 0.7:
            b[6 + rng.randrange(2)] = rng.randrange(1, 256); what.append("abort-reserved")
    elif t == "RJ":
        if rng.random() < 0.7:
            b[6] = rng.randrange(1, 256); what.append("rj-reserved")
    return bytes(b), "+".join(what) or "plain"


EVENT_OF = {1: "Evt6", 2: "Evt3", 3: "Evt4", 4: "Evt10", 5: "Evt12", 6: "Evt13", 7: "Evt16"}


# ------------------------------------------------------------------ layer B (selection)

def layer_b(b):
    """Emulates the provider's classification in-process. Returns (class, flagged_reason|None)."""
    if len(b) < 6:
        return "short", None
    t = b[0]
    ln = struct.unpack(">I", b[2:6])[0]
    if t not in range(1, 8):
        return "evt19-type", None
    if len(b) < 6 + ln:
        return "evt17-short", None
    body = b[:6 + ln]
    cls = adapt.pdu_class(ps38.PDU_NAMES[t])
    p = cls()
    try:
        p.decode(body)
    except Exception:
        return "evt19-decode", None
    try:
        e = p.encode()
        q = cls(); q.decode(e)
        if not (q == p) or q.encode() != e:
            return "decoded", "unstable"
    except Exception as exc:
        return "decoded", "reencode-raises:%s" % type(exc).__name__
    try:
        p.to_primitive()
    except Exception as exc:
        return "decoded", "to_primitive-raises:%s" % type(exc).__name__
    return "decoded", None


# ------------------------------------------------------------------ layer A

def stability_problem(pdu):
    cls = type(pdu)
    try:
        e = pdu.encode()
    except Exception as exc:
        return "encode-raises|%s|%s" % (cls.__name__, type(exc).__name__)
    try:
        q = cls(); q.decode(e)
    except Exception as exc:
        return "redecode-raises|%s|%s" % (cls.__name__, type(exc).__name__)
    try:
        if not (q == pdu):
            return "redecode-not-equal|%s|%s" % (cls.__name__, _first_diff_path(pdu, q))
        if q.encode() != e:
            return "reencode-differs|%s" % cls.__name__
    except Exception as exc:
        return "compare-raises|%s|%s" % (cls.__name__, type(exc).__name__)
    return None


def _first_diff_path(p, q):
    """Names the item (class path) where the re-decoded value first differs - the mechanism, not the input."""
    try:
        a = getattr(p, "variable_items", None) or getattr(p, "presentation_data_value_items", [])
        b = getattr(q, "variable_items", None) or getattr(q, "presentation_data_value_items", [])
        if len(a) != len(b):
            return "item-count"
        for x, y in zip(a, b):
            if not (x == y):
                path = type(x).__name__
                for attr in ("user_data", "abstract_transfer_syntax_sub_items", "transfer_syntax_sub_item"):
                    xs, ys = getattr(x, attr, None), getattr(y, attr, None)
                    if isinstance(xs, list) and isinstance(ys, list):
                        if len(xs) != len(ys):
                            return path + ">item-count"
                        for u, w in zip(xs, ys):
                            if not (u == w):
                                return path + ">" + type(u).__name__
                return path
        return "fixed-fields"
    except Exception as exc:
        return "compare-error-" + type(exc).__name__


def layer_a(case, counters):
    """Run one stream against a real provider. Returns (violations, observation)."""
    taps.reset()
    state = case["state"]
    stream = bytes.fromhex(case["stream"])
    conformant = case.get("conformant")
    conf = "conformant-input" if ps38.stream_conformant(stream) else "nonconformant-input"
    viol = []
    ae = harness.make_ae(timeouts=(1.0, 1.0, 1.0, 1.0), supported=[VER, "1.2.840.10008.5.1.4.1.1.2"], requested=[VER])
    counters["layerA_streams"] = counters.get("layerA_streams", 0) + 1
    counters["state_" + state.rstrip("r")] = counters.get("state_" + state.rstrip("r"), 0) + 1
    target = None
    try:
        if state in ("Sta2", "Sta6", "Sta13"):
            server, port = harness.start_server(ae)
            p = vpeer.Peer.connect(port)
            try:
                if state in ("Sta6", "Sta13"):
                    ac = p.associate(ps38.make_rq(pcs=[{"id": 1, "abs": VER, "ts": [ps38.IMPLICIT_LE]}]))
                    if not ac or ac.get("type") != "AC":
                        return [], {"setup": "no AC"}, "setup failed: no AC"
                if state == "Sta13":
                    p.send_raw(b"\x09\x00\x00\x00\x00\x00")       # unknown PDU type => Evt19 => AA-8 => Sta13
                    p.recv_pdu(2.0)                                 # the A-ABORT
                p.send_raw(stream)
                time.sleep(0.03)
                p.half_close()
                p.drain(quiet=0.3, limit=3.0)
            finally:
                p.close()
            harness.wait_for(lambda: bool(harness.acceptor_assocs()), 1.0)
            target = (harness.acceptor_assocs() or [None])[0]
        else:
            lst = vpeer.Listener()
            res = {}

            def script():
                q = lst.accept(5.0)
                if q is None:
                    return
                try:
                    rq = q.recv_pdu(3.0)
                    if not rq or rq.get("type") != "RQ":
                        return
                    if state == "Sta5":
                        q.send_raw(stream)
                    else:
                        q.send_pdu(ps38.make_ac(rq))
                        if state == "Sta7r":
                            r = q.recv_pdu(3.0)      # the A-RELEASE-RQ
                            res["got"] = r and r.get("type")
                        q.send_raw(stream)
                    time.sleep(0.03)
                    q.half_close()
                    q.drain(quiet=0.3, limit=3.0)
                finally:
                    q.close()
            th = threading.Thread(target=script, daemon=True)
            th.start()
            assoc = ae.associate("127.0.0.1", lst.port)
            if state == "Sta7r" and assoc.is_established:
                assoc.release()
            elif state == "Sta6r" and assoc.is_established:
                time.sleep(0.2)
                if assoc.is_established:
                    assoc.release()
            th.join(6.0)
            lst.close()
            target = (harness.requestor_assocs() or [None])[0]
        quiet, waited = taps.wait_quiet(10.0)
        # ---------------- observations
        evs = [e for (_, aid, e) in taps.State.dul_events if target is not None and aid == id(target)]
        decoded = [(pdu, ev, raw) for (_, aid, pdu, ev, raw) in taps.State.decoded if target is not None and aid == id(target)]
        counters["evt19_observed"] = counters.get("evt19_observed", 0) + evs.count("Evt19")
        counters["evt17_observed"] = counters.get("evt17_observed", 0) + evs.count("Evt17")
        for (pdu, ev, raw) in decoded:
            counters["decoded_pdus_stability_checked"] = counters.get("decoded_pdus_stability_checked", 0) + 1
            pr = stability_problem(pdu)
            if pr:
                pconf = "conformant-input" if not ps38.conformance_problems(raw) else "nonconformant-input"
                from pynetdicom import _config as _cfg
                fb = "" if tuple(_cfg.CODECS) == ("ascii",) else "fallback-codecs|"
                viol.append({"key": "%sunstable-pdu|%s|%s" % (fb, pconf, pr), "detail": "CODECS=%r; " % (tuple(_cfg.CODECS),) + "decoded from %s; reference says: %r" % (raw.hex()[:200], ps38.conformance_problems(raw)[:3])})
        LOCAL = ("Evt1", "Evt7", "Evt8", "Evt9", "Evt11", "Evt14", "Evt15")
        invalid_seen = False
        for pr in taps.State.fsm_problems:
            if pr["kind"] == "action-raises":
                viol.append({"key": "action-raises|%s|%s|%s" % (conf, pr["action"], pr["exc"]), "detail": "%r" % pr})
            elif pr["kind"] == "invalid-event":
                invalid_seen = True
                ev, st = pr["pair"].split("@")
                if ev in LOCAL and st == "Sta13":
                    viol.append({"key": "fsm|invalid-event|local-primitive@Sta13", "detail": "%r" % pr})
                else:
                    viol.append({"key": "fsm|invalid-event|%s" % pr["pair"], "detail": "%r" % pr})
            else:
                viol.append({"key": "fsm|%s|%s" % (pr["kind"], pr.get("pair") or pr.get("action")), "detail": "%r" % pr})
        for e in taps.State.excs:
            if e["type"] == "InvalidEventError" and invalid_seen:
                continue        # the same observation, already reported through the FSM monitor
            if any(v_["key"].startswith("action-raises") for v_ in viol) and "fsm.py" in " ".join(e["frames"]):
                continue
            kind = "assoc-thread" if ("AcceptorThread" in e["thread"] or "RequestorThread" in e["thread"]) else "provider-thread"
            viol.append({"key": "exception-escaped|%s|%s|%s|%s" % (conf, kind, e["type"], e["where"]), "detail": "%r" % e})
        if conformant:
            counters["conformant_checked"] = counters.get("conformant_checked", 0) + 1
            want = EVENT_OF[stream[0]]
            raws = [raw for (_, _, raw) in decoded]
            if stream not in raws or want not in evs:
                viol.append({"key": "conformant-pdu-rejected|%s|%s" % (ps38.PDU_NAMES[stream[0]], case.get("field")),
                             "detail": "events %r, decoded %d PDUs; stream %s" % (evs, len(decoded), stream.hex()[:300])})
        inconclusive = None
        if not quiet:
            stuck = [(a, al, dl, st) for (a, al, dl, st) in taps.assoc_threads() if al or dl]
            parked = []
            for (a, al, dl, st) in stuck:
                for th_ in ([a] if al else []) + ([a.dul] if dl else []):
                    same, stack = taps.stable_block(th_, 1.0)
                    parked.append((th_.name.split("@")[0], st, same, stack[-3:]))
            if any(x[2] for x in parked):
                where = next(x for x in parked if x[2])
                viol.append({"key": "hang|%s|%s" % (where[1], where[3][-1].split(":")[1] if where[3] else "?"),
                             "detail": "threads alive 10 s after the peer closed: %r" % parked})
            else:
                inconclusive = "threads alive after watchdog but not parked: %r" % parked
        else:
            if target is not None and target.dul.state_machine.current_state != "Sta1" and not viol:
                # only reported when nothing else explains it (a crashed provider thread trivially never reaches idle)
                viol.append({"key": "not-idle-at-end|%s|%s" % (target.mode, target.dul.state_machine.current_state),
                             "detail": "provider thread ended with the FSM in %s; transitions %r; open sockets %d" % (
                                 target.dul.state_machine.current_state,
                                 [(f["before"], f["event"], f["after"]) for f in taps.State.fsm if f["assoc"] == id(target)][-4:],
                                 len(taps.open_sockets()))})
        obs = {"state": state, "dul_events": evs[-6:], "decoded": len(decoded), "quiet": quiet,
               "fsm": [(f["before"], f["event"], f["after"]) for f in taps.State.fsm][-6:]}
        return viol, obs, inconclusive
    finally:
        harness.stop_ae(ae, timeout=3.0)


# ------------------------------------------------------------------ cases

ACC_STATES = ["Sta2", "Sta2", "Sta6", "Sta6", "Sta13", "Sta5", "Sta6r", "Sta7r"]


def gen_cases(tier, seed):
    nblocks = 64 if tier == "quick" else 640
    return [{"seed": seed, "block": b, "tier": tier} for b in range(nblocks)]


def run_case(case):
    counters = {}
    viols = {}
    keys = set()
    sample = None
    inconc = []
    if "stream" in case:        # direct replay of one stream
        v, obs, inc = layer_a(case, counters)
        return {"key": sha(case["stream"]), "nontrivial": True, "sample": {"case": case, "observed": obs},
                "violations": v, "counters": counters, "inconclusive": inc}
    from pynetdicom import _config
    prev_codecs = _config.CODECS
    # a quarter of the blocks each: default codecs, and three fallback configurations the documentation allows
    _config.CODECS = [prev_codecs, ("ascii", "utf-8"), ("ascii", "utf-16"), ("ascii", "cp037", "latin-1")][case["block"] % 4]
    try:
        return _run_block(case, counters, viols, keys, sample, inconc)
    finally:
        _config.CODECS = prev_codecs


def _run_block(case, counters, viols, keys, sample, inconc):
    from pynetdicom import _config
    counters["blocks_codecs_%s" % "+".join(_config.CODECS)] = 1
    rng = rng_for(case["seed"], PID, case["block"])
    n_a = 20 if case["tier"] == "quick" else 60
    n_b = 1000 if case["tier"] == "quick" else 4000
    n_conf = 5 if case["tier"] == "quick" else 15
    todo = []
    # layer B: volume
    flagged = 0
    for i in range(n_b):
        v = base_values(rng)
        b = ps38.encode(v)
        name, field, mb = mutate(rng, b, v)
        cls, why = layer_b(mb)
        counters["layerB_inputs"] = counters.get("layerB_inputs", 0) + 1
        counters["layerB_" + cls] = counters.get("layerB_" + cls, 0) + 1
        if why and flagged < 12:
            flagged += 1
            counters["layerB_flagged"] = counters.get("layerB_flagged", 0) + 1
            t = mb[0]
            st = {1: "Sta2", 2: "Sta5", 3: "Sta5", 4: "Sta6", 5: "Sta6", 6: "Sta7r", 7: "Sta6"}.get(t, "Sta6")
            todo.append({"state": st, "stream": mb.hex(), "mut": name, "field": field, "why": why})
        elif i < n_a:
            st = rng.choice(ACC_STATES)
            todo.append({"state": st, "stream": mb.hex(), "mut": name, "field": field})
    # a few multi-PDU streams: valid PDU followed by a mutated one
    for i in range(3):
        v1 = {"type": "PDATA", "pdvs": [ps38.pdv(1, cmdset.encode(cmdset.c_echo_rq(3)), True, True)]}
        v = base_values(rng); name, field, mb = mutate(rng, ps38.encode(v), v)
        todo.append({"state": "Sta6", "stream": (ps38.encode(v1) + mb).hex(), "mut": "valid+" + name, "field": field})
    # conformant PDUs that must be accepted
    for i in range(n_conf):
        while True:
            v = gen.gen_value(rng)
            if v["type"] in ("RQ", "AC"):
                v["pcs"] = v["pcs"][:5]
                if not v["pcs"] or any(not pc.get("ts") for pc in v["pcs"]):
                    continue
                # sub-items a receiver may legitimately refuse are kept out of the conformant set
                v["ui"] = [s for s in v["ui"] if not (s["k"] == "role" and s["scu"] == 0 and s["scp"] == 0)]
                if v["type"] == "RQ" and any(s["k"] == "uid_rq" and s["utype"] == 2 and s["sec"] == "" for s in v["ui"]):
                    continue
            if v["type"] == "PDATA" and not v["pdvs"]:
                continue
            break
        mb, what = conformant_variant(rng, v)
        st = {"RQ": "Sta2", "AC": "Sta5", "RJ": "Sta5", "PDATA": rng.choice(["Sta6", "Sta6r"]), "RELRQ": rng.choice(["Sta6", "Sta6r"]),
              "RELRP": "Sta7r", "ABORT": rng.choice(["Sta6", "Sta6r", "Sta5"])}[v["type"]]
        todo.append({"state": st, "stream": mb.hex(), "mut": "conformant", "field": what, "conformant": True})
    for c in todo:
        v, obs, inc = layer_a(c, counters)
        outcome = "viol" if v else ("evt19" if "Evt19" in obs.get("dul_events", []) else "evt17" if obs.get("dul_events", [])[-1:] == ["Evt17"] else "decoded")
        keys.add("%s|%s|%s|%s" % (c["mut"], c["field"], c["state"], outcome))
        if inc:
            inconc.append(inc)
        if sample is None and obs.get("decoded"):
            sample = {"case": c, "observed": obs}
        for x in v:
            if x["key"] not in viols:
                viols[x["key"]] = dict(x, case=c)
    counters["distinct_outcomes"] = len(keys)
    res = {"key": sha(sorted(keys)), "nontrivial": True, "sample": sample,
           "violations": [{"key": k, "detail": x["detail"][:600] + " || stream=%s state=%s mut=%s/%s" % (x["case"]["stream"][:300], x["case"]["state"], x["case"]["mut"], x["case"]["field"])} for k, x in viols.items()],
           "counters": counters}
    if len(inconc) > 2:
        res["inconclusive"] = "; ".join(inconc[:2])
    res["_keys"] = sorted(keys)
    return res


def extra_evidence(tier, results):
    keys = set()
    for r in results.values():
        keys.update(r.get("_keys") or [])
    return {"distinct_nontrivial": len(keys), "distinct_rule_detail": "distinct (mutator, field, state, outcome) tuples over all layer-A streams",
            "outcome_tuples_sample": sorted(keys)[:40]}
