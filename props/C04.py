"""C04 — the state machine reacts to every (state, event) pair as PS3.8 prescribes.

Exhaustive: 13 states x 19 events x {requestor, acceptor} (+ variants: AE-6 protocol version 1/2,
AA-3 abort source 0/2, AA-1 with/without a queued local abort primitive).

Each evaluation executes the REAL `StateMachine.do_action(event)` on an unstarted real Association
whose DUL provider has a real AssociationSocket over one end of a socketpair (the harness reads the
other end: bytes and EOF are observed for real), a recording Timer as ARTIM, and queues pre-loaded
with what the event presupposes.  Observed effects are compared with vlib.ps38_fsm (independent
transcription of Tables 9-6..9-10).
"""
import logging
import queue
import socket
import threading
import time

from vlib import ps38, ps38_fsm
from vlib.common import sha

PID = "C04"
LEVEL = "exploration"
RULE = ("exhaustive enumeration of all 247 (state,event) pairs x {requestor,acceptor} x variants (AE-6 protocol "
        "version ok/bad, AA-3 source 0/2, AA-1 with/without queued abort primitive); distinct = (state,event,role,variant); "
        "all are non-trivial (defined pairs: effects compared; undefined pairs: refusal without side effects)")
ASSUMPTIONS = ["vlib/ps38_fsm.py transcribes PS3.8 Tables 9-6..9-10 faithfully",
               "not asserted (tables leave them open): abort source/reason bytes of AA-7, reason of AA-8, result byte of the AE-6 rejection; "
               "whether Evt17 actions (AA-4, AA-5, AR-5) additionally shut the local socket"]
WORKERS = {"quick": 8, "thorough": 8}
EXHAUSTIVE = {"quick": True, "thorough": True}
REQUIRE = {"follow_up_polls": 500, "defined_pairs_checked": 3 * 246, "undefined_pairs_checked": 3 * 248, "artim_probes": 700, "pdus_observed_on_wire": 60,
           "indications_observed": 60, "artim_ops_observed": 60, "closes_observed": 30}


CLOCK = None


def setup_worker():
    """ARTIM is observed behaviourally as well: pynetdicom.timer reads a virtual clock, and after the action the
    clock is advanced past the timeout to see whether the timer is really running."""
    global CLOCK
    logging.disable(logging.CRITICAL)
    from props.C09 import VClock
    import pynetdicom.timer as tm
    CLOCK = VClock()
    tm.time = CLOCK.module()


def gen_cases(tier, seed):
    cases = []
    for s in ps38_fsm.STATES:
        for e in ps38_fsm.EVENTS:
            for role in ("requestor", "acceptor"):
                action = ps38_fsm.TABLE.get((s, e))
                variants = [""]
                if action == "AE-6":
                    variants = ["version-ok", "version-bad"]
                elif action == "AA-3":
                    variants = ["source0", "source2"]
                elif action == "AA-1" and e == "Evt15":
                    variants = ["abort-queued-user", "abort-queued-provider"]
                elif action == "AA-1":
                    variants = ["no-primitive"]
                for v in variants:
                    for hist in ("fresh", "stopped", "running"):
                        cases.append({"state": s, "event": e, "role": role, "variant": v, "timer_hist": hist})
    # block cases to amortise process start-up
    blocks = [cases[i:i + 40] for i in range(0, len(cases), 40)]
    return [{"block": b} for b in blocks]


class RecTimer:
    """Recording ARTIM timer (subclass created lazily so that pynetdicom imports happen in the worker)."""


def _make_rec_timer():
    from pynetdicom.timer import Timer

    class Rec(Timer):
        def __init__(self, timeout):
            super().__init__(timeout)
            self.ops = []

        def start(self):
            if not getattr(self, "_in_restart", False):
                self.ops.append("start")
            super().start()

        def stop(self):
            self.ops.append("stop"); super().stop()

        def restart(self):
            self.ops.append("start")
            self._in_restart = True
            try:
                Timer.restart(self)
            finally:
                self._in_restart = False

    return Rec(30)


def _valid_rq_value():
    return ps38.make_rq(called="ANY-SCP", calling="PEER")


def _build(case):
    """Returns (assoc, peer_sock, listener, extras)."""
    from pynetdicom import AE
    from pynetdicom.association import Association
    from pynetdicom.transport import AssociationSocket, AddressInformation, T_CONNECT
    from pynetdicom import pdu as P, pdu_primitives as pp
    from vlib import adapt

    ae = AE(ae_title="VERIF")
    ae.add_requested_context("1.2.840.10008.1.1")
    ae.add_supported_context("1.2.840.10008.1.1")
    mode = "requestor" if case["role"] == "requestor" else "acceptor"
    assoc = Association(ae, mode)
    dul = assoc.dul
    a, b = socket.socketpair()
    listener = None
    extras = {"pdata_ind": []}
    state, event = case["state"], case["event"]

    if event == "Evt1" and state in ("Sta1",):
        # AE-1 needs an unconnected AssociationSocket and somewhere to connect to
        listener = socket.socket(socket.AF_INET, socket.SOCK_STREAM)
        listener.bind(("127.0.0.1", 0)); listener.listen(1); listener.settimeout(2)
        a.close(); b.close(); a = b = None
        dul.socket = AssociationSocket(assoc, address=AddressInformation("127.0.0.1", 0))
    else:
        dul.socket = AssociationSocket(assoc, client_socket=a)
        # constructing with a client socket enqueues Evt5: drain it (we drive events ourselves)
        while True:
            try:
                dul.event_queue.get(False)
            except queue.Empty:
                break
    assoc.acceptor.address_info = AddressInformation("127.0.0.1", 11112)
    assoc.requestor.address_info = AddressInformation("127.0.0.1", 11113)
    dul.artim_timer = _make_rec_timer()
    # ARTIM history before the action (a real acceptor's ARTIM has been started by AE-5 and stopped by AE-6)
    hist = case.get("timer_hist", "fresh")
    if hist in ("stopped", "running"):
        dul.artim_timer.start(); CLOCK.elapsed += 1.0
        if hist == "stopped":
            dul.artim_timer.stop()
        dul.artim_timer.ops.clear()
    dul.state_machine.current_state = state

    # capture P-DATA indications (DT-2 / AR-6 hand them to the DIMSE provider)
    orig_recv = assoc.dimse.receive_primitive

    def rec_recv(prim):
        extras["pdata_ind"].append(prim)
    assoc.dimse.receive_primitive = rec_recv

    def assoc_request_primitive():
        v = _valid_rq_value()
        prim = adapt.to_primitive_obj(v)
        port = listener.getsockname()[1] if listener else 9
        prim.called_presentation_address = AddressInformation("127.0.0.1", port)
        prim.calling_presentation_address = AddressInformation("127.0.0.1", 0)
        return prim

    # ---- preload what the event presupposes
    if event == "Evt1":
        dul.to_provider_queue.put(assoc_request_primitive())
    elif event == "Evt2":
        t = T_CONNECT(assoc_request_primitive()); t.result = "Evt2"
        dul.to_provider_queue.put(t)
    elif event == "Evt3":
        p = P.A_ASSOCIATE_AC(); p.decode(ps38.encode(ps38.make_ac(_valid_rq_value()))); dul._recv_pdu.put(p)
    elif event == "Evt4":
        p = P.A_ASSOCIATE_RJ(); p.decode(ps38.encode({"type": "RJ", "result": 1, "source": 1, "reason": 1})); dul._recv_pdu.put(p)
    elif event == "Evt6":
        v = _valid_rq_value()
        if case["variant"] == "version-bad":
            v["version"] = 2
        p = P.A_ASSOCIATE_RQ(); p.decode(ps38.encode(v)); dul._recv_pdu.put(p)
    elif event == "Evt7":
        prim = adapt.to_primitive_obj(ps38.make_ac(_valid_rq_value())); prim.result = 0
        dul.to_provider_queue.put(prim)
    elif event == "Evt8":
        prim = pp.A_ASSOCIATE(); prim.result = 1; prim.result_source = 1; prim.diagnostic = 1
        dul.to_provider_queue.put(prim)
    elif event == "Evt9":
        prim = pp.P_DATA(); prim.presentation_data_value_list = [[1, b"\x03\x00\x01"]]
        dul.to_provider_queue.put(prim)
    elif event == "Evt10":
        p = P.P_DATA_TF(); p.decode(ps38.encode(ps38.pdata(ps38.pdv(1, b"\x00\x01", True, True)))); dul._recv_pdu.put(p)
    elif event == "Evt11":
        dul.to_provider_queue.put(pp.A_RELEASE())
    elif event == "Evt12":
        p = P.A_RELEASE_RQ(); p.decode(ps38.encode({"type": "RELRQ"})); dul._recv_pdu.put(p)
    elif event == "Evt13":
        p = P.A_RELEASE_RP(); p.decode(ps38.encode({"type": "RELRP"})); dul._recv_pdu.put(p)
    elif event == "Evt14":
        prim = pp.A_RELEASE(); prim.result = "affirmative"; dul.to_provider_queue.put(prim)
    elif event == "Evt15":
        if case["variant"] == "abort-queued-provider":
            prim = pp.A_P_ABORT(); prim.provider_reason = 2
        else:
            prim = pp.A_ABORT(); prim.abort_source = 0
        dul.to_provider_queue.put(prim)
    elif event == "Evt16":
        src = 2 if case["variant"] == "source2" else 0
        p = P.A_ABORT_RQ(); p.decode(ps38.encode({"type": "ABORT", "source": src, "reason": 0})); dul._recv_pdu.put(p)
    return assoc, b, listener, extras


def _read_peer(sock, settle=0.05):
    """Returns (bytes_received, eof_seen)."""
    if sock is None:
        return b"", False
    sock.setblocking(False)
    buf = b""
    eof = False
    deadline = time.time() + settle
    while True:
        try:
            d = sock.recv(65536)
            if d == b"":
                eof = True
                break
            buf += d
        except BlockingIOError:
            if time.time() > deadline:
                break
            time.sleep(0.005)
        except OSError:
            eof = True
            break
    return buf, eof


ISSUED = []          # (indication object, values when issued, pair) of earlier pairs evaluated in this worker process


def _snapshot(prim):
    out = {}
    for k, v in vars(prim).items():
        # only plain values are compared (A-ABORT / A-P-ABORT / A-RELEASE fields are ints or None; an A-ASSOCIATE's item
        # lists are identified by object, their own repr() may not be usable on the hostile values the harness feeds)
        out[k] = repr(v) if isinstance(v, (int, str, bytes, type(None), bool)) else "<%s at %x>" % (type(v).__name__, id(v))
    return out


def _classify_indication(prim):
    n = type(prim).__name__
    if n == "A_ASSOCIATE":
        if prim.result is None:
            return "assoc-ind"
        return "assoc-conf-acc" if prim.result == 0 else "assoc-conf-rej"
    if n == "A_RELEASE":
        return "release-ind" if prim.result is None else "release-conf"
    if n == "A_ABORT":
        return "abort-ind:user"
    if n == "A_P_ABORT":
        return "abort-ind:provider"
    if n == "P_DATA":
        return "pdata-ind"
    return "?" + n


def eval_pair(case):
    from pynetdicom.fsm import InvalidEventError
    state, event, role, variant = case["state"], case["event"], case["role"], case["variant"]
    action = ps38_fsm.TABLE.get((state, event))
    counters = {}
    viol = []
    assoc, peer, listener, extras = _build(case)
    dul = assoc.dul
    sm = dul.state_machine
    q_before = (dul.to_provider_queue.qsize(), dul._recv_pdu.qsize())
    raised = None
    accepted_conn = None
    try:
        sm.do_action(event)
    except InvalidEventError as exc:
        raised = exc
    except Exception as exc:  # an action that raises is an observation, not a harness error
        raised = exc
    if listener is not None:
        try:
            accepted_conn, _ = listener.accept()
        except OSError:
            accepted_conn = None
    sent, eof = _read_peer(peer)
    inds = []
    shared = []
    while True:
        try:
            prim = dul.to_user_queue.get(False)
        except queue.Empty:
            break
        inds.append(_classify_indication(prim))
        if type(prim).__name__ != "P_DATA":
            # an indication belongs to the association it was issued to: the object must not be one already handed to the
            # user of an EARLIER association of this process, and those earlier ones must keep the values they were issued with
            if any(prim is q for q, _s, _m in ISSUED):
                shared.append("the %s object issued for %s@%s is the very object issued earlier for %s" % (
                    type(prim).__name__, event, state, next(m for q, _s, m in ISSUED if q is prim)))
            else:
                ISSUED.append((prim, _snapshot(prim), "%s@%s" % (event, state)))
    for q, snap, m in ISSUED:
        now = _snapshot(q)
        if now != snap:
            diff = sorted(k for k in set(now) | set(snap) if now.get(k) != snap.get(k))
            shared.append("the %s issued earlier for %s changed after %s@%s: %s" % (
                type(q).__name__, m, event, state, ", ".join("%s %s -> %s" % (k, snap.get(k), now.get(k)) for k in diff)))
    del ISSUED[:-2000]
    inds += [_classify_indication(p) for p in extras["pdata_ind"]]
    ops = list(dul.artim_timer.ops)
    # behavioural ARTIM probe: does it expire once more than its timeout has elapsed?
    CLOCK.elapsed += (dul.artim_timer.timeout or 30) + 1.0
    artim_running = bool(dul.artim_timer.expired)
    hist = case.get("timer_hist", "fresh")
    after = sm.current_state
    killed = dul._kill_thread
    obs = {"artim_running_probe": artim_running, "state_after": after, "sent": sent.hex()[:120], "eof": eof, "indications": inds, "artim": ops,
           "killed": killed, "raised": type(raised).__name__ if raised else None}
    mk = "%s@%s" % (event, state)
    # the event's own input must be used up by the action: whatever is still queued for the provider is polled again by the
    # next reactor iteration and must then be an event that is defined for the state the action led to
    if action is not None and raised is None and not killed:
        try:
            while not dul.event_queue.empty():
                dul.event_queue.get(False)
            if dul._process_recv_primitive():
                ev2 = dul.event_queue.get(False)
                counters["follow_up_polls_with_event"] = 1
                if ps38_fsm.TABLE.get((after, ev2)) is None:
                    viol.append({"key": "phantom-event|%s|%s@%s" % (action, ev2, after),
                                 "detail": "%s: after the action the provider queue still holds a primitive that the next iteration turns into %s in %s (undefined)" % (mk, ev2, after)})
            counters["follow_up_polls"] = 1
        except Exception as exc:
            viol.append({"key": "phantom-event|%s|poll-raises-%s" % (action, type(exc).__name__), "detail": "%s: %r" % (mk, exc)})

    if action is None:
        counters["undefined_pairs_checked"] = 1
        if not isinstance(raised, InvalidEventError):
            viol.append({"key": "undefined-pair-not-refused|%s" % mk, "detail": "do_action(%s) in %s: raised=%r state_after=%s" % (event, state, raised, after)})
        side = []
        if after != state: side.append("state->%s" % after)
        if sent: side.append("sent %s" % sent.hex()[:40])
        if eof: side.append("closed transport")
        if inds: side.append("indications %r" % inds)
        if ops: side.append("artim %r" % ops)
        if (dul.to_provider_queue.qsize(), dul._recv_pdu.qsize()) != q_before: side.append("consumed queued input")
        if artim_running != (hist == "running"): side.append("ARTIM running=%r after refusal (history %s)" % (artim_running, hist))
        if side:
            viol.append({"key": "undefined-pair-side-effect|%s" % mk, "detail": "; ".join(side)})
    else:
        counters["defined_pairs_checked"] = 1
        spec = ps38_fsm.ACTION[action]
        if isinstance(raised, InvalidEventError):
            viol.append({"key": "defined-pair-refused|%s" % mk, "detail": "table says %s, do_action raised %r" % (action, raised)})
        elif raised is not None:
            viol.append({"key": "action-raises|%s|%s" % (action, type(raised).__name__), "detail": "%s: %r" % (mk, raised)})
        else:
            version_ok = variant != "version-bad"
            want_next = ps38_fsm.next_state(action, is_requestor=(role == "requestor"), version_ok=version_ok)
            if after != want_next:
                viol.append({"key": "wrong-next-state|%s|%s" % (action, mk), "detail": "got %s want %s (role=%s variant=%s)" % (after, want_next, role, variant)})
            # --- PDU sent
            want_send = spec["sends"]
            want_ind = spec["indication"]
            want_artim = spec["artim"]
            if action == "AE-6" and not version_ok:
                want_send, want_ind, want_artim = "RJ", None, "stop+start"
            pdus, rest = ps38.split_stream(sent)
            types = []
            decoded = []
            for pb in pdus:
                try:
                    d = ps38.decode(pb); decoded.append(d); types.append(d["type"])
                except Exception:
                    types.append("undecodable")
            if rest:
                types.append("partial")
            if pdus:
                counters["pdus_observed_on_wire"] = len(pdus)
            if types != ([want_send] if want_send else []):
                viol.append({"key": "wrong-pdu-sent|%s" % action, "detail": "%s: sent %r want %r" % (mk, types, want_send)})
            elif decoded:
                d = decoded[0]
                if action == "AA-1":
                    want_src = 2 if variant == "abort-queued-provider" else 0
                    if d["source"] != want_src:
                        viol.append({"key": "wrong-abort-source|AA-1", "detail": "%s variant=%s: source=%d want %d" % (mk, variant, d["source"], want_src)})
                    if variant == "abort-queued-provider" and d["reason"] != 2:
                        viol.append({"key": "wrong-abort-reason|AA-1", "detail": "%s: reason=%d want 2 (from the queued A-P-ABORT primitive)" % (mk, d["reason"])})
                if action == "AA-8" and d["source"] != 2:
                    viol.append({"key": "wrong-abort-source|AA-8", "detail": "%s: source=%d want 2 (service-provider)" % (mk, d["source"])})
                if action == "AE-6" and (d["source"], d["reason"]) != (2, 2):
                    viol.append({"key": "wrong-rj-codes|AE-6", "detail": "%s: source=%d reason=%d want (2,2)" % (mk, d["source"], d["reason"])})
            # --- indications
            norm = []
            for i in inds:
                norm.append(i)
            if want_ind == "abort-ind":
                want_list = ["abort-ind:provider" if variant == "source2" else "abort-ind:user"]
            elif want_ind == "p-abort-ind":
                want_list = ["abort-ind:provider"]
            elif want_ind is None:
                want_list = []
            else:
                want_list = [want_ind]
            if inds:
                counters["indications_observed"] = len(inds)
            if norm != want_list:
                viol.append({"key": "wrong-indication|%s" % action, "detail": "%s: indications %r want %r" % (mk, norm, want_list)})
            # --- ARTIM
            if ops:
                counters["artim_ops_observed"] = len(ops)
            if want_artim is None:
                ok = ops == []
            elif want_artim == "stop+start":
                ok = ops == ["stop", "start"]
            elif want_artim == "start":
                ok = len(ops) >= 1 and ops[-1] == "start" and set(ops) <= {"start", "stop"} and ops.count("start") == 1
            else:
                ok = ops == ["stop"]
            if not ok:
                viol.append({"key": "wrong-artim|%s" % action, "detail": "%s: ARTIM ops %r want %r" % (mk, ops, want_artim)})
            want_running = (hist == "running") if want_artim is None else (want_artim in ("start", "stop+start"))
            counters["artim_probes"] = 1
            if artim_running != want_running:
                viol.append({"key": "artim-state|%s|%s" % (action, "not-running" if want_running else "still-running"),
                             "detail": "%s: after the action ARTIM %s once timeout+1 s elapsed (history=%s, ops=%r); PS3.8 says %s" % (
                                 mk, "expires" if artim_running else "does not expire", hist, ops, want_artim or "untouched")})
            # --- transport
            if eof:
                counters["closes_observed"] = 1
            if spec["closes"] is True and not eof and peer is not None:
                viol.append({"key": "transport-not-closed|%s" % action, "detail": "%s: peer end still open after the action" % mk})
            if spec["closes"] is False and eof:
                viol.append({"key": "transport-closed|%s" % action, "detail": "%s: action closed the transport connection" % mk})
            if spec.get("connects") and accepted_conn is None:
                viol.append({"key": "no-connect|%s" % action, "detail": "%s: no TCP connection reached the listener" % mk})
            # --- reactor stops on every move to Sta1
            if want_next == "Sta1" and not killed:
                viol.append({"key": "reactor-not-stopped|%s" % action, "detail": "%s: moved to Sta1 without kill_dul()" % mk})
            if want_next != "Sta1" and killed:
                viol.append({"key": "reactor-stopped-early|%s" % action, "detail": "%s: kill_dul() although next state is %s" % (mk, want_next)})
    # cleanup
    for s in (peer, accepted_conn, listener):
        try:
            if s is not None:
                s.close()
        except OSError:
            pass
    try:
        if dul.socket is not None and dul.socket.socket is not None:
            dul.socket.socket.close()
    except Exception:
        pass
    for text in shared:
        viol.append({"key": "indication-shared-between-associations|%s" % (action or "none"), "detail": text})
    counters["earlier_indications_rechecked"] = len(ISSUED)
    return viol, counters, obs


def run_case(case):
    if "block" not in case:
        case = {"block": [case]}
    counters = {}
    viols = []
    keys = set()
    sample = None
    for c in case["block"]:
        v, cn, obs = eval_pair(c)
        for k, n in cn.items():
            counters[k] = counters.get(k, 0) + n
        keys.add("%s|%s|%s|%s|%s" % (c["state"], c["event"], c["role"], c["variant"], c.get("timer_hist")))
        for x in v:
            x["detail"] += " || case=%r observed=%r" % (c, obs)
            viols.append(x)
        if sample is None and obs["sent"]:
            sample = {"case": c, "table_action": ps38_fsm.TABLE.get((c["state"], c["event"])), "observed": obs}
    counters["evaluations"] = len(case["block"])
    counters["distinct_pairs"] = len(keys)
    return {"key": sha(sorted(keys)), "nontrivial": True, "sample": sample, "violations": viols, "counters": counters}


def extra_evidence(tier, results):
    n = sum(r.get("counters", {}).get("distinct_pairs", 0) for r in results.values())
    e = sum(r.get("counters", {}).get("evaluations", 0) for r in results.values())
    return {"distinct_nontrivial": n, "evaluations": e, "exhaustive": True,
            "space": "13 states x 19 events x 2 roles + action variants"}
