"""C21 - handler results map to response status and data as documented.

Same harness as C20 (vlib.scp_harness): one scripted request per case against a real acceptor, every response recorded
at the raw-socket peer and its data set decoded there with pydicom alone in the negotiated transfer syntax.

Oracle = vlib.scp_harness.model(case): a reference walk of the handler behaviour that yields, per response the
documentation promises, the SET of acceptable statuses and the expected data set.  Its tables (FAMILIES / N_SPECIFIC)
are transcribed from /repo/docs/service_classes/*.rst, docs/reference/status.rst and the doc_handle_* docstrings:

  int (incl. int subclasses such as IntEnum members) -> itself; Dataset with Status -> that status, its optional status elements (ErrorComment, OffendingElement,
  ErrorID, AttributeIdentifierList) copied to THAT response; Dataset without Status -> 0xC001; other types -> 0xC002
  (C-ECHO: 0x0000, "always Success unless a valid status is returned"); handler exception -> 0xC211 (C-STORE),
  0xC311 (C-FIND), 0xC411 (C-GET), 0xC511 (C-MOVE), 0x0110 (DIMSE-N), 0x0000 (C-ECHO); data set that cannot be encoded
  -> 0xC312 (C-FIND Identifier) / 0x0110 (DIMSE-N); invalid sub-operation count -> 0xC413 / 0xC513 (> 65535: 0xC416 /
  0xC516); no destination / count yielded -> 0xC514; malformed destination -> 0xC515; unknown / unreachable
  destination -> 0xA801.  Where the documentation is ambiguous the set contains every documented candidate.

Checks per aligned (expected, observed) response pair:
  S  status in the expected set
  E  optional status elements equal what the handler supplied for THAT response (none when it supplied none)
  D  a data set the documentation promises (C-FIND Pending Identifier, DIMSE-N Attribute List / Action Reply /
     Event Reply on a documented Success / Warning status, the handler's own FailedSOPInstanceUIDList data set)
     arrives and decodes to exactly the handler's data set; where none is promised, a data set that is sent anyway
     on a single-response service must still equal the handler's
Alignment stops at the first status mismatch; surplus / missing responses are C20's subject (counted, not judged),
except a promised response that never arrives although the association stayed up ("missing-response").

Mechanism keys: C21|status|<DIMSE>|<result class>|expected=..|got=..     C21|dataset|<DIMSE>|<what>
                C21|status-elements|<stale-from-earlier-result|unsupplied-element-present|not-copied|altered>|<DIMSE>|<element>
                C21|missing-response|<DIMSE>|<result class>
"""
from __future__ import annotations

from vlib import scp_harness as H
from vlib.common import sha

PID = "C21"
LEVEL = "exploration"
RULE = ("same shared design as C20 (one request per case; service x handler behaviour grammar x message id x context id x "
        "transfer syntax); distinct = SHA-1 of (service, handler behaviour, sub-operation outcomes, destination, transfer "
        "syntax); non-trivial = at least one response was compared against an expectation that is not 'plain int Success'")
ASSUMPTIONS = [
    "expected statuses are transcribed from docs/service_classes/*.rst, docs/reference/status.rst and the doc_handle_* "
    "docstrings (vlib.scp_harness.FAMILIES); 0xC001 / 0xC002 are documented as non-service specific and therefore also "
    "expected for DIMSE-N; where the documentation is ambiguous (raise before the first yield of a C-GET/C-MOVE handler, "
    "negative counts, both destination and count invalid) every documented candidate is accepted",
    "handler results the documentation does not describe (wrong arity / non-iterable results, statuses outside 0..65535, "
    "counts given as numeric strings / floats) are outside this property's oracle (counted as undocumented)",
    "a C-GET / C-MOVE Pending result without a data set (None / empty) is assumed to be skipped silently",
    "C-GET / C-MOVE final statuses derived from the counters are C22's subject: here any of 0x0000 / 0xB000 / 0xA702 "
    "computed by the reference walk is compared as well, but counters are not",
    "data sets are compared in canonical form (tag, VR, value strings, nested items) after decoding at the peer with "
    "pydicom in the negotiated transfer syntax (implicit / explicit little endian, explicit big endian, deflated)",
]
WORKERS = {"quick": 16, "thorough": 16}
REQUIRE = {"requests": 400, "responses_compared": 450, "status_int_checked": 200, "status_ds_checked": 40,
           "extras_checked": 15, "nostatus_checked": 4, "badtype_checked": 8, "exception_checked": 20,
           "datasets_compared": 70, "unencodable_checked": 10, "count_dest_codes_checked": 20,
           "ts_explicit": 50, "ts_implicit": 50, "ts_big": 15, "ts_deflated": 15, "status_int_subclass_checked": 6,
           "store_received_chunked": 5, "store_chunked_file_moved_or_deleted_by_handler": 2}
MAX_INCONCLUSIVE_FRAC = 0.03
EXTRA_KEYS = {"ErrorComment": "ec", "OffendingElement": "oe", "ErrorID": "eid", "AttributeIdentifierList": "ail"}


def setup_worker():
    H.setup_worker()


def gen_cases(tier, seed):
    return H.gen_cases(tier, seed, "C20-21")


def _hx(v):
    return "None" if v is None else ("0x%04X" % v if isinstance(v, int) and v >= 0 else repr(v))


def _hs(s):
    return "{" + ",".join(_hx(x) for x in sorted(s)) + "}"


def _norm_extra(kw, v):
    if v is None:
        return None
    if kw in ("OffendingElement", "AttributeIdentifierList"):
        return [[int(x) >> 16, int(x) & 0xFFFF] if not isinstance(x, (list, tuple)) else [x[0], x[1]] for x in v]
    return v


def check(case, obs):
    """Reference walk without quirks; for C-GET / C-MOVE a discrepancy that disappears when the walk emulates one of
    C22's named counter quirks is C22's finding and is only counted here."""
    viol, c, nontrivial = check_with(case, obs, frozenset())

    def structural(vs):
        return [v for v in vs if v["key"].startswith(("C21|status|", "C21|missing-response|"))]
    if structural(viol) and H.SERVICES[case["svc"]]["dimse"] in ("C-GET", "C-MOVE"):
        import itertools
        for r in range(1, len(H.QUIRKS) + 1):
            for qs in itertools.combinations(H.QUIRKS, r):
                v2, c2, n2 = check_with(case, obs, frozenset(qs))
                if not structural(v2):
                    c2["explained_by_C22_quirk"] = 1
                    return v2, c2, n2
    return viol, c, nontrivial


def _supplied_extras(case):
    h = case["h"]
    specs = [h.get("s")] if h["kind"] == "ret" else [st.get("s") for st in h.get("steps", [])]
    out = set()
    for sp in specs:
        if sp and sp.get("t") == "ds":
            out |= set(sp.get("x") or {})
    return out


def check_with(case, obs, quirks):
    svc = H.SERVICES[case["svc"]]
    dimse = svc["dimse"]
    viol = []
    c = {"requests": 1, "ts_" + case["ts"]: 1}
    if case.get("recv_chunked"):
        c["store_received_chunked"] = 1
        if H.hlog_has(obs, "file-move") or H.hlog_has(obs, "file-delete"):
            c["store_chunked_file_moved_or_deleted_by_handler"] = 1
    seen = set()

    def add(key, detail):
        if key not in seen:
            seen.add(key)
            viol.append({"key": key, "detail": detail + "   [svc %s ts %s]" % (case["svc"], case["ts"])})

    mdl = H.model(case, quirks)
    exp = mdl["exp"]
    msgs = [m for m in H.responses_of(obs) if m["field"] == H.RSP_FIELD[dimse]]
    if mdl["note"]:
        c["undocumented_" + mdl["note"]] = 1
    disturbed = H.disturbed_by_handler_or_peer(obs)
    nontrivial = False
    single = dimse not in H.GEN_DIMSE
    for i, e in enumerate(exp):
        if i >= len(msgs):
            if not disturbed and not mdl["disturbed"] and obs.get("end") in ("quiet", "timeout"):
                add("C21|missing-response|%s|%s" % (dimse, e["cls"]),
                    "expected response %d (%s, status %s) never arrived; got %d response(s) %s" % (
                        i, e["kind"], _hs(e["status"]) if e["status"] else "any", len(msgs), [_hx(m["status"]) for m in msgs]))
            else:
                c["expected_but_association_ended"] = c.get("expected_but_association_ended", 0) + 1
            break
        m = msgs[i]
        c["responses_compared"] = c.get("responses_compared", 0) + 1
        cls = e["cls"]
        if cls not in ("int-known",) or e["status"] != {0}:
            nontrivial = True
        # ---- S
        if e["status"] is not None and m["status"] not in e["status"]:
            add("C21|status|%s|%s|expected=%s|got=%s" % (dimse, cls, _hs(e["status"]), _hx(m["status"])),
                "response %d: handler result class '%s' -> documented status %s, observed %s   [handler: %s]" % (
                    i, cls, _hs(e["status"]), _hx(m["status"]), _brief(case)))
            break
        if cls.startswith("int"):
            c["status_int_checked"] = c.get("status_int_checked", 0) + 1
            if i < len(_result_specs(case, quirks)) and (_result_specs(case, quirks)[i] or {}).get("t") == "intenum":
                c["status_int_subclass_checked"] = c.get("status_int_subclass_checked", 0) + 1
        elif cls.startswith("ds-extras"):
            c["status_ds_checked"] = c.get("status_ds_checked", 0) + 1
        elif cls == "ds-without-status":
            c["nostatus_checked"] = c.get("nostatus_checked", 0) + 1
        elif cls == "bad-status-type":
            c["badtype_checked"] = c.get("badtype_checked", 0) + 1
        elif cls == "handler-exception":
            c["exception_checked"] = c.get("exception_checked", 0) + 1
        elif cls == "unencodable-dataset":
            c["unencodable_checked"] = c.get("unencodable_checked", 0) + 1
        elif cls in ("bad-count", "too-many", "negative-count", "no-count", "no-destination", "bad-destination",
                     "unknown-destination", "unreachable-destination", "zero-count"):
            c["count_dest_codes_checked"] = c.get("count_dest_codes_checked", 0) + 1
        if cls in ("int-known", "ds-extras-known") and "ds" in _status_types(case):
            c["status_ds_checked"] = c.get("status_ds_checked", 0) + (1 if cls == "int-known" else 0)
        # ---- E
        if e["extras"] is not None:
            want = {kw: _norm_extra(kw, e["extras"].get(kw)) for kw in EXTRA_KEYS}
            got = {kw: m[f] for kw, f in EXTRA_KEYS.items()}
            if any(v is not None for v in want.values()):
                c["extras_checked"] = c.get("extras_checked", 0) + 1
            for kw in EXTRA_KEYS:
                if want[kw] == got[kw]:
                    continue
                if want[kw] is None:
                    # an element the handler did not supply for this response
                    earlier = kw in _supplied_extras(case)
                    what = "stale-from-earlier-result" if earlier else "unsupplied-element-present"
                    add("C21|status-elements|%s|%s|%s" % (what, dimse, kw),
                        "response %d (status %s) carries %s=%r which the handler did not supply for this response%s" % (
                            i, _hx(m["status"]), kw, got[kw],
                            " (it supplied it in the status data set of an earlier result)" if earlier else ""))
                elif got[kw] is None:
                    add("C21|status-elements|not-copied|%s|%s" % (dimse, kw),
                        "response %d (status %s): handler's status data set has %s=%r, response has none" % (
                            i, _hx(m["status"]), kw, want[kw]))
                else:
                    add("C21|status-elements|altered|%s|%s" % (dimse, kw),
                        "response %d (status %s): handler's %s=%r arrived as %r" % (i, _hx(m["status"]), kw, want[kw], got[kw]))
        # ---- D
        d = e["data"]
        if isinstance(d, tuple) and d[0] == "any-or":
            if m["has_data"] and single:
                if m["data_err"]:
                    add("C21|dataset|%s|undecodable" % dimse, "response %d data set cannot be decoded: %s" % (i, m["data_err"]))
                elif d[1] is not None and m["data"] != d[1]:
                    add("C21|dataset|%s|differs" % dimse, "response %d data set differs from the handler's: %s" % (i, _diff(d[1], m["data"])))
                elif d[1] is not None:
                    c["datasets_compared"] = c.get("datasets_compared", 0) + 1
        elif isinstance(d, list):
            if not m["has_data"]:
                add("C21|dataset|%s|not-delivered|%s" % (dimse, e["kind"]),
                    "response %d (status %s): the handler's data set did not reach the requestor" % (i, _hx(m["status"])))
            elif m["data_err"]:
                add("C21|dataset|%s|undecodable" % dimse, "response %d data set cannot be decoded: %s" % (i, m["data_err"]))
            elif m["data"] != d:
                add("C21|dataset|%s|differs|%s" % (dimse, e["kind"]),
                    "response %d data set differs from the handler's: %s" % (i, _diff(d, m["data"])))
            else:
                c["datasets_compared"] = c.get("datasets_compared", 0) + 1
        elif d is None and dimse == "C-FIND" and e["kind"] == "final" and m["has_data"]:
            add("C21|dataset|C-FIND|unexpected-dataset|final|%s" % svc["family"],
                "final response %d (status %s) carries a data set (%d elements) although the handler supplied none for it" % (
                    i, _hx(m["status"]), len(m["data"] or [])))
        elif d is None and single and m["has_data"]:
            add("C21|dataset|%s|unexpected-dataset" % dimse,
                "response %d (status %s) carries a data set although the handler supplied none / an invalid one: %r" % (
                    i, _hx(m["status"]), m["data"]))
    else:
        if len(msgs) > len(exp) and not mdl["open"]:
            c["surplus_responses_left_to_C20"] = len(msgs) - len(exp)
    return viol, c, nontrivial


def _result_specs(case, quirks=None):
    """Status specs of the handler results in response order (approximation used for a coverage counter only)."""
    h = case["h"]
    if h["kind"] == "ret":
        return [h.get("s")]
    return [st.get("s") for st in h.get("steps", []) if "s" in st]


def _status_types(case):
    h = case["h"]
    specs = [h.get("s")] if h["kind"] == "ret" else [st.get("s") for st in h.get("steps", [])]
    return {sp["t"] for sp in specs if sp}


def _diff(a, b):
    ta = {x[0]: x for x in a}
    tb = {x[0]: x for x in (b or [])}
    out = []
    for t in sorted(set(ta) | set(tb)):
        if ta.get(t) != tb.get(t):
            out.append("(%04X,%04X): handler %r / received %r" % (t >> 16, t & 0xFFFF, ta.get(t) and ta[t][1:], tb.get(t) and tb[t][1:]))
    return "; ".join(out)[:400]


def _brief(case):
    from props.C20 import _brief as b
    return b(case)


def run_case(case):
    obs = H.run_scenario(case)
    key = sha([case["svc"], case["h"], case.get("subops"), case.get("dest"), case["ts"]])
    if obs.get("inconclusive"):
        return {"key": key, "nontrivial": False, "sample": {"case": case}, "violations": [], "counters": {},
                "inconclusive": obs["inconclusive"]}
    viol, counters, nontrivial = check(case, obs)
    mdl = H.model(case)
    sample = {"case": case, "end": obs["end"],
              "expected": [{"kind": e["kind"], "cls": e["cls"], "status": sorted(e["status"]) if e["status"] else None,
                            "extras": e["extras"]} for e in mdl["exp"]],
              "responses": [{k: m[k] for k in ("ctx", "name", "status", "mid_rsp", "ec", "oe", "eid", "ail", "has_data", "data")}
                            for m in obs["msgs"]]}
    return {"key": key, "nontrivial": nontrivial, "sample": sample, "violations": viol, "counters": counters,
            "inconclusive": None}
